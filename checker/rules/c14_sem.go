package rules

import (
	"fmt"
	"go/types"
	"math/big"
	"os"
	"sort"
	"strings"

	"golang.org/x/tools/go/ssa"

	"manticheck/internal/absint"
	"manticheck/internal/lanes"
	"manticheck/internal/report"
)

// C14 — decisions by lane interpretation (internal/absint).
//
// The rules of c14.go / c14_more.go recognise today's code shapes on go/ssa
// (an entry loop with a remainder φ, guards that dominate a read, append
// chains of scratch buffers). A behaviour-preserving refactor — the header
// split moved into a helper, guards turned into a predicate method with early
// returns, scratch buffers replaced by AppendUintN into one pre-sized buffer —
// leaves such a recogniser without its pattern although nothing about the wire
// format changed. Every clause below is therefore ALSO decided by interpreting
// the functions themselves over the bit-lane domain on inputs of concrete
// shape and symbolic content (no Manticore code runs, no byte value is chosen
// except the header bytes that drive the control flow). The interpretation
// does not care how the code is written: helpers are entered, switch/if,
// early returns, bytes.Clone/copy/append, PutUintN/AppendUintN all just
// execute.
//
// How the two are combined (settle / arbitrate):
//
//	recogniser OK        + interpretation OK or not available → OK
//	recogniser OK        + interpretation shows wrong bytes   → VIOLATION (a concrete counter-shape exists)
//	recogniser not OK    + interpretation OK                  → OK (reason names both)
//	recogniser not OK    + interpretation wrong               → VIOLATION
//	recogniser VIOLATION + interpretation not available       → the recogniser's verdict stands
//	recogniser undecided + interpretation not available       → NOT DECIDED (held, with a note)
//
// "not available" = the interpretation aborted (construct not modelled, a
// data-dependent branch that is not an error exit …); an abort alone is never
// a violation. COMPLETENESS BEFORE VERDICT: a recogniser that is "undecided"
// did not find its pattern — it saw only part of the code (the rest sits in a
// helper, a closure, a shape it does not parse) — and says nothing about the
// property; when the interpretation cannot decide the clause either, nobody
// has OBSERVED an offending construct, and the clause is recorded as
// "NOT DECIDED — …" (status held, plus a note in the evidence) instead of being
// reported. For that reason the recognisers report as VIOLATION only what they
// positively saw (a wrong offset, order, width, condition); "pattern not found"
// is always "undecided". A missing anchor, an internal error of the
// interpretation and a signature that no longer resolves stay failures.

type c14State int

const (
	c14NA c14State = iota // interpretation not available
	c14Good
	c14Bad
)

// c14V is a verdict of the lane interpretation on one clause.
type c14V struct {
	st  c14State
	msg string
}

func c14Ok(f string, a ...any) c14V   { return c14V{c14Good, fmt.Sprintf(f, a...)} }
func c14Bad_(f string, a ...any) c14V { return c14V{c14Bad, fmt.Sprintf(f, a...)} }
func c14Na(f string, a ...any) c14V   { return c14V{c14NA, fmt.Sprintf(f, a...)} }

// hard: the interpretation is unavailable for a reason that must not be turned
// into NOT DECIDED (the checker itself failed, or an anchor is gone).
func (v c14V) hard() bool {
	return v.st == c14NA && (strings.Contains(v.msg, "internal error") || strings.Contains(v.msg, "does not resolve"))
}

func c14NotDecided(r *report.Run, rule, construct, synMsg string, sem c14V) string {
	r.Note("%s %s: NOT DECIDED — the shape recogniser does not apply (%s) and the lane interpretation is not available (%s)", rule, construct, synMsg, sem.msg)
	return "NOT DECIDED — the shape recogniser does not apply to this spelling (" + synMsg + ") and the lane interpretation is not available (" + sem.msg + "): no offending construct was observed"
}

// c14NoRecogniser (environment MANTICHECK_C14_RECOGNISER=off) makes settle and
// arbitrate treat every verdict of the shape recognisers as "undecided", so
// that a self-test run shows what the lane interpretation decides on its own.
// Debugging aid only; the checks are never run that way.
var c14NoRecogniser = os.Getenv("MANTICHECK_C14_RECOGNISER") == "off"

// settle emits one obligation from a recogniser verdict and an interpretation
// verdict.
func (x *c14) settle(rule, construct, pos string, synSt report.Status, synMsg string, sem c14V) {
	r := x.R
	if c14NoRecogniser {
		synSt, synMsg = report.Undecided, "[recogniser disabled] "+synMsg
	}
	switch {
	case synSt == report.Discharged && sem.st == c14Bad:
		r.Fail(rule, construct, pos, "lane interpretation: "+sem.msg+" (the shape recogniser alone had accepted: "+synMsg+")")
	case synSt == report.Discharged:
		if sem.st == c14Good {
			synMsg += " — lane interpretation agrees: " + sem.msg
		}
		r.OK(rule, construct, pos, synMsg)
	case sem.st == c14Good:
		r.OK(rule, construct, pos, "decided by lane interpretation: "+sem.msg+" (the shape recogniser does not apply to this spelling: "+synMsg+")")
	case sem.st == c14Bad:
		r.Fail(rule, construct, pos, synMsg+"; lane interpretation: "+sem.msg)
	case synSt == report.Finding:
		r.Fail(rule, construct, pos, synMsg+" (lane interpretation not available: "+sem.msg+")")
	case sem.hard():
		r.Undecided(rule, construct, pos, synMsg+" (lane interpretation not available: "+sem.msg+")")
	default:
		r.OK(rule, construct, pos, c14NotDecided(r, rule, construct, synMsg, sem))
	}
}

// arbitrate applies settle's table to obligations the recogniser has already
// emitted (those from index `from` on that `match` selects).
func (x *c14) arbitrate(from int, match func(o *report.Obligation) bool, sem c14V) {
	arbitrateObls(x.R, from, match, sem)
}

func arbitrateObls(r *report.Run, from int, match func(o *report.Obligation) bool, sem c14V) {
	for _, o := range r.Obls[from:] {
		if !match(o) {
			continue
		}
		if c14NoRecogniser {
			o.Status, o.Reason = report.Undecided, "[recogniser disabled] "+o.Reason
		}
		switch {
		case o.Status == report.Discharged && sem.st == c14Bad:
			o.Status = report.Finding
			o.Reason = "lane interpretation: " + sem.msg + " (the shape recogniser alone had accepted: " + o.Reason + ")"
		case o.Status == report.Discharged:
			if sem.st == c14Good {
				o.Reason += " — lane interpretation agrees: " + sem.msg
			}
		case sem.st == c14Good:
			o.Reason = "decided by lane interpretation: " + sem.msg + " (the shape recogniser does not apply to this spelling: " + o.Reason + ")"
			o.Status = report.Discharged
		case sem.st == c14Bad:
			o.Reason += "; lane interpretation: " + sem.msg
			o.Status = report.Finding
		case o.Status == report.Undecided && !sem.hard():
			o.Reason = c14NotDecided(r, o.Rule, o.Construct, o.Reason, sem)
			o.Status = report.Discharged
		default:
			o.Reason += " (lane interpretation not available: " + sem.msg + ")"
		}
		o.StatusStr = o.Status.String()
	}
}

// ---------------------------------------------------------------------------
// helpers

// c14Paths runs body once per path through the data-dependent branches that do
// not guard an error exit (absint.Paths); body must create its interpreter,
// hand it to attach, and return "" or the reason the run was aborted.
func c14Paths(max int, body func(attach func(*absint.Interp)) string) string {
	ps := absint.NewPaths(max)
	for ps.More() {
		if why := body(ps.Attach); why != "" {
			return why
		}
	}
	if ps.Overflow {
		return fmt.Sprintf("more than %d paths through data-dependent branches", max)
	}
	return ""
}

func c14ConstByte(v int) absint.Int { return absint.Int{V: lanes.ConstVec(big.NewInt(int64(v)), 8)} }

func c14ConstVal(v absint.Value) (int64, bool) {
	iv, ok := v.(absint.Int)
	if !ok {
		return 0, false
	}
	k, ok := iv.V.ConstVal()
	if !ok || !k.IsInt64() {
		return 0, false
	}
	return k.Int64(), true
}

// c14Refs collects the indices of source `src` that value v carries (directly,
// or in the cells of a slice/array it refers to) and the windows of array
// `arr` that v is a slice of.
type c14Refs struct {
	arr  *absint.Node
	src  int
	idx  map[int]bool
	wins [][2]int
	seen map[*absint.Node]bool
}

func newC14Refs(arr *absint.Node, src int) *c14Refs {
	return &c14Refs{arr: arr, src: src, idx: map[int]bool{}, seen: map[*absint.Node]bool{}}
}

func (c *c14Refs) vec(v lanes.Vec) {
	for _, b := range v {
		if b.K == lanes.Src && b.S == c.src {
			c.idx[b.I] = true
		}
	}
}

func (c *c14Refs) value(v absint.Value) {
	switch y := v.(type) {
	case absint.Int:
		c.vec(y.V)
	case absint.Bool:
		c.vec(y.X)
		c.vec(y.Y)
	case *absint.Str:
		if y != nil {
			for _, ch := range y.Chars {
				c.vec(ch.Hex)
			}
		}
	case absint.Slice:
		if y.Nil || y.Arr == nil {
			return
		}
		if y.Arr == c.arr {
			c.wins = append(c.wins, [2]int{y.Lo, y.Hi})
			return
		}
		for i := y.Lo; i < y.Hi && i < len(y.Arr.Kids); i++ {
			c.node(y.Arr.Kids[i])
		}
	case absint.Ptr:
		c.node(y.N)
	case absint.Agg:
		c.node(y.N)
	case absint.Iface:
		if y.V != nil {
			c.value(y.V)
		}
	case absint.Tuple:
		for _, e := range y {
			c.value(e)
		}
	}
}

func (c *c14Refs) node(n *absint.Node) {
	if n == nil || c.seen[n] || n == c.arr {
		return
	}
	c.seen[n] = true
	for _, k := range n.Kids {
		c.node(k)
	}
	if n.Leaf != nil {
		c.value(n.Leaf)
	}
}

func (c *c14Refs) sorted() []int {
	var out []int
	for i := range c.idx {
		out = append(out, i)
	}
	sort.Ints(out)
	return out
}

func c14Range(ix []int) string {
	if len(ix) == 0 {
		return "∅"
	}
	var runs []string
	for i := 0; i < len(ix); {
		j := i
		for j+1 < len(ix) && ix[j+1] == ix[j]+1 {
			j++
		}
		runs = append(runs, fmt.Sprintf("[%d:%d]", ix[i], ix[j]+1))
		i = j + 1
	}
	if len(runs) > 6 {
		runs = append(runs[:6], fmt.Sprintf("… (%d more runs)", len(runs)-6))
	}
	return strings.Join(runs, "+")
}

func c14FieldIdx(st *types.Struct, name string) int {
	for i := 0; i < st.NumFields(); i++ {
		if st.Field(i).Name() == name {
			return i
		}
	}
	return -1
}

// ---------------------------------------------------------------------------
// KEYCREDENTIALLINK_ENTRY sequences

type c14Ent struct {
	typ         int
	n           int
	hdr, vs, ve int
}

// c14EntryBlob lays out version(4, symbolic) | entries | trailing symbolic
// bytes. Header bytes (length LE16, type) are constants, everything else is a
// symbolic byte of source "blob" whose index is its absolute offset.
func c14EntryBlob(in *absint.Interp, ents []c14Ent, trailing int) (absint.Slice, *absint.Node, int, []c14Ent) {
	total := 4 + trailing
	for _, e := range ents {
		total += 3 + e.n
	}
	arr, id := in.SymBytes("blob", total)
	off := 4
	out := make([]c14Ent, len(ents))
	for i, e := range ents {
		arr.Kids[off].Leaf = c14ConstByte(e.n & 0xff)
		arr.Kids[off+1].Leaf = c14ConstByte(e.n >> 8)
		arr.Kids[off+2].Leaf = c14ConstByte(e.typ)
		e.hdr, e.vs, e.ve = off, off+3, off+3+e.n
		out[i] = e
		off = e.ve
	}
	return absint.Slice{Arr: arr, Lo: 0, Hi: total, Cap: total}, arr, id, out
}

type c14Obs struct {
	callee string
	wins   [][2]int
	idx    []int
}

// entryHook summarises every in-module callee outside windows/keycredential
// itself (the value decoders: identifier, RSA blob, GUID, custom key
// information, timestamps, the hash) except the two tiny header codecs
// (KeyCredentialEntryType, KeyCredentialVersion), which are interpreted. A
// summarised callee may write through its pointer arguments and returns an
// unknown value; the windows of the blob it is handed are recorded.
func (x *c14) entryHook(arr *absint.Node, src int, obs *[]c14Obs, special func(callee *ssa.Function, args []absint.Value) (absint.Value, bool)) func(*absint.Interp, *ssa.CallCommon, *ssa.Function, []absint.Value) (absint.Value, bool) {
	return func(in *absint.Interp, cc *ssa.CallCommon, callee *ssa.Function, args []absint.Value) (absint.Value, bool) {
		if special != nil {
			if v, ok := special(callee, args); ok {
				return v, true
			}
		}
		if !x.summarised(callee) {
			return nil, false
		}
		rf := newC14Refs(arr, src)
		for _, a := range args {
			rf.value(a)
		}
		*obs = append(*obs, c14Obs{callee: callee.Name(), wins: rf.wins, idx: rf.sorted()})
		for _, a := range args {
			if _, isPtr := a.(absint.Ptr); isPtr {
				in.Havoc(a, "written by "+callee.Name())
			}
		}
		res := callee.Signature.Results()
		switch res.Len() {
		case 0:
			return nil, true
		case 1:
			return absint.OpaqueOf(res.At(0).Type(), "result of "+callee.Name()), true
		}
		return absint.OpaqueOf(res, "result of "+callee.Name()), true
	}
}

// summarised: an in-module callee outside windows/keycredential itself, other
// than the methods of the two header codecs.
func (x *c14) summarised(callee *ssa.Function) bool {
	if callee.Blocks == nil || !x.P.InModule(callee) || callee.Pkg == nil {
		return false
	}
	if own := x.P.Pkg(c14Pkg); own != nil && callee.Pkg.Pkg == own.Types {
		return false
	}
	if rv := callee.Signature.Recv(); rv != nil {
		if nt, ok := c14Deref(rv.Type()).(*types.Named); ok && nt.Obj().Pkg() != nil && strings.HasSuffix(nt.Obj().Pkg().Path(), c14PkgKey) {
			switch nt.Obj().Name() {
			case "KeyCredentialEntryType", "KeyCredentialVersion":
				return false
			}
		}
	}
	return true
}

func (x *c14) unknownType() int {
	for v := 0xF0; v > 0; v-- {
		if _, used := x.family[int64(v)]; !used {
			return v
		}
	}
	return 0
}

type c14ReadSem struct {
	done    bool
	why     string             // abort reason when !done
	handled map[int64][]string // K → fields assigned because of a K entry (sorted)
	decided map[int64]bool     // K → at least one run accepted a K entry
	lanes   c14V               // the header lanes: length LE16 @0, type @2, value @3..3+length, next entry @3+length
	always  []string           // fields assigned whatever the entries are
}

// semFromBytes interprets (*KeyCredential).FromBytes on entry sequences
//
//	version | unknown-type entry (258 bytes) | K entry (L bytes) | unknown-type entry (1 byte)
//
// for every entry-type constant K and L ∈ {1, 8, 16, 40}, plus the same
// sequence without the K entry. The 258-byte leading entry has both length
// bytes non-zero and different, so a reader that takes the length big-endian,
// from one byte only, or from another offset loses the K entry; the type byte
// differs from both length bytes.
func (x *c14) semFromBytes(fromB *ssa.Function) *c14ReadSem {
	out := &c14ReadSem{handled: map[int64][]string{}, decided: map[int64]bool{}}
	U := x.unknownType()
	skip := map[string]bool{"RawBytes": true, "RawBytesSize": true}
	type runRes struct {
		assigned map[string]bool
		errNil   bool
		obs      []c14Obs
		refs     map[string]*c14Refs
		ents     []c14Ent
		total    int
	}
	run1 := func(ents []c14Ent, attach func(*absint.Interp)) (*runRes, string) {
		in := absint.New(x.P.InModule)
		attach(in)
		in.Written = map[*absint.Node]bool{}
		recv := in.SymNode(x.kcT, "stale", map[string]int{})
		blob, arr, src, laid := c14EntryBlob(in, ents, 0)
		rr := &runRes{assigned: map[string]bool{}, refs: map[string]*c14Refs{}, ents: laid, total: blob.Hi}
		in.Hook = x.entryHook(arr, src, &rr.obs, nil)
		res, err := in.Call(fromB, absint.Ptr{N: recv}, blob)
		if err != nil {
			return nil, err.Error()
		}
		isNil, known := c13IfaceNil(res)
		if !known {
			return nil, "FromBytes does not return an error value"
		}
		rr.errNil = isNil
		for i, k := range recv.Kids {
			n := x.kcSt.Field(i).Name()
			if skip[n] || !in.WrittenBelow(k) {
				continue
			}
			rr.assigned[n] = true
			rf := newC14Refs(arr, src)
			rf.node(k)
			rr.refs[n] = rf
		}
		return rr, ""
	}
	// one result per path through data-dependent branches
	run := func(ents []c14Ent) ([]*runRes, string) {
		var all []*runRes
		why := c14Paths(64, func(attach func(*absint.Interp)) string {
			rr, why := run1(ents, attach)
			if rr == nil {
				return why
			}
			all = append(all, rr)
			return ""
		})
		if why != "" {
			return nil, why
		}
		return all, ""
	}
	lead, tail := c14Ent{typ: U, n: 258}, c14Ent{typ: U, n: 1}
	bases, why := run([]c14Ent{lead, tail})
	if bases == nil {
		out.why = "entry sequence without known entries: " + why
		return out
	}
	base := &runRes{assigned: map[string]bool{}}
	for _, b := range bases {
		if !b.errNil {
			out.done = true
			out.lanes = c14Bad_("FromBytes refuses a well-formed blob that holds two entries of the unknown type %#x (258 and 1 value bytes): unknown entries are not skipped by their announced length", U)
			return out
		}
		for f := range b.assigned {
			base.assigned[f] = true
		}
		if len(b.obs) > len(base.obs) {
			base.obs = b.obs
		}
	}
	for f := range base.assigned {
		out.always = append(out.always, f)
	}
	sort.Strings(out.always)
	var ks []int64
	for k := range x.family {
		ks = append(ks, k)
	}
	sort.Slice(ks, func(i, j int) bool { return ks[i] < ks[j] })
	var laneBad []string
	nWin := 0
	for _, k := range ks {
		set := map[string]bool{}
		for _, L := range []int{1, 8, 16, 40} {
			rrs, why := run([]c14Ent{lead, {typ: int(k), n: L}, tail})
			if rrs == nil {
				out.why = fmt.Sprintf("%s entry of %d bytes: %s", x.family[k], L, why)
				return out
			}
			for _, rr := range rrs {
				if !rr.errNil {
					continue // this length is refused for this entry type (DeviceId < 16 …)
				}
				out.decided[k] = true
				ent := rr.ents[1]
				for f := range rr.assigned {
					if base.assigned[f] {
						continue
					}
					set[f] = true
					// where the bytes stored in the field come from
					rf := rr.refs[f]
					for _, w := range rf.wins {
						nWin++
						if w != [2]int{ent.vs, ent.ve} {
							laneBad = append(laneBad, fmt.Sprintf("%s entry (header at blob[%d:%d], %d value bytes at blob[%d:%d]): field %s is given blob[%d:%d]", x.family[k], ent.hdr, ent.vs, L, ent.vs, ent.ve, f, w[0], w[1]))
						}
					}
					for _, i := range rf.sorted() {
						nWin++
						if i < ent.vs || i >= ent.ve {
							laneBad = append(laneBad, fmt.Sprintf("%s entry with its value at blob[%d:%d]: field %s is computed from blob[%d]", x.family[k], ent.vs, ent.ve, f, i))
							break
						}
					}
				}
				for _, o := range rr.obs {
					for _, w := range o.wins {
						if w == [2]int{0, rr.total} || w[1] <= 4 {
							continue // the whole blob / the version prefix, as in the baseline
						}
						nWin++
						if w != [2]int{ent.vs, ent.ve} {
							laneBad = append(laneBad, fmt.Sprintf("%s entry with its value at blob[%d:%d]: %s is handed blob[%d:%d]", x.family[k], ent.vs, ent.ve, o.callee, w[0], w[1]))
						}
					}
					for _, i := range o.idx {
						if i >= 4 && (i < ent.vs || i >= ent.ve) {
							laneBad = append(laneBad, fmt.Sprintf("%s entry with its value at blob[%d:%d]: %s is handed a value computed from blob[%d]", x.family[k], ent.vs, ent.ve, o.callee, i))
							break
						}
					}
				}
			}
		}
		var fs []string
		for f := range set {
			fs = append(fs, f)
		}
		sort.Strings(fs)
		out.handled[k] = fs
	}
	out.done = true
	switch {
	case len(laneBad) > 0:
		sort.Strings(laneBad)
		if len(laneBad) > 3 {
			laneBad = append(laneBad[:3], fmt.Sprintf("… (%d more)", len(laneBad)-3))
		}
		out.lanes = c14Bad_("on version | %#x-entry(258) | K-entry(L) | %#x-entry(1): %s", U, U, strings.Join(laneBad, "; "))
	case nWin == 0:
		out.lanes = c14Bad_("on version | %#x-entry(258) | K-entry(L) | %#x-entry(1) no entry-type constant K makes FromBytes read the K entry's value bytes: the entries are not found where writeEntry puts them (length LE16 at 0, type at 2, value from 3)", U, U)
	default:
		out.lanes = c14Ok("on version | %#x-entry(258) | K-entry(L) | %#x-entry(1), K over the %d entry-type constants, L ∈ {1,8,16,40}: every field assigned and every decoder called because of the K entry sees exactly the L value bytes at entry offset 3 (%d windows), the unknown entries are skipped by their little-endian length and assign nothing", U, U, len(ks), nWin)
	}
	return out
}

// semKeyHash interprets (*KeyCredential).ComputeKeyHash on entry sequences
// and compares the byte sequence that reaches a SHA-256 digest (through
// utils.ComputeHash, or written piecewise into a sha256 state — see absint's
// hash model) with the bytes that follow the KeyHash entry.
func (x *c14) semKeyHash(cKH *ssa.Function) c14V {
	U := x.unknownType()
	kh := int(x.hashVal)
	other := -1
	var ks []int64
	for k := range x.family {
		ks = append(ks, k)
	}
	sort.Slice(ks, func(i, j int) bool { return ks[i] < ks[j] })
	for _, k := range ks {
		if int(k) != kh {
			other = int(k)
			break
		}
	}
	if other < 0 {
		other = U
	}
	// What is observed is the byte sequence that reaches a SHA-256 digest
	// (absint's hash model: the concatenation of everything written into a
	// sha256.New() state before Sum, or the argument of sha256.Sum256), so it
	// does not matter whether ComputeKeyHash builds a buffer and hands it to
	// utils.ComputeHash, streams the pieces into a digest itself, or goes
	// through another helper: the helpers of the utils package are entered, not
	// summarised.
	utilsPkg := x.P.Pkg(c14PkgUtils)
	rbIdx := c14FieldIdx(x.kcSt, "RawBytes")
	if rbIdx < 0 {
		return c14Na("KeyCredential.RawBytes does not resolve")
	}
	type seq struct {
		name     string
		ents     []c14Ent
		trailing int
		khAt     int // index of the KeyHash entry, -1: none
	}
	seqs := []seq{
		{"K(258) KeyHash(32) K(5) unknown(257)", []c14Ent{{typ: other, n: 258}, {typ: kh, n: 32}, {typ: other, n: 5}, {typ: U, n: 257}}, 0, 1},
		{"KeyHash(32) K(2) + 2 stray bytes", []c14Ent{{typ: kh, n: 32}, {typ: other, n: 2}}, 2, 0},
		{"unknown(3) KeyHash(32)", []c14Ent{{typ: U, n: 3}, {typ: kh, n: 32}}, 0, 1},
		{"K(4) unknown(7)", []c14Ent{{typ: other, n: 4}, {typ: U, n: 7}}, 0, -1},
	}
	var bad []string
	for _, s := range seqs {
		s := s
		nBad := len(bad)
		// one run per path through data-dependent branches (a reader that is out
		// of step branches on value bytes); the first wrong path settles it
		why := c14Paths(32, func(attach func(*absint.Interp)) string {
			if len(bad) > nBad {
				return ""
			}
			in := absint.New(x.P.InModule)
			attach(in)
			recv := in.SymNode(x.kcT, "stale", map[string]int{})
			blob, arr, src, laid := c14EntryBlob(in, s.ents, s.trailing)
			recv.Kids[rbIdx].Leaf = blob
			var hashed []absint.Slice
			var algs []string
			harr, hsrc := in.SymBytes("digest", 32)
			digest := absint.Slice{Arr: harr, Lo: 0, Hi: 32, Cap: 32}
			var obs []c14Obs
			in.Digest = func(_ *absint.Interp, alg string, content absint.Slice) (absint.Slice, bool) {
				hashed = append(hashed, content)
				algs = append(algs, alg)
				if alg != "sha256" {
					return absint.Slice{}, false
				}
				return digest, true
			}
			summarise := x.entryHook(arr, src, &obs, nil)
			in.Hook = func(in *absint.Interp, cc *ssa.CallCommon, callee *ssa.Function, args []absint.Value) (absint.Value, bool) {
				if utilsPkg != nil && callee.Pkg != nil && callee.Pkg.Pkg == utilsPkg.Types {
					return nil, false
				}
				return summarise(in, cc, callee, args)
			}
			res, err := in.Call(cKH, absint.Ptr{N: recv})
			if err != nil {
				switch {
				case len(in.Unknown) > 0:
					// calls that are not modelled may have clobbered the blob (their
					// arguments are forgotten): what follows is not an observation
					return err.Error() + " (after calls that are not modelled: " + strings.Join(in.Unknown, ", ") + ")"
				case in.Forks() > 0 && strings.Contains(err.Error(), "would panic"):
					bad = append(bad, fmt.Sprintf("entry sequence %s: ComputeKeyHash branches on the content of value bytes and then %s", s.name, err.Error()))
					return ""
				case strings.Contains(err.Error(), "is not determined by the lanes"):
					// every header byte of the sequence is a constant: an index or
					// slice bound that is not, was computed from value bytes
					bad = append(bad, fmt.Sprintf("entry sequence %s: the walk computes an index or slice bound from bytes that are not entry-header bytes — it is out of step with the length(2,LE) | type(1) | value records writeEntry emits (%s)", s.name, err.Error()))
					return ""
				}
				return err.Error()
			}
			// COMPLETENESS: when calls that are not modelled took part in the run
			// (crypto.SHA256.New(), a hash from another package, an interface the
			// run cannot resolve) the digest may have been computed there
			unmodelled := ""
			if len(in.Unknown) > 0 {
				unmodelled = strings.Join(in.Unknown, ", ")
			}
			if len(hashed) == 0 && unmodelled != "" {
				return "no SHA-256 digest was observed, but the run went through calls that are not modelled (" + unmodelled + ")"
			}
			if len(hashed) != 1 {
				bad = append(bad, fmt.Sprintf("entry sequence %s: a digest is computed %d times (utils.ComputeHash / sha256 Sum), expected once", s.name, len(hashed)))
				return ""
			}
			if algs[0] != "sha256" {
				bad = append(bad, fmt.Sprintf("entry sequence %s: the digest computed is %s, MS-ADTS requires SHA-256", s.name, algs[0]))
				return ""
			}
			rs, ok := res.(absint.Slice)
			isDigest := ok && !rs.Nil && rs.Arr != nil && rs.Len() == 32
			for i := 0; isDigest && i < 32; i++ {
				iv, ok := rs.Arr.Kids[rs.Lo+i].Leaf.(absint.Int)
				isDigest = ok && iv.V.Equal(lanes.SrcByte(hsrc, i))
			}
			if !isDigest && unmodelled != "" {
				return "what is returned is not recognisably the digest, but the run went through calls that are not modelled (" + unmodelled + ")"
			}
			if !isDigest {
				bad = append(bad, fmt.Sprintf("entry sequence %s: what ComputeKeyHash returns is not the 32-byte SHA-256 digest that was computed", s.name))
				return ""
			}
			from := blob.Hi
			if s.khAt >= 0 {
				from = laid[s.khAt].ve
			}
			got := hashed[0]
			gl := 0
			if !got.Nil {
				gl = got.Len()
			}
			desc := func() string {
				// describe what was hashed in terms of blob offsets
				rf := newC14Refs(arr, src)
				rf.value(got)
				if len(rf.wins) == 1 {
					return fmt.Sprintf("blob[%d:%d]", rf.wins[0][0], rf.wins[0][1])
				}
				return fmt.Sprintf("%d bytes carrying blob%s", gl, c14Range(rf.sorted()))
			}
			if gl != blob.Hi-from {
				w := "no KeyHash entry"
				if s.khAt >= 0 {
					w = fmt.Sprintf("the KeyHash entry (header at blob[%d:%d], value at blob[%d:%d])", laid[s.khAt].hdr, laid[s.khAt].vs, laid[s.khAt].vs, laid[s.khAt].ve)
				}
				bad = append(bad, fmt.Sprintf("entry sequence %s (%d bytes, %s): %s is hashed, MS-ADTS requires the %d bytes blob[%d:%d] that follow the KeyHash entry", s.name, blob.Hi, w, desc(), blob.Hi-from, from, blob.Hi))
				return ""
			}
			for i := 0; i < gl; i++ {
				iv, ok := got.Arr.Kids[got.Lo+i].Leaf.(absint.Int)
				want, _ := arr.Kids[from+i].Leaf.(absint.Int)
				if !ok || !iv.V.Equal(want.V) {
					bad = append(bad, fmt.Sprintf("entry sequence %s: byte %d of the hashed data is %s, required blob[%d]", s.name, i, iv.V.String(in.Name), from+i))
					break
				}
			}
			return ""
		})
		if why != "" && len(bad) == nBad {
			return c14Na("entry sequence %s: %s", s.name, why)
		}
	}
	if len(bad) > 0 {
		return c14Bad_("%s", strings.Join(bad, "; "))
	}
	return c14Ok("on %d entry sequences (KeyHash first / in the middle / last / absent, entries of 258 and 257 bytes, an unknown entry type, stray bytes after the last entry) exactly the bytes after the KeyHash entry reach one SHA-256 digest (utils.ComputeHash, or writes into a sha256 state: the hashed sequence is the concatenation of the writes) and that digest is returned", len(seqs))
}

// semIntegrity interprets CheckIntegrity with ComputeKeyHash summarised as a
// constant 32-byte digest: KeyHash equal to it → true; each of the 256
// single-bit alterations, a 31-byte prefix and a 33-byte extension → false.
func (x *c14) semIntegrity(fn, cKH *ssa.Function) c14V {
	khIdx := c14FieldIdx(x.kcSt, "KeyHash")
	if khIdx < 0 {
		return c14Na("KeyCredential.KeyHash does not resolve")
	}
	mk := func(n int, flip int) absint.Slice {
		arr := &absint.Node{T: types.NewArray(types.Typ[types.Uint8], int64(n)), Kids: make([]*absint.Node, n)}
		for i := range arr.Kids {
			v := (i*37 + 11) & 0xff
			if flip >= 0 && flip/8 == i {
				v ^= 1 << (flip % 8)
			}
			arr.Kids[i] = &absint.Node{T: types.Typ[types.Uint8], Leaf: c14ConstByte(v)}
		}
		return absint.Slice{Arr: arr, Lo: 0, Hi: n, Cap: n}
	}
	run := func(keyHash absint.Slice) (val, known bool, why string) {
		in := absint.New(x.P.InModule)
		recv := in.SymNode(x.kcT, "stale", map[string]int{})
		recv.Kids[khIdx].Leaf = keyHash
		calls := 0
		in.Hook = func(in *absint.Interp, cc *ssa.CallCommon, callee *ssa.Function, args []absint.Value) (absint.Value, bool) {
			if callee != cKH {
				return nil, false
			}
			if p, ok := args[0].(absint.Ptr); ok && p.N == recv {
				calls++
			}
			return mk(32, -1), true
		}
		res, err := in.Call(fn, absint.Ptr{N: recv})
		if err != nil {
			return false, false, err.Error()
		}
		b, ok := res.(absint.Bool)
		if !ok || !b.Known {
			return false, false, "the result is not determined by the lanes"
		}
		if calls != 1 {
			return false, false, fmt.Sprintf("ComputeKeyHash is called %d times on the receiver", calls)
		}
		return b.Val, true, ""
	}
	v, known, why := run(mk(32, -1))
	if !known {
		return c14Na("KeyHash equal to the digest: %s", why)
	}
	if !v {
		return c14Bad_("CheckIntegrity returns false although KeyHash equals the 32-byte digest ComputeKeyHash returns")
	}
	for bit := 0; bit < 256; bit++ {
		v, known, why := run(mk(32, bit))
		if !known {
			return c14Na("KeyHash with bit %d of byte %d altered: %s", bit%8, bit/8, why)
		}
		if v {
			return c14Bad_("CheckIntegrity returns true although bit %d of byte %d of KeyHash differs from the digest: that byte is not compared", bit%8, bit/8)
		}
	}
	for _, n := range []int{31, 33, 0} {
		v, known, why := run(mk(n, -1))
		if !known {
			// an out-of-range index is how a missing length test shows
			if strings.Contains(why, "would panic") {
				return c14Bad_("with a %d-byte KeyHash (the digest has 32): %s", n, why)
			}
			return c14Na("%d-byte KeyHash: %s", n, why)
		}
		if v {
			return c14Bad_("CheckIntegrity returns true for a %d-byte KeyHash that agrees with the 32-byte digest on its common prefix: the lengths are not compared", n)
		}
	}
	return c14Ok("with ComputeKeyHash summarised as a fixed 32-byte digest: KeyHash equal → true; each of the 256 single-bit alterations → false; 31-, 33- and 0-byte KeyHash → false")
}

// ---------------------------------------------------------------------------
// CustomKeyInformation

const c14CkiMax = 40

type c14EncUse struct {
	field string
	w     int64 // -1 variable
	pos   string
	T     int
	ord   int
}

type c14CkiSem struct {
	done   bool
	why    string
	dec    []c14Use
	enc    []c14EncUse
	minDec int
	bad    []string // inconsistencies found while building the tables (each is a violation)
}

// semCki interprets FromBytes on symbolic blobs of every size 0..40 and
// ToBytes on receivers with RawBytesSize = 0..40 and tabulates, per field,
// from which blob bytes and from which size on it is decoded, and in which
// position, with which width and from which size on it is emitted.
func (x *c14) semCki(from, to *ssa.Function) *c14CkiSem {
	out := &c14CkiSem{}
	nt, _ := c14Deref(from.Params[0].Type()).(*types.Named)
	if nt == nil {
		out.why = "receiver type does not resolve"
		return out
	}
	st := nt.Underlying().(*types.Struct)
	sizeIdx := c14FieldIdx(st, "RawBytesSize")
	skip := map[string]bool{"RawBytes": true, "RawBytesSize": true}
	// ---- decoder ----
	type drow struct {
		refused  bool
		panicked bool // the decoder reads beyond the blob at this size (reported once)
		refs     map[string][]int
	}
	rows := make([]drow, c14CkiMax+1)
	for n := 0; n <= c14CkiMax; n++ {
		nAcc, nRef := 0, 0
		why := c14Paths(256, func(attach func(*absint.Interp)) string {
			in := absint.New(x.P.InModule)
			attach(in)
			in.Written = map[*absint.Node]bool{}
			recv := in.SymNode(nt, "stale", map[string]int{})
			arr, src := in.SymBytes("blob", n)
			args := []absint.Value{absint.Ptr{N: recv}}
			for _, q := range from.Params[1:] {
				switch {
				case isByteSliceType(q.Type()):
					args = append(args, absint.Slice{Arr: arr, Lo: 0, Hi: n, Cap: n})
				default:
					if _, isSt := q.Type().Underlying().(*types.Struct); isSt {
						args = append(args, absint.Agg{N: in.SymNode(q.Type(), q.Name(), map[string]int{})})
					} else {
						args = append(args, absint.OpaqueOf(q.Type(), "parameter "+q.Name()))
					}
				}
			}
			res, err := in.Call(from, args...)
			if err != nil {
				return err.Error()
			}
			isNil, known := c13IfaceNil(res)
			if !known {
				return "FromBytes does not return an error value"
			}
			if !isNil {
				nRef++
				return ""
			}
			nAcc++
			refs := map[string][]int{}
			for i, k := range recv.Kids {
				f := st.Field(i).Name()
				if skip[f] || !in.WrittenBelow(k) {
					continue
				}
				rf := newC14Refs(arr, src)
				rf.node(k)
				// windows of the input stored in a field (aliasing it) count as reads of that range
				for _, w := range rf.wins {
					for j := w[0]; j < w[1]; j++ {
						rf.idx[j] = true
					}
				}
				if ix := rf.sorted(); len(ix) > 0 {
					refs[f] = ix
				}
			}
			if rows[n].refs == nil {
				rows[n].refs = refs
			} else if fmt.Sprint(rows[n].refs) != fmt.Sprint(refs) {
				out.bad = append(out.bad, fmt.Sprintf("which bytes of a %d-byte blob feed which field depends on the blob's content: %v on one path, %v on another", n, rows[n].refs, refs))
			}
			return ""
		})
		if why != "" && strings.Contains(why, "would panic") {
			// the decoder reads beyond a blob it has accepted so far: a threshold is too low
			out.bad = append(out.bad, fmt.Sprintf("FromBytes on a %d-byte blob: %s", n, why))
			rows[n].refs, rows[n].panicked, nAcc = map[string][]int{}, true, 1
			why = ""
		}
		if why != "" {
			out.why = fmt.Sprintf("FromBytes on a %d-byte blob: %s", n, why)
			return out
		}
		if nRef > 0 && nAcc > 0 {
			out.bad = append(out.bad, fmt.Sprintf("whether a %d-byte blob is accepted depends on a branch that is not an error exit", n))
		}
		rows[n].refused = nAcc == 0
	}
	out.minDec = -1
	for n := 0; n <= c14CkiMax; n++ {
		if !rows[n].refused {
			if out.minDec < 0 {
				out.minDec = n
			}
		} else if out.minDec >= 0 {
			out.bad = append(out.bad, fmt.Sprintf("FromBytes accepts a %d-byte blob but refuses a %d-byte one", out.minDec, n))
		}
	}
	if out.minDec < 0 {
		out.done = true
		out.bad = append(out.bad, fmt.Sprintf("FromBytes refuses every blob of 0..%d bytes", c14CkiMax))
		return out
	}
	posF, posT := x.P.Rel(from.Pos()), x.P.Rel(to.Pos())
	for i := 0; i < st.NumFields(); i++ {
		f := st.Field(i).Name()
		T := -1
		for n := out.minDec; n <= c14CkiMax; n++ {
			if len(rows[n].refs[f]) > 0 && !rows[n].panicked {
				T = n
				break
			}
		}
		if T < 0 {
			continue
		}
		first, last := rows[T].refs[f], rows[c14CkiMax].refs[f]
		off := int64(first[0])
		w := int64(len(first))
		if first[len(first)-1]-first[0]+1 != len(first) {
			out.bad = append(out.bad, fmt.Sprintf("%s is decoded from the non-contiguous bytes blob%v", f, first))
		}
		rest := false
		if len(last) > 0 && fmt.Sprint(last) != fmt.Sprint(first) && last[0] == first[0] && last[len(last)-1] == c14CkiMax-1 {
			rest = true
			w = -1
		}
		for n := T; n <= c14CkiMax; n++ {
			if rows[n].panicked {
				continue
			}
			got := rows[n].refs[f]
			want := first
			if rest {
				want = nil
				for j := first[0]; j < n; j++ {
					want = append(want, j)
				}
			}
			if fmt.Sprint(got) != fmt.Sprint(want) {
				out.bad = append(out.bad, fmt.Sprintf("%s is decoded from blob%s when the blob has %d bytes but from blob%s when it has %d", f, c14Range(first), T, c14Range(got), n))
				break
			}
		}
		out.dec = append(out.dec, c14Use{field: f, off: off, w: w, T: T, posS: posF})
	}
	sort.SliceStable(out.dec, func(i, j int) bool { return out.dec[i].off < out.dec[j].off })

	// ---- encoder ----
	var bools []int
	for i := 0; i < st.NumFields(); i++ {
		if b, ok := st.Field(i).Type().Underlying().(*types.Basic); ok && b.Info()&types.IsBoolean != 0 {
			bools = append(bools, i)
		}
	}
	type cell struct {
		field string
		k     int64
		isK   bool
	}
	encRun1 := func(n int, flip int, attach func(*absint.Interp)) ([]cell, string) {
		in := absint.New(x.P.InModule)
		attach(in)
		srcs := map[string]int{}
		recv := in.SymNode(nt, "", srcs)
		if sizeIdx >= 0 {
			w, _, _ := lanes.IntWidth(st.Field(sizeIdx).Type())
			recv.Kids[sizeIdx].Leaf = absint.Int{V: lanes.ConstVec(big.NewInt(int64(n)), w)}
		}
		top := map[int]string{} // source id → top-level field
		for path, id := range srcs {
			top[id] = strings.SplitN(path, ".", 2)[0]
		}
		fixed := rowsFixed(out.dec)
		for i := 0; i < st.NumFields(); i++ {
			f := st.Field(i)
			if skip[f.Name()] || !isByteSliceType(f.Type()) {
				continue
			}
			ln := 3
			for _, d := range out.dec {
				if d.field == f.Name() && fixed[d.field] {
					ln = int(d.w) // the width FromBytes gives the field
				}
			}
			a, id := in.SymBytes(f.Name(), ln)
			top[id] = f.Name()
			recv.Kids[i].Leaf = absint.Slice{Arr: a, Lo: 0, Hi: ln, Cap: ln}
		}
		for _, bi := range bools {
			recv.Kids[bi].Leaf = absint.Bool{Known: true, Val: bi == flip}
		}
		res, err := in.Call(to, absint.Ptr{N: recv})
		if err != nil {
			return nil, err.Error()
		}
		bs, ok := res.(absint.Slice)
		if !ok {
			return nil, "ToBytes does not return a byte slice of known content"
		}
		cells := []cell{}
		if bs.Nil {
			return cells, ""
		}
		for i := bs.Lo; i < bs.Hi; i++ {
			iv, ok := bs.Arr.Kids[i].Leaf.(absint.Int)
			if !ok {
				cells = append(cells, cell{field: "?"})
				continue
			}
			if k, isK := iv.V.ConstVal(); isK {
				cells = append(cells, cell{k: k.Int64(), isK: true})
				continue
			}
			fs := map[string]bool{}
			for _, b := range iv.V {
				if b.K == lanes.Src {
					fs[top[b.S]] = true
				} else if b.K == lanes.Top {
					fs["?"] = true
				}
			}
			var names []string
			for f := range fs {
				names = append(names, f)
			}
			sort.Strings(names)
			cells = append(cells, cell{field: strings.Join(names, "+")})
		}
		return cells, ""
	}
	encRun := func(n int, flip int) ([]cell, string) {
		var common []cell
		why := c14Paths(64, func(attach func(*absint.Interp)) string {
			cells, why := encRun1(n, flip, attach)
			if cells == nil {
				return why
			}
			if common == nil {
				common = cells
			} else if fmt.Sprint(common) != fmt.Sprint(cells) {
				out.bad = append(out.bad, fmt.Sprintf("what ToBytes emits for RawBytesSize = %d depends on field values through a branch", n))
			}
			return ""
		})
		if why != "" {
			return nil, why
		}
		return common, ""
	}
	type erow []c14EncUse
	erows := make([]erow, c14CkiMax+1)
	for n := 0; n <= c14CkiMax; n++ {
		base, why := encRun(n, -1)
		if base == nil {
			out.why = fmt.Sprintf("ToBytes with RawBytesSize = %d: %s", n, why)
			return out
		}
		for _, bi := range bools {
			alt, why := encRun(n, bi)
			if alt == nil {
				out.why = fmt.Sprintf("ToBytes with RawBytesSize = %d and %s = true: %s", n, st.Field(bi).Name(), why)
				return out
			}
			if len(alt) != len(base) {
				out.bad = append(out.bad, fmt.Sprintf("ToBytes with RawBytesSize = %d emits %d bytes when %s is false and %d when it is true", n, len(base), st.Field(bi).Name(), len(alt)))
				continue
			}
			for i := range base {
				if base[i].isK && alt[i].isK && base[i].k != alt[i].k {
					base[i] = cell{field: st.Field(bi).Name()}
				}
			}
		}
		var row erow
		for i := 0; i < len(base); {
			j := i
			for j+1 < len(base) && base[j+1].field == base[i].field && !base[i].isK {
				j++
			}
			f := base[i].field
			if base[i].isK {
				f = fmt.Sprintf("(constant %#x)", base[i].k)
			}
			row = append(row, c14EncUse{field: f, w: int64(j - i + 1), pos: posT, ord: len(row)})
			i = j + 1
		}
		erows[n] = row
	}
	// thresholds and order from the widest run
	seenE := map[string]bool{}
	for _, e := range erows[c14CkiMax] {
		if seenE[e.field] {
			out.bad = append(out.bad, fmt.Sprintf("ToBytes emits %s twice", e.field))
			continue
		}
		seenE[e.field] = true
	}
	for n := 0; n <= c14CkiMax; n++ {
		for _, e := range erows[n] {
			if !seenE[e.field] {
				seenE[e.field] = true
				out.bad = append(out.bad, fmt.Sprintf("ToBytes emits %s when RawBytesSize = %d but not when it is %d", e.field, n, c14CkiMax))
			}
		}
	}
	for _, e := range erows[c14CkiMax] {
		T := -1
		for n := 0; n <= c14CkiMax && T < 0; n++ {
			for _, g := range erows[n] {
				if g.field == e.field {
					T = n
				}
			}
		}
		for n := T; n <= c14CkiMax; n++ {
			found := false
			for _, g := range erows[n] {
				if g.field == e.field {
					found = true
					if g.w != e.w {
						out.bad = append(out.bad, fmt.Sprintf("ToBytes emits %s as %d bytes when RawBytesSize = %d and as %d bytes when it is %d", e.field, g.w, n, e.w, c14CkiMax))
					}
				}
			}
			if !found {
				out.bad = append(out.bad, fmt.Sprintf("ToBytes emits %s when RawBytesSize = %d but not when it is %d", e.field, T, n))
				break
			}
		}
		e.T = T
		if i := c14FieldIdx(st, e.field); i >= 0 && isByteSliceType(st.Field(i).Type()) {
			e.w = -1
		}
		out.enc = append(out.enc, e)
	}
	out.done = true
	return out
}

func rowsFixed(dec []c14Use) map[string]bool {
	m := map[string]bool{}
	for _, d := range dec {
		if d.w >= 0 {
			m[d.field] = true
		}
	}
	return m
}

func isByteSliceType(t types.Type) bool {
	s, ok := t.Underlying().(*types.Slice)
	if !ok {
		return false
	}
	b, ok := s.Elem().Underlying().(*types.Basic)
	return ok && b.Kind() == types.Uint8
}

// ---------------------------------------------------------------------------
// BCRYPT_RSAKEY_BLOB encoder

var c14RsaSlots = []string{"magic", "KeySize", "cbPublicExp", "cbModulus", "cbPrime1", "cbPrime2", "Exponent", "Modulus", "Prime1", "Prime2"}

// semRsaEncoder interprets RSAKeyMaterial.ToBytes on key materials of several
// concrete shapes and compares the blob, slot by slot, with the
// BCRYPT_RSAKEY_BLOB layout.
func (x *c14) semRsaEncoder(to *ssa.Function) map[string]c14V {
	out := map[string]c14V{}
	all := func(v c14V) map[string]c14V {
		for _, s := range c14RsaSlots {
			out[s] = v
		}
		return out
	}
	nt, _ := c14Deref(to.Params[0].Type()).(*types.Named)
	if nt == nil {
		return all(c14Na("receiver type does not resolve"))
	}
	st := nt.Underlying().(*types.Struct)
	shapes := [][3]int{{5, 3, 2}, {7, 0, 0}, {5, 3, -1}, {5, -1, 2}, {300, 130, 129}}
	bad := map[string][]string{}
	for _, shape := range shapes {
		in := absint.New(x.P.InModule)
		srcs := map[string]int{}
		recv := in.SymNode(nt, "", srcs)
		ids := map[string]int{}
		lens := map[string]int{}
		for i, f := range []string{"Modulus", "Prime1", "Prime2"} {
			fi := c14FieldIdx(st, f)
			if fi < 0 {
				return all(c14Na("field %s does not resolve", f))
			}
			switch {
			case shape[i] == 0:
				recv.Kids[fi].Leaf = absint.Slice{Nil: true}
			case shape[i] < 0: // empty, not nil
				arr := &absint.Node{T: types.NewArray(types.Typ[types.Uint8], 0), Kids: []*absint.Node{}}
				recv.Kids[fi].Leaf = absint.Slice{Arr: arr}
			default:
				arr, id := in.SymBytes(f, shape[i])
				ids[f] = id
				lens[f] = shape[i]
				recv.Kids[fi].Leaf = absint.Slice{Arr: arr, Lo: 0, Hi: shape[i], Cap: shape[i]}
			}
		}
		ksI, exI := c14FieldIdx(st, "KeySize"), c14FieldIdx(st, "Exponent")
		if ksI < 0 || exI < 0 {
			return all(c14Na("KeySize/Exponent do not resolve"))
		}
		ks, ok1 := recv.Kids[ksI].Leaf.(absint.Int)
		ex, ok2 := recv.Kids[exI].Leaf.(absint.Int)
		if !ok1 || !ok2 || len(ks.V) != 32 || len(ex.V) != 32 {
			return all(c14Na("KeySize/Exponent are not 32-bit integers"))
		}
		res, err := in.Call(to, absint.Ptr{N: recv})
		if err != nil {
			return all(c14Na("ToBytes for len(Modulus,Prime1,Prime2) = %v: %s", shape, err.Error()))
		}
		bs, ok := res.(absint.Slice)
		if !ok || bs.Nil {
			return all(c14Na("ToBytes does not return a byte slice of known content"))
		}
		n := bs.Len()
		cellAt := func(i int) (lanes.Vec, bool) {
			if i < 0 || i >= n {
				return nil, false
			}
			iv, ok := bs.Arr.Kids[bs.Lo+i].Leaf.(absint.Int)
			if !ok || len(iv.V) != 8 {
				return nil, false
			}
			return iv.V, true
		}
		sh := fmt.Sprintf("len(Modulus,Prime1,Prime2) = (%d,%d,%d)", lens["Modulus"], lens["Prime1"], lens["Prime2"])
		fail := func(slot, f string, a ...any) {
			bad[slot] = append(bad[slot], sh+": "+fmt.Sprintf(f, a...))
		}
		constWord := func(slot string, off int, want int) {
			for j := 0; j < 4; j++ {
				v, ok := cellAt(off + j)
				k, isK := lanes.Vec(nil), false
				_ = k
				var kv int64
				if ok {
					if c, isC := v.ConstVal(); isC {
						kv, isK = c.Int64(), true
					}
				}
				if !ok || !isK || kv != int64((want>>(8*j))&0xff) {
					got := "nothing (the blob has " + fmt.Sprint(n) + " bytes)"
					if ok {
						got = v.String(in.Name)
					}
					fail(slot, "blob[%d] is %s, required byte %d of the little-endian 32-bit value %d", off+j, got, j, want)
					return
				}
			}
		}
		// magic
		for j, c := range []byte("RSA1") {
			v, ok := cellAt(j)
			if k, isK := v.ConstVal(); !ok || !isK || k.Int64() != int64(c) {
				fail("magic", "blob[%d] is not %q", j, string(c))
				break
			}
		}
		for j := 0; j < 4; j++ {
			v, ok := cellAt(4 + j)
			if !ok || !v.Equal(ks.V[8*j:8*j+8]) {
				fail("KeySize", "blob[%d] is not byte %d (little-endian) of KeySize", 4+j, j)
				break
			}
		}
		lm, l1, l2 := lens["Modulus"], lens["Prime1"], lens["Prime2"]
		expW := n - 24 - lm - l1 - l2
		if expW < 1 || expW > 8 {
			for _, s := range []string{"cbPublicExp", "Exponent", "Modulus", "Prime1", "Prime2"} {
				fail(s, "the blob has %d bytes: 24 header bytes and the %d payload bytes leave %d for the exponent", n, lm+l1+l2, expW)
			}
			constWord("cbModulus", 12, lm)
			constWord("cbPrime1", 16, l1)
			constWord("cbPrime2", 20, l2)
			continue
		}
		constWord("cbPublicExp", 8, expW)
		constWord("cbModulus", 12, lm)
		constWord("cbPrime1", 16, l1)
		constWord("cbPrime2", 20, l2)
		for j := 0; j < expW; j++ {
			sig := expW - 1 - j // big-endian
			v, ok := cellAt(24 + j)
			var want lanes.Vec
			if sig < 4 {
				want = ex.V[8*sig : 8*sig+8]
			} else {
				want = lanes.ZeroVec(8)
			}
			if !ok || !v.Equal(want) {
				fail("Exponent", "blob[%d] is %s, required byte %d (big-endian over %d bytes) of Exponent", 24+j, v.String(in.Name), j, expW)
				break
			}
		}
		off := 24 + expW
		for _, f := range []string{"Modulus", "Prime1", "Prime2"} {
			for k := 0; k < lens[f]; k++ {
				v, ok := cellAt(off + k)
				if !ok || !v.Equal(lanes.SrcByte(ids[f], k)) {
					fail(f, "blob[%d] is %s, required %s[%d] (the header announces %d bytes of %s from offset %d)", off+k, v.String(in.Name), f, k, lens[f], f, off)
					break
				}
			}
			off += lens[f]
		}
	}
	for _, s := range c14RsaSlots {
		if len(bad[s]) > 0 {
			m := bad[s]
			if len(m) > 2 {
				m = append(m[:2], fmt.Sprintf("… (%d more shapes)", len(m)-2))
			}
			out[s] = c14Bad_("%s", strings.Join(m, "; "))
		} else {
			out[s] = c14Ok("the slot holds the BCRYPT_RSAKEY_BLOB value for len(Modulus,Prime1,Prime2) ∈ {(5,3,2), (7,nil,nil), (5,3,empty), (5,empty,2), (300,130,129)}")
		}
	}
	return out
}

// ---------------------------------------------------------------------------
// DNWithBinary

func (x *c14) dnSem(parse, toS *ssa.Function) (v c14V) {
	defer func() {
		if e := recover(); e != nil {
			v = c14Na("internal error in the lane interpretation: %v", e)
		}
	}()
	return x.semDN(parse, toS)
}

// semDN interprets ToString on {DistinguishedName: a literal, BinaryData: n
// symbolic bytes}, compares the text with "B:<2n>:<2n hex digits>:<dn>" digit
// by digit, hands the text to Parse and compares what comes back. The
// distinguished names contain the separator, surrounding white space, mixed
// case, text that looks like another DN-with-binary prefix, and nothing.
func (x *c14) semDN(parse, toS *ssa.Function) c14V {
	nt, _ := c14Deref(parse.Params[0].Type()).(*types.Named)
	if nt == nil || len(parse.Params) != 2 {
		return c14Na("(*DNWithBinary).Parse(text) does not resolve")
	}
	st := nt.Underlying().(*types.Struct)
	dnI, binI := c14FieldIdx(st, "DistinguishedName"), c14FieldIdx(st, "BinaryData")
	if dnI < 0 || binI < 0 {
		return c14Na("DNWithBinary.DistinguishedName/BinaryData do not resolve")
	}
	dns := []string{
		"CN=alice,DC=corp,DC=local",
		"CN=host:8080,OU=a:b,DC=x",
		" CN=Padded ,DC=x \n",
		"cn=MiXeD,dc=CaSe",
		"",
		"B:4:beef:CN=nested",
		":",
	}
	sizes := []int{0, 1, 5, 130}
	var bad []string
	for di, dn := range dns {
		n := sizes[di%len(sizes)]
		for _, n := range []int{n, 5} {
			in := absint.New(x.P.InModule)
			recv := in.SymNode(nt, "", map[string]int{})
			recv.Kids[dnI].Leaf = absint.LitStr(dn)
			var id int
			if n == 0 {
				recv.Kids[binI].Leaf = absint.Slice{Nil: true}
			} else {
				arr, i := in.SymBytes("BinaryData", n)
				id = i
				recv.Kids[binI].Leaf = absint.Slice{Arr: arr, Lo: 0, Hi: n, Cap: n}
			}
			tv, err := in.Call(toS, absint.Ptr{N: recv})
			if err != nil {
				return c14Na("ToString for a %d-byte BinaryData and the name %q: %s", n, dn, err.Error())
			}
			text, ok := tv.(*absint.Str)
			if !ok || text.Opaque {
				why := "not a string"
				if ok {
					why = text.Why
				}
				return c14Na("ToString for a %d-byte BinaryData and the name %q: the text is not determined (%s)", n, dn, why)
			}
			// the prescribed form
			want := fmt.Sprintf("B:%d:%s:%s", 2*n, strings.Repeat("h", 2*n), dn)
			shapeOK := text.Shape() == want
			if shapeOK {
				off := len(fmt.Sprintf("B:%d:", 2*n))
				for k := 0; k < n && shapeOK; k++ {
					b := lanes.SrcByte(id, k)
					hi, lo := text.Chars[off+2*k], text.Chars[off+2*k+1]
					if !hi.Hex.Equal(b[4:8]) || !lo.Hex.Equal(b[0:4]) {
						shapeOK = false
						bad = append(bad, fmt.Sprintf("ToString: hex digits %d,%d do not print byte %d of BinaryData high nibble first", 2*k, 2*k+1, k))
					}
				}
			} else {
				bad = append(bad, fmt.Sprintf("ToString prints %q for a %d-byte BinaryData and the name %q, the DN-with-binary form is %q (h = one hex digit)", text.Shape(), n, dn, want))
			}
			// and back
			back := in.SymNode(nt, "stale", map[string]int{})
			var arg absint.Value = text
			if isByteSliceType(parse.Params[1].Type()) {
				arg = absint.TextBytes(text)
			}
			res, err := in.Call(parse, absint.Ptr{N: back}, arg)
			if err != nil {
				return c14Na("Parse of %q: %s", text.Shape(), err.Error())
			}
			if isNil, known := c13IfaceNil(res); !known || !isNil {
				bad = append(bad, fmt.Sprintf("Parse refuses %q, the string form of the name %q with %d bytes of data", text.Shape(), dn, n))
				continue
			}
			got, _ := back.Kids[dnI].Leaf.(*absint.Str)
			if got == nil || got.Opaque {
				bad = append(bad, fmt.Sprintf("Parse of %q: the DistinguishedName stored is not determined", text.Shape()))
			} else if l, isLit := got.Literal(); !isLit || l != dn {
				bad = append(bad, fmt.Sprintf("Parse of %q stores the name %q, ToString was given %q", text.Shape(), got.Shape(), dn))
			}
			bs, _ := back.Kids[binI].Leaf.(absint.Slice)
			gl := 0
			if !bs.Nil && bs.Arr != nil {
				gl = bs.Len()
			}
			if gl != n {
				bad = append(bad, fmt.Sprintf("Parse of %q stores %d bytes of BinaryData, ToString was given %d", text.Shape(), gl, n))
				continue
			}
			for k := 0; k < n; k++ {
				iv, _ := bs.Arr.Kids[bs.Lo+k].Leaf.(absint.Int)
				if !iv.V.Equal(lanes.SrcByte(id, k)) {
					bad = append(bad, fmt.Sprintf("Parse of the string form: BinaryData[%d] comes back as %s", k, iv.V.String(in.Name)))
					break
				}
			}
		}
	}
	if len(bad) > 0 {
		sort.Strings(bad)
		var uniq []string
		for i, b := range bad {
			if i == 0 || b != bad[i-1] {
				uniq = append(uniq, b)
			}
		}
		if len(uniq) > 3 {
			uniq = append(uniq[:3], fmt.Sprintf("… (%d more)", len(uniq)-3))
		}
		return c14Bad_("%s", strings.Join(uniq, "; "))
	}
	return c14Ok("for %d distinguished names (with the separator inside, surrounding white space, mixed case, a nested \"B:4:beef:\" prefix, empty) and 0/1/5/130 data bytes: ToString prints exactly B:<2n>:<2n hex digits, high nibble first>:<name>, and Parse of that text returns the same name, character for character, and the same bytes, bit for bit", len(dns))
}

// ---------------------------------------------------------------------------
// (*KeyCredential).ToBytes

type c14WriteSem struct {
	done      bool
	why       string
	written   map[int64][]string // entry type → KeyCredential fields its value bytes come from
	wcount    map[int64]int
	structure c14V // version(4, LE) followed by length(2, LE) | type(1) | value records only
}

// symHexStr is a string of n symbolic hexadecimal digits (two per byte of a
// fresh source): text whose length is known and whose origin stays visible
// when it is converted to bytes.
func symHexStr(in *absint.Interp, name string, n int) (*absint.Str, int) {
	id := in.NewSrc(name)
	out := &absint.Str{}
	for i := 0; i < n; i++ {
		b := lanes.SrcByte(id, i/2)
		if i%2 == 0 {
			out.Chars = append(out.Chars, absint.Char{Hex: b[4:8]})
		} else {
			out.Chars = append(out.Chars, absint.Char{Hex: b[0:4]})
		}
	}
	return out, id
}

// semToBytes interprets (*KeyCredential).ToBytes on a credential whose scalar
// fields are symbolic and whose value encoders (identifier, RSA blob, GUID,
// custom key information, timestamps) are summarised as returning fresh
// symbolic bytes of known, pairwise different lengths. The blob is then read
// by the MS-ADTS layout — version(4) then length(2, LE) | type(1) | value —
// which must consume it exactly; each record's value bytes are traced back to
// the KeyCredential fields they were computed from.
func (x *c14) semToBytes(toB *ssa.Function) *c14WriteSem {
	out := &c14WriteSem{written: map[int64][]string{}, wcount: map[int64]int{}}
	verI := c14FieldIdx(x.kcSt, "Version")
	if verI < 0 {
		out.why = "KeyCredential.Version does not resolve"
		return out
	}
	type cfg struct {
		ident, legacy int // digit counts
		keyHash       int
	}
	var bad []string
	nRec := 0
	for _, cf := range []cfg{{8, 6, 32}, {0, 0, 0}} {
		in := absint.New(x.P.InModule)
		srcs := map[string]int{}
		recv := in.SymNode(x.kcT, "", srcs)
		srcTop := map[int]string{}
		for path, id := range srcs {
			srcTop[id] = strings.SplitN(path, ".", 2)[0]
		}
		strTop := map[*absint.Str]string{}
		setStr := func(field string, n int) {
			i := c14FieldIdx(x.kcSt, field)
			if i < 0 {
				return
			}
			if _, isStr := x.kcSt.Field(i).Type().Underlying().(*types.Basic); !isStr {
				return
			}
			s, id := symHexStr(in, field, n)
			recv.Kids[i].Leaf = s
			srcTop[id] = field
			strTop[s] = field
		}
		setStr("Identifier", cf.ident)
		setStr("LegacyUsage", cf.legacy)
		if i := c14FieldIdx(x.kcSt, "KeyHash"); i >= 0 && isByteSliceType(x.kcSt.Field(i).Type()) {
			if cf.keyHash > 0 {
				arr, id := in.SymBytes("KeyHash", cf.keyHash)
				srcTop[id] = "KeyHash"
				recv.Kids[i].Leaf = absint.Slice{Arr: arr, Lo: 0, Hi: cf.keyHash, Cap: cf.keyHash}
			}
		}
		// which top-level field a memory node belongs to
		nodeTop := map[*absint.Node]string{}
		var tag func(n *absint.Node, f string, d int)
		tag = func(n *absint.Node, f string, d int) {
			if n == nil || d > 8 || nodeTop[n] != "" {
				return
			}
			nodeTop[n] = f
			for _, k := range n.Kids {
				tag(k, f, d+1)
			}
		}
		for i, k := range recv.Kids {
			tag(k, x.kcSt.Field(i).Name(), 0)
		}
		fieldsOf := func(v absint.Value, into map[string]bool) {
			var walkV func(v absint.Value, d int)
			var walkN func(n *absint.Node, d int)
			vec := func(l lanes.Vec) {
				for _, b := range l {
					if b.K == lanes.Src {
						if f, ok := srcTop[b.S]; ok {
							into[f] = true
						}
					}
				}
			}
			walkN = func(n *absint.Node, d int) {
				if n == nil || d > 8 {
					return
				}
				if f := nodeTop[n]; f != "" {
					into[f] = true
				}
				for _, k := range n.Kids {
					walkN(k, d+1)
				}
				if n.Leaf != nil {
					walkV(n.Leaf, d+1)
				}
			}
			walkV = func(v absint.Value, d int) {
				if d > 8 {
					return
				}
				switch y := v.(type) {
				case absint.Int:
					vec(y.V)
				case absint.Char:
					vec(y.Hex)
				case *absint.Str:
					if y == nil {
						return
					}
					if f, ok := strTop[y]; ok {
						into[f] = true
					}
					for _, c := range y.Chars {
						vec(c.Hex)
					}
				case absint.Ptr:
					walkN(y.N, d+1)
				case absint.Agg:
					walkN(y.N, d+1)
				case absint.Slice:
					if !y.Nil && y.Arr != nil {
						for i := y.Lo; i < y.Hi && i < len(y.Arr.Kids); i++ {
							walkN(y.Arr.Kids[i], d+1)
						}
					}
				case absint.Iface:
					if y.V != nil {
						walkV(y.V, d+1)
					}
				}
			}
			walkV(v, 0)
		}
		nEnc := 0
		var obs []c14Obs
		in.Hook = x.entryHook(nil, -1, &obs, func(callee *ssa.Function, args []absint.Value) (absint.Value, bool) {
			if !x.summarised(callee) {
				return nil, false
			}
			res := callee.Signature.Results()
			if res.Len() == 0 || !isByteSliceType(res.At(0).Type()) {
				return nil, false
			}
			fs := map[string]bool{}
			for _, a := range args {
				fieldsOf(a, fs)
			}
			nEnc++
			n := 4 + nEnc
			arr, id := in.SymBytes(fmt.Sprintf("%s#%d", callee.Name(), nEnc), n)
			// one pseudo field list per encoder result
			var names []string
			for f := range fs {
				names = append(names, f)
			}
			sort.Strings(names)
			srcTop[id] = strings.Join(names, "\x00")
			v := absint.Slice{Arr: arr, Lo: 0, Hi: n, Cap: n}
			switch res.Len() {
			case 1:
				return v, true
			case 2:
				return absint.Tuple{v, absint.Iface{}}, true
			}
			return nil, false
		})
		res, err := in.Call(toB, absint.Ptr{N: recv})
		if err != nil {
			out.why = err.Error()
			return out
		}
		var blob absint.Slice
		switch y := res.(type) {
		case absint.Slice:
			blob = y
		case absint.Tuple:
			if len(y) == 2 {
				blob, _ = y[0].(absint.Slice)
				if isNil, known := c13IfaceNil(y[1]); !known || !isNil {
					out.why = "ToBytes returns an error for a well-formed credential"
					return out
				}
			}
		}
		if blob.Arr == nil && !blob.Nil {
			out.why = "ToBytes does not return a byte slice of known content"
			return out
		}
		n := 0
		if !blob.Nil {
			n = blob.Len()
		}
		cell := func(i int) absint.Value { return blob.Arr.Kids[blob.Lo+i].Leaf }
		constAt := func(i int) (int, bool) {
			k, ok := c14ConstVal(cell(i))
			return int(k), ok
		}
		// version
		vv, _ := recv.Kids[verI].Kids[c14FieldIdx(x.kcSt.Field(verI).Type().Underlying().(*types.Struct), "Value")].Leaf.(absint.Int)
		if n < 4 || len(vv.V) != 32 {
			bad = append(bad, fmt.Sprintf("the blob has %d bytes: no 4-byte version", n))
			continue
		}
		for j := 0; j < 4; j++ {
			iv, ok := cell(j).(absint.Int)
			if !ok || !iv.V.Equal(vv.V[8*j:8*j+8]) {
				bad = append(bad, fmt.Sprintf("blob[%d] is not byte %d (little-endian) of Version.Value", j, j))
				break
			}
		}
		pos := 4
		for pos < n {
			if pos+3 > n {
				bad = append(bad, fmt.Sprintf("%d stray bytes after the last record", n-pos))
				break
			}
			l0, ok0 := constAt(pos)
			l1, ok1 := constAt(pos + 1)
			k, ok2 := constAt(pos + 2)
			if !ok0 || !ok1 || !ok2 {
				bad = append(bad, fmt.Sprintf("the record at blob[%d] does not start with a length(2) | type(1) header made of known bytes: the blob is not a sequence of KEYCREDENTIALLINK_ENTRY records", pos))
				break
			}
			L := l0 | l1<<8
			if pos+3+L > n {
				bad = append(bad, fmt.Sprintf("the record at blob[%d] (type %#x) announces %d value bytes (little-endian), %d follow: length and value disagree", pos, k, L, n-pos-3))
				break
			}
			nRec++
			out.wcount[int64(k)]++
			fs := map[string]bool{}
			for i := pos + 3; i < pos+3+L; i++ {
				fieldsOf(cell(i), fs)
			}
			for f := range fs {
				for _, g := range strings.Split(f, "\x00") {
					if g == "" {
						continue
					}
					dup := false
					for _, h := range out.written[int64(k)] {
						dup = dup || h == g
					}
					if !dup {
						out.written[int64(k)] = append(out.written[int64(k)], g)
					}
				}
			}
			if _, ok := out.written[int64(k)]; !ok {
				out.written[int64(k)] = nil
			}
			pos += 3 + L
		}
	}
	out.done = true
	for k := range out.written {
		sort.Strings(out.written[k])
	}
	if len(bad) > 0 {
		out.structure = c14Bad_("%s", strings.Join(bad, "; "))
	} else {
		out.structure = c14Ok("for a credential with every optional value present and one with none, the blob is Version.Value (4 bytes LE) followed by %d records length(2, LE) | type(1) | value that consume it exactly", nRec)
	}
	return out
}
