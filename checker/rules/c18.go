package rules

// C18 — name-service servers/clients isolate concurrent requests and stop cleanly.
//
//	R1 NO-SHARED-BUFFER   (this file; go/ssa + alias summaries of internal/effects)
//	R2 MASK-SAT + sibling dispatch (c18_mask.go; typed AST)
//	R3 ID ECHO            (c18_flow.go; def-use provenance on SSA)
//	R4 LIFECYCLE          (c18_life.go; loop/stop structure on SSA)
//	R5 PER-REQUEST STATE  (this file; store-root summaries)

import (
	"fmt"
	"go/types"
	"sort"
	"strings"

	"golang.org/x/tools/go/ssa"

	"manticheck/internal/load"
	"manticheck/internal/report"
	effects "manticheck/internal/srvfx"
)

func init() { register(&Check{ID: "C18", NeedSSA: true, Run: runC18}) }

const (
	c18Nbtns = "network/netbios/nbtns"
	c18Llmnr = "network/llmnr"
)

type c18 struct {
	c   *Ctx
	p   *load.Program
	r   *report.Run
	pg  *effects.Prog
	al  *effects.Alias
	fns []*ssa.Function // source functions of the two anchored packages (incl. closures)
}

func runC18(c *Ctx) {
	k := &c18{c: c, p: c.P, r: c.R}
	r := c.R
	r.Explanation = "C18 decides structural necessary conditions of request isolation and clean stop in network/llmnr and network/netbios/nbtns, from typed AST and go/ssa only. " +
		"R1 NO-SHARED-BUFFER: for every Read-style call inside a loop whose destination buffer is allocated outside that loop, no value that may alias the buffer " +
		"(slices of it, or results/stored state of module callees whose retains(f,i) summary says they keep their argument without copy/append-to-fresh/string()) is passed to a go statement, sent on a channel, " +
		"stored in non-local memory or handed to an unknown callee. " +
		"R2 MASK-SAT + sibling dispatch: every `Header.Flags & M` classification against Op* constants — a switch, an ==/!= comparison, a switch on the shifted opcode number `(Flags&M)>>k` against `Op*>>k`, an index `T[(Flags&M)>>k]` / `T[Flags&M]` into a read-only table (array, slice or map composite literal of functions, never reassigned) whose non-nil rows are the cases, the masked value possibly obtained through a one-line accessor such as packet.Opcode() — has C&^M==0 for every compared constant, pairwise distinct cases, OR(all dispatched Op*) ⊆ M ⊆ 0xF800 (R+OPCODE of RFC 1002 §4.2.1.1), one M at all sites, " +
		"the dispatch switches map each Op* constant to the same handler method name, every server type (struct with Start and Stop) reaches such a dispatch from its methods — servers may share one dispatch method; the unit is the server type, not the switch statement — and for every (server type, opcode) the dispatched handler reaches, in its body or same-package helpers, the name-table operation of its opcode (Query/Register/Release/Refresh) and no other; DefendName and HandleRedirect reach a judged classification (directly or through a shared predicate helper). " +
		"R3 ID ECHO: in every NBNS responder the Marshal-ed response's Header.TransactionID is, on every def-use path, the loaded Header.TransactionID of the packet Unmarshal-ed from the function's input (or of the packet parameter every caller fills that way); no callee given the response stores that field; every server type reaches a judged responder; " +
		"llmnr.CreateResponseFromMessage copies Header.ID from its argument; Client.readLoop looks the pending query up by the ID of the message decoded from the bytes just read and delivers that same message by a non-blocking send — the lookup and the send may sit in helpers of the loop (deliver(msg), pending(id), trySend(ch, msg), a decode helper fed with the filled buffer), judged at their call sites; Client.Query registers a buffered channel under the ID of the message it sends. " +
		"R4 LIFECYCLE: every unbounded loop — `for { … }`, or `for [!]f() { … }` whose condition is one call of a module function (`for !s.stopping()`) — that blocks in Read*/Accept* (directly or in a helper it calls synchronously, two levels) tests a receiver-field quit channel on every iteration with a case that leaves the loop (an in-loop select, a quit helper `select { case <-s.quit: return true; default: return false }` taking the receiver or the channel, one or two wrappers of it, a channel accessor); a loop whose exit is decided by code the rule does not read (atomic flag, context, a helper that blocks and makes its own stop test) is NOT DECIDED; every lifecycle type (a struct one of whose methods closes a channel field: nbtns.Server, UDPServer, TCPServer, llmnr.Server, llmnr.Client) reaches at least one such loop (R4-serve-loop; the instance floors are keyed on these types, not on the number of loops); some method closes that same field and the channel is created; each blocking call is either preceded in the iteration by a Set(Read)Deadline on the same connection or the closer also closes that same connection/listener field; " +
		"goroutines the stop function waits for are launched after wg.Add and defer wg.Done; types that carry a sync.Once close their channel only inside Once.Do. " +
		"R5 PER-REQUEST STATE: functions started with `go` from inside a loop, or by a helper called from a loop (request handlers) and everything they call store only into objects allocated per request (including the enclosing function's own variables assigned from inside a function literal or a range-over-func loop body), or go through the name table's locking methods / sync.Map; a store whose target object could not be traced to an allocation, parameter or global is NOT DECIDED. " +
		"NOT decided: absence of all data races and deadlocks under every schedule (only the named sharing patterns are excluded), promptness/timing of shutdown, goroutines of user-supplied LLMNR handlers, correctness of the name-table semantics (C17), " +
		"whether the NBNS handlers' answers are those RFC 1002 prescribes beyond the opcode→operation routing, and double Stop of the NBNS servers."
	r.Assumptions = append(r.Assumptions,
		"go/types + go/ssa (x/tools v0.50.0) model of the module; interface calls resolved over all module types implementing the interface (CHA)",
		"standard-library contracts (trusted table, internal/effects.ExternalPolicy): functions of net, io, encoding/binary, fmt, log, errors, time, strings, strconv, os, crypto/* neither retain a []byte argument after returning nor return memory sharing with it; io.Reader/io.Writer implementations do not retain p; sync.Map.Store/LoadOrStore/Swap, sync.Pool.Put, atomic.Value.Store retain their arguments; any other external function's pointer-like result may alias its arguments and external pointer-receiver methods may keep them",
		"string(b) and []byte(s) conversions copy; copy() and append() of byte elements do not make the destination alias the source",
		"Read-style functions of net/io/bufio/os/crypto/tls (name prefix Read, one []byte parameter) overwrite that parameter; they and Accept* are the blocking calls of a serve loop",
		"closing a net connection/listener, or an expired read deadline, makes a blocked Read*/Accept* return (net package contract)",
		"RFC 1002 §4.2.1.1 header word: R=0x8000, OPCODE=0x7800, NM_FLAGS=0x07F0, RCODE=0x000F",
	)

	k.pg = effects.NewProg(c.P)
	k.al = effects.NewAlias(k.pg)
	for _, fn := range k.pg.Funcs {
		rp := relPkg(c.P, fn)
		if rp == c18Nbtns || rp == c18Llmnr {
			k.fns = append(k.fns, fn)
		}
	}
	if len(k.fns) == 0 {
		r.Undecided("anchor", "packages network/llmnr, network/netbios/nbtns", "", "anchored packages have no functions")
		return
	}
	r.Extra["functions_in_scope"] = len(k.fns)

	k.r1(k.fns, false)
	if c.Tier == "thorough" {
		var rest []*ssa.Function
		for _, fn := range k.pg.Funcs {
			rp := relPkg(c.P, fn)
			if rp != c18Nbtns && rp != c18Llmnr {
				rest = append(rest, fn)
			}
		}
		k.r1(rest, true)
	}
	k.r2()
	k.r3()
	k.r4()
	k.r5()

	// one receive loop with a read per lifecycle type at least (nbtns.Server, UDPServer,
	// TCPServer's connection loop, llmnr.Server, llmnr.Client); how many Read statements a
	// loop is written with (length prefix + body, helper or inline) is the author's choice
	r.Floor("R1-shared-buffer", 5)
	r.Extra["functions_analysed_alias"] = len(k.al.Visited)
}

func (k *c18) fname(fn *ssa.Function) string { return k.p.FuncName(fn) }

func (k *c18) pos(in ssa.Instruction) string {
	if in == nil {
		return "-"
	}
	if in.Pos().IsValid() {
		return k.p.Rel(in.Pos())
	}
	// fall back to the nearest positioned instruction of the block
	for _, x := range in.Block().Instrs {
		if x.Pos().IsValid() {
			return k.p.Rel(x.Pos())
		}
	}
	return k.p.Rel(in.Parent().Pos())
}

// ------------------------------------------------------------------ R1

type c18Fill struct {
	call ssa.CallInstruction
	buf  ssa.Value
	name string
}

// fills lists the calls in fn that overwrite a []byte argument with received bytes.
func (k *c18) fills(fn *ssa.Function) []c18Fill {
	var out []c18Fill
	for _, b := range fn.Blocks {
		for _, in := range b.Instrs {
			ci, ok := in.(ssa.CallInstruction)
			if !ok {
				continue
			}
			cc := ci.Common()
			args := effects.AllArgs(cc)
			if i, ok := effects.FillArg(cc); ok {
				out = append(out, c18Fill{ci, args[i], effects.CalleeName(cc)})
				continue
			}
			for _, g := range k.pg.Callees(cc) {
				for i := range args {
					if i < len(g.Params) && effects.Carries(args[i].Type()) && k.pg.Fills(g, i, 0) {
						out = append(out, c18Fill{ci, args[i], g.Name()})
					}
				}
			}
		}
	}
	return out
}

func (k *c18) r1(fns []*ssa.Function, wide bool) {
	const rule = "R1-shared-buffer"
	nLoops := 0
	var sums []string
	for _, fn := range fns {
		fl := k.fills(fn)
		if len(fl) == 0 {
			continue
		}
		loops := effects.Loops(fn)
		for _, f := range fl {
			f := f
			L := effects.Innermost(loops, f.call.Block())
			if L == nil {
				continue // a single read outside any loop cannot be overwritten by a next iteration
			}
			nLoops++
			construct := fmt.Sprintf("%s: buffer filled by %s inside a loop", k.fname(fn), f.name)
			k.c.guard(rule, construct, k.pos(f.call), func() {
				origins := effects.Roots(f.buf)
				var shared []ssa.Value
				for _, o := range origins {
					in, isInstr := o.(ssa.Instruction)
					if isInstr && L.Blocks[in.Block()] {
						switch o.(type) {
						case *ssa.Alloc, *ssa.MakeSlice, *ssa.Call:
							continue // allocated in the loop body: one buffer per iteration
						}
					}
					shared = append(shared, o)
				}
				if len(shared) == 0 {
					k.r.OK(rule, construct, k.pos(f.call), "destination buffer is allocated inside the loop body: one buffer per iteration")
					return
				}
				tainted, evs := k.al.Run(fn, shared)
				var bad []string
				handoffs := 0
				for _, e := range evs {
					if e.Kind == effects.EvReturn {
						continue
					}
					// ownership hand-off: the filled buffer is given away and the loop variable is
					// re-bound to a fresh allocation before the next fill (go h(buf[:n]); buf = make(…))
					if c18HandedOff(L, f.buf, e.Instr) {
						handoffs++
						continue
					}
					bad = append(bad, fmt.Sprintf("%s at %s", e.What, k.pos(e.Instr)))
				}
				if len(bad) == 0 && handoffs > 0 {
					k.r.OK(rule, construct, k.pos(f.call),
						fmt.Sprintf("the filled buffer is handed off at %d place(s) and the loop variable is re-bound to a fresh allocation on every path from there to the next iteration: no iteration writes a buffer it gave away", handoffs))
					return
				}
				if len(bad) == 0 {
					k.r.OK(rule, construct, k.pos(f.call),
						fmt.Sprintf("buffer is reused across iterations; %d values may alias it, none reaches a go statement, channel, non-local store or unknown callee", len(tainted)))
					return
				}
				k.r.Fail(rule, construct, k.pos(f.call),
					"the buffer is allocated outside the loop and overwritten by "+f.name+" on every iteration, but a value that may alias it is "+
						strings.Join(bad, "; ")+" — a later datagram overwrites the bytes while they are still in use (copy the received bytes into a fresh slice first)")
			})
		}
	}
	// reads moved into a helper that allocates the buffer itself (readMessage(conn) returning a
	// fresh slice): one buffer per call, hence per iteration. Helpers that fill a parameter are
	// covered above (fills follows them); helpers that fill anything else are not decided.
	for _, fn := range fns {
		loops := effects.Loops(fn)
		if len(loops) == 0 {
			continue
		}
		for _, b := range fn.Blocks {
			if effects.Innermost(loops, b) == nil {
				continue
			}
			for _, in := range b.Instrs {
				call, ok := in.(*ssa.Call)
				if !ok {
					continue
				}
				h := call.Call.StaticCallee()
				if h == nil || h.Blocks == nil || !k.p.InModule(h) || h.Parent() != nil || h == fn {
					continue
				}
				hloops := effects.Loops(h)
				for _, hb := range h.Blocks {
					if effects.Innermost(hloops, hb) != nil {
						continue // a loop of the helper is judged in the helper
					}
					for _, hin := range hb.Instrs {
						ci, ok := hin.(ssa.CallInstruction)
						if !ok {
							continue
						}
						i, ok := effects.FillArg(ci.Common())
						if !ok {
							continue
						}
						buf := effects.AllArgs(ci.Common())[i]
						local, param, other := 0, 0, 0
						for _, o := range effects.Roots(buf) {
							switch o.(type) {
							case *ssa.Alloc, *ssa.MakeSlice, *ssa.Call:
								local++
							case *ssa.Parameter:
								param++
							default:
								other++
							}
						}
						if param > 0 && other == 0 {
							continue
						}
						nLoops++
						construct := fmt.Sprintf("%s: buffer filled by %s inside a loop (in helper %s)", k.fname(fn), effects.CalleeName(ci.Common()), h.Name())
						if other == 0 && local > 0 {
							k.r.OK(rule, construct, k.pos(call), "the helper allocates the destination buffer itself: one buffer per call, hence per iteration")
						} else {
							k.r.Undecided(rule, construct, k.pos(call), "the helper called from the loop fills a buffer that is neither allocated by it nor passed in by the loop (a field or global shared by every iteration); what happens to the received bytes afterwards is not followed")
						}
					}
				}
			}
		}
	}
	// record the summaries that were consulted (evidence)
	for _, s := range k.al.Summaries() {
		sums = append(sums, s)
	}
	sort.Strings(sums)
	if wide {
		k.r.Extra["R1_loops_with_reads_rest_of_module"] = nLoops
	} else {
		k.r.Extra["R1_loops_with_reads"] = nLoops
	}
	k.r.Extra["R1_retains_summaries"] = sums
}

// ------------------------------------------------------------------ R5

// lockingMethod: a method that acquires a sync.(RW)Mutex field of its receiver before any
// of its own stores (the name table's methods). The acquisition may be the Lock/RLock call
// itself or a call of a module function on the same receiver that acquires it (n.lock(),
// n.withRecord(name, func…)), two levels. Verdicts: ok; !ok with a positive reason (a store
// of the method's own body that no acquisition precedes); or undecided != "" when nothing
// wrong was seen but no acquisition was recognised either (the method's work is done in
// helpers / function literals: C17's lockset rule judges those).
func (k *c18) lockingMethod(g *ssa.Function) (ok bool, why string, undecided string) {
	if g.Signature.Recv() == nil || len(g.Params) == 0 || g.Blocks == nil {
		return false, "", "not a method with a body"
	}
	lock := k.acquiresRecvLock(g, 0)
	nStores := 0
	for _, b := range g.Blocks {
		for _, in := range b.Instrs {
			switch x := in.(type) {
			case *ssa.Store:
				if _, isAlloc := x.Addr.(*ssa.Alloc); isAlloc {
					continue
				}
				local := true
				for _, rt := range effects.Roots(x.Addr) {
					switch rt.(type) {
					case *ssa.Alloc, *ssa.MakeSlice, *ssa.MakeMap:
					default:
						local = false
					}
				}
				if local {
					continue
				}
				nStores++
				if lock != nil && !effects.Precedes(lock, in) {
					return false, "store before the lock", ""
				}
			case *ssa.MapUpdate:
				nStores++
				if lock != nil && !effects.Precedes(lock, in) {
					return false, "map update before the lock", ""
				}
			}
		}
	}
	if lock != nil {
		return true, "", ""
	}
	if nStores > 0 {
		return false, fmt.Sprintf("%d store(s) / map update(s) in the method body and no Lock/RLock on a receiver mutex field, directly or through a helper on the same receiver", nStores), ""
	}
	return false, "", "the method body neither stores nor acquires the lock itself; its work is done in helpers or function literals"
}

// acquiresRecvLock returns the first instruction of g that acquires a mutex field of g's
// receiver: sync Lock/RLock on recv.<field>, or a call handing the receiver to a module
// function that does so.
func (k *c18) acquiresRecvLock(g *ssa.Function, depth int) ssa.Instruction {
	if g == nil || g.Blocks == nil || depth > 2 || len(g.Params) == 0 {
		return nil
	}
	var first ssa.Instruction
	consider := func(in ssa.Instruction) {
		if first == nil || effects.Precedes(in, first) {
			first = in
		}
	}
	for _, b := range g.Blocks {
		for _, in := range b.Instrs {
			ci, ok := in.(ssa.CallInstruction)
			if !ok {
				continue
			}
			if _, isGo := in.(*ssa.Go); isGo {
				continue
			}
			cc := ci.Common()
			args := effects.AllArgs(cc)
			if obj := effects.CalleeObj(cc); obj != nil && obj.Pkg() != nil && obj.Pkg().Path() == "sync" && (obj.Name() == "Lock" || obj.Name() == "RLock") {
				if len(args) > 0 {
					if pth := k.pg.PathOf(args[0]); pth.OK && pth.RecvType != nil && len(pth.Fields) == 1 {
						if _, isDefer := in.(*ssa.Defer); !isDefer {
							consider(in)
						}
					}
				}
				continue
			}
			h := cc.StaticCallee()
			if h == nil || h == g || h.Blocks == nil || !k.p.InModule(h) || len(args) == 0 || len(h.Params) == 0 {
				continue
			}
			if pth := k.pg.PathOf(args[0]); !pth.OK || pth.RecvType == nil || len(pth.Fields) != 0 {
				continue
			}
			if _, isDefer := in.(*ssa.Defer); isDefer {
				continue
			}
			if k.acquiresRecvLock(h, depth+1) != nil {
				consider(in)
			}
		}
	}
	return first
}

func (k *c18) r5() {
	const rule = "R5-request-state"
	// the name table type, resolved by identity
	var tableT *types.Named
	if pk := k.p.Pkg(c18Nbtns); pk != nil {
		if tn, ok := pk.Types.Scope().Lookup("NetBIOSNameServer").(*types.TypeName); ok {
			tableT, _ = tn.Type().(*types.Named)
		}
	}
	if tableT == nil {
		k.r.Undecided(rule, "type nbtns.NetBIOSNameServer", "", "anchor type not found")
		return
	}
	boundary := func(g *ssa.Function) bool {
		if g.Signature.Recv() == nil {
			return false
		}
		nt, _ := deref2(g.Signature.Recv().Type()).(*types.Named)
		return nt != nil && nt.Obj() == tableT.Obj()
	}
	st := effects.NewStores(k.pg, boundary)

	// request handlers: go targets launched from inside a loop, in the anchored packages
	type site struct {
		g      *ssa.Go
		target *ssa.Function
		loop   *effects.Loop
		via    *ssa.Call // the go statement sits in a helper called from the loop at this call
	}
	var sites []site
	for _, fn := range k.fns {
		loops := effects.Loops(fn)
		for _, b := range fn.Blocks {
			L := effects.Innermost(loops, b)
			if L == nil {
				continue
			}
			for _, in := range b.Instrs {
				switch x := in.(type) {
				case *ssa.Go:
					for _, t := range k.pg.Callees(&x.Call) {
						sites = append(sites, site{x, t, L, nil})
					}
				case *ssa.Call:
					// serveConn(conn): a helper that does wg.Add(1); go s.handleConnection(conn)
					h := x.Call.StaticCallee()
					if h == nil || h.Blocks == nil || !k.p.InModule(h) || h.Parent() != nil || h == fn {
						continue
					}
					hloops := effects.Loops(h)
					for _, hb := range h.Blocks {
						if effects.Innermost(hloops, hb) != nil {
							continue // launched from a loop of the helper: a site of its own
						}
						for _, hin := range hb.Instrs {
							if g, ok := hin.(*ssa.Go); ok {
								for _, t := range k.pg.Callees(&g.Call) {
									sites = append(sites, site{g, t, L, x})
								}
							}
						}
					}
				}
			}
		}
	}
	// rootsAt: the objects an argument of the go statement denotes, in the terms of the
	// function that contains the loop
	rootsAt := func(s site, arg ssa.Value) []ssa.Value {
		rs := effects.Roots(arg)
		if s.via == nil {
			return rs
		}
		var out []ssa.Value
		h := s.g.Parent()
		for _, rt := range rs {
			prm, ok := rt.(*ssa.Parameter)
			if !ok || prm.Parent() != h {
				out = append(out, rt)
				continue
			}
			for i, q := range h.Params {
				if q == prm && i < len(s.via.Call.Args) {
					out = append(out, effects.Roots(s.via.Call.Args[i])...)
				}
			}
		}
		return out
	}
	n := 0
	for _, s := range sites {
		s := s
		construct := fmt.Sprintf("%s: go %s", k.fname(s.g.Parent()), s.target.Name())
		k.c.guard(rule, construct, k.pos(s.g), func() {
			n++
			effs := st.Effects(s.target)
			var bad, unread []string
			args := effects.AllArgs(&s.g.Call)
			for _, e := range effs {
				switch e.Kind {
				case "global":
					bad = append(bad, fmt.Sprintf("store to global %s (%s, %s)", e.Global.Name(), e.String(), k.pos(e.Instr)))
				case "unknown":
					// the written object was not traced to an allocation, a parameter or a global
					// (it came out of a call through a function value, an interface, a container …):
					// incomplete extraction, not an observed sharing
					unread = append(unread, fmt.Sprintf("store to an object whose origin was not traced (%s, %s)", e.String(), k.pos(e.Instr)))
				case "param":
					var arg ssa.Value
					if e.Param < len(args) {
						arg = args[e.Param]
					} else if mc, ok := s.g.Call.Value.(*ssa.MakeClosure); ok && e.Param-len(s.target.Params) < len(mc.Bindings) {
						arg = mc.Bindings[e.Param-len(s.target.Params)]
					}
					if arg == nil {
						bad = append(bad, fmt.Sprintf("store through parameter #%d (%s)", e.Param, e.String()))
						continue
					}
					for _, rt := range rootsAt(s, arg) {
						in, isInstr := rt.(ssa.Instruction)
						fresh := false
						if isInstr && in.Parent() != s.loop.Header.Parent() {
							// allocated inside the helper that launches the goroutine: one object per call
							switch rt.(type) {
							case *ssa.Alloc, *ssa.MakeSlice, *ssa.MakeMap, *ssa.Call:
								fresh = s.via != nil && in.Parent() == s.g.Parent()
							}
						} else if isInstr && s.loop.Blocks[in.Block()] {
							switch rt.(type) {
							case *ssa.Alloc, *ssa.MakeSlice, *ssa.MakeMap, *ssa.Call:
								fresh = true
							}
						}
						if !fresh {
							pname := fmt.Sprintf("#%d", e.Param)
							if e.Param < len(s.target.Params) {
								pname = s.target.Params[e.Param].Name()
							}
							bad = append(bad, fmt.Sprintf("store to %s at %s writes memory reachable from %s, which every goroutine started by this loop shares",
								e.String(), k.pos(e.Instr), pname))
						}
					}
				}
			}
			if len(bad) > 0 {
				sort.Strings(bad)
				k.r.Fail(rule, construct, k.pos(s.g), "request handler "+s.target.Name()+" does not keep its state per request: "+strings.Join(uniqStrings(bad), "; "))
				return
			}
			if len(unread) > 0 {
				sort.Strings(unread)
				un := strings.Join(uniqStrings(unread), "; ")
				if len(un) > 600 {
					un = un[:600] + " …"
				}
				k.r.OK(rule, construct, k.pos(s.g), "NOT DECIDED — no store to shared memory was observed, but "+un)
				k.r.Note("C18 R5-request-state: %s NOT DECIDED — %s", construct, un)
				return
			}
			k.r.OK(rule, construct, k.pos(s.g), fmt.Sprintf("all stores reachable from %s (%d functions summarised) target objects allocated per request; shared state only through locking name-table methods / sync.Map",
				s.target.Name(), len(st.Visited)))
		})
	}
	// name-table methods reached from handlers must take the lock
	var hit []*ssa.Function
	for g := range st.Hit {
		hit = append(hit, g)
	}
	sort.Slice(hit, func(i, j int) bool { return hit[i].String() < hit[j].String() })
	for _, g := range hit {
		construct := k.fname(g) + ": acquires the table lock before writing"
		ok, why, und := k.lockingMethod(g)
		if ok {
			k.r.OK("R5-locked-table", construct, k.p.Rel(g.Pos()), "Lock/RLock on a receiver mutex field (taken directly or by a helper on the same receiver) precedes every store and map update")
		} else if und != "" {
			k.r.OK("R5-locked-table", construct, k.p.Rel(g.Pos()), "NOT DECIDED — "+und+" (the lock discipline of the table is C17's subject)")
			k.r.Note("C18 R5-locked-table: %s NOT DECIDED — %s", k.fname(g), und)
		} else {
			k.r.Fail("R5-locked-table", construct, k.p.Rel(g.Pos()), "name-table method reached from a request goroutine does not lock first: "+why)
		}
	}
	// Coverage is keyed on the server types (structs of the two packages with a Serve/Start
	// entry that close a quit channel and start goroutines), not on the number of go
	// statements: every such type must reach a judged launch site. Two servers sharing one
	// serve function keep both types covered while the number of sites drops.
	siteFns := map[*ssa.Function]bool{}
	for _, s := range sites {
		siteFns[s.g.Parent()] = true
		if s.via != nil {
			siteFns[s.via.Parent()] = true
		}
	}
	nTypes := 0
	anchors := map[string]bool{c18Nbtns + ".Server": true, c18Nbtns + ".UDPServer": true, c18Nbtns + ".TCPServer": true, c18Llmnr + ".Server": true}
	for _, lt := range k.lifecycleTypes() {
		name := relPkgOfObj(k, lt.nt.Obj()) + "." + lt.nt.Obj().Name()
		if !anchors[name] {
			continue
		}
		delete(anchors, name)
		nTypes++
		covered := false
		for fn := range k.reachFns(k.methodsOf(lt.nt)) {
			if siteFns[fn] {
				covered = true
			}
		}
		construct := name + ": its request goroutines are judged"
		if covered {
			k.r.OK(rule, construct, k.p.Rel(lt.nt.Obj().Pos()), "reaches a go statement inside a receive loop (or a helper called from one) that is judged above")
		} else {
			k.r.OK(rule, construct, k.p.Rel(lt.nt.Obj().Pos()), "NOT DECIDED — no go statement inside a loop (or in a helper called from a loop) is reached from the methods of this type: requests are handled synchronously, or the goroutines are started in a shape this rule does not read")
			k.r.Note("C18 R5-request-state: %s NOT DECIDED — no launch site in a shape the rule reads", construct)
		}
	}
	for name := range anchors {
		k.r.Fail(rule, name+": its request goroutines are judged", "", "server type not found among the types that close a quit channel (anchor confirmed by reading)")
	}
	// 4 server types (nbtns.Server, UDPServer, TCPServer, llmnr.Server) + at least one site
	k.r.Floor(rule, 5)
	k.r.Extra["R5_server_types"] = nTypes
	k.r.Floor("R5-locked-table", 4)
	k.r.Extra["R5_go_sites_in_loops"] = n
	k.r.Extra["R5_functions_summarised"] = len(st.Visited)
	if len(st.Unknown) > 0 {
		k.r.Note("R5: calls through function values are not followed (user-supplied handlers): %s", strings.Join(uniqStrings(st.Unknown), "; "))
	}
}

func deref2(t types.Type) types.Type {
	if p, ok := t.Underlying().(*types.Pointer); ok {
		return p.Elem()
	}
	return t
}

func uniqStrings(in []string) []string {
	seen := map[string]bool{}
	var out []string
	for _, s := range in {
		if !seen[s] {
			seen[s] = true
			out = append(out, s)
		}
	}
	return out
}

// c18HandedOff: buf is the loop-header φ of the buffer variable, at is the
// instruction that lets a value aliasing it escape; on every back edge that can
// be reached from at without leaving the loop, the φ receives a buffer freshly
// allocated after at (never the φ itself or anything older).
func c18HandedOff(L *effects.Loop, buf ssa.Value, at ssa.Instruction) bool {
	phi, ok := buf.(*ssa.Phi)
	if !ok || phi.Block() != L.Header || at == nil || !L.Blocks[at.Block()] {
		return false
	}
	// blocks reachable from at inside the loop, not passing through the header
	reach := map[*ssa.BasicBlock]bool{at.Block(): true}
	work := []*ssa.BasicBlock{at.Block()}
	for len(work) > 0 {
		b := work[len(work)-1]
		work = work[:len(work)-1]
		for _, s := range b.Succs {
			if s == L.Header || !L.Blocks[s] || reach[s] {
				continue
			}
			reach[s] = true
			work = append(work, s)
		}
	}
	after := func(v ssa.Value) bool {
		in, ok := v.(ssa.Instruction)
		if !ok || !reach[in.Block()] {
			return false
		}
		if in.Block() != at.Block() {
			return true
		}
		ia, iv := -1, -1
		for i, x := range in.Block().Instrs {
			if x == at {
				ia = i
			}
			if x == in {
				iv = i
			}
		}
		return ia >= 0 && iv > ia
	}
	fresh := func(v ssa.Value) bool {
		switch x := v.(type) {
		case *ssa.MakeSlice:
			return after(x)
		case *ssa.Slice:
			if al, ok := x.X.(*ssa.Alloc); ok && al.Heap {
				return after(al)
			}
		}
		return false
	}
	n := 0
	for i, pr := range L.Header.Preds {
		if !L.Blocks[pr] || !reach[pr] {
			continue
		}
		n++
		if !fresh(phi.Edges[i]) {
			return false
		}
	}
	return n > 0
}
