package rules

import (
	"fmt"
	"go/types"
	"sort"

	"golang.org/x/tools/go/ssa"

	"manticheck/internal/flow"
)

// C12 extension `R1b-state-advance` (added after an independently seeded
// change was missed): the dual of the who-writes table. A streaming primitive
// that is required to behave identically however its input is split across
// calls must carry its running state from one call to the next: the function
// that consumes input must STORE every running-state field of the receiver
// (directly, an element of it, or the whole field written back). If
// XORKeyStream permuted a local copy of the S-box and never stored it back,
// the second call would restart from the key schedule.

func init() {
	ck := registry["C12"]
	if ck == nil {
		return
	}
	orig := ck.Run
	ck.Run = func(c *Ctx) {
		orig(c)
		c12StateAdvance(c)
		c.R.Explanation += " Extension R1b STATE-ADVANCE: rc4.XORKeyStream stores into s (element-wise or whole), i and j of its receiver, and cmac.Write stores into ci and p: the running state survives from one call to the next (a necessary condition of chunking invariance)."
	}
}

// fieldsStored: receiver fields that fn stores to (element stores included).
func fieldsStored(fn *ssa.Function) map[string]bool {
	out := map[string]bool{}
	if fn == nil || fn.Blocks == nil || len(fn.Params) == 0 {
		return out
	}
	recv := fn.Params[0]
	var fieldOf func(a ssa.Value, d int) string
	fieldOf = func(a ssa.Value, d int) string {
		if d > 4 {
			return ""
		}
		switch x := a.(type) {
		case *ssa.FieldAddr:
			if x.X == ssa.Value(recv) {
				st := derefType(x.X.Type()).Underlying().(*types.Struct)
				return st.Field(x.Field).Name()
			}
		case *ssa.IndexAddr:
			// element of an array field (pointer to array) or of a slice loaded from a field
			if f := fieldOf(x.X, d+1); f != "" {
				return f
			}
			if ld, ok := x.X.(*ssa.UnOp); ok {
				return fieldOf(ld.X, d+1)
			}
		}
		return ""
	}
	for _, b := range fn.Blocks {
		for _, in := range b.Instrs {
			switch x := in.(type) {
			case *ssa.Store:
				if f := fieldOf(x.Addr, 0); f != "" {
					out[f] = true
				}
			case *ssa.Call:
				// copy(c.ci[...], …) / cipher.Encrypt(c.ci, …) write through a slice loaded from the field
				for _, a := range x.Common().Args {
					v := a
					if sl, ok := v.(*ssa.Slice); ok {
						v = sl.X
					}
					if ld, ok := v.(*ssa.UnOp); ok {
						if f := fieldOf(ld.X, 0); f != "" && isDstArg(x, a) {
							out[f] = true
						}
					}
				}
			}
		}
	}
	return out
}

// isDstArg: a is the destination of copy() or of a cipher.Block Encrypt call.
func isDstArg(call *ssa.Call, a ssa.Value) bool {
	cc := call.Common()
	if b, ok := cc.Value.(*ssa.Builtin); ok && b.Name() == "copy" {
		return cc.Args[0] == a
	}
	if cc.IsInvoke() && (cc.Method.Name() == "Encrypt" || cc.Method.Name() == "Decrypt") {
		return len(cc.Args) > 0 && cc.Args[0] == a
	}
	return false
}

func c12StateAdvance(c *Ctx) {
	p, r := c.P, c.R
	const rule = "R1b-state-advance"
	eng := flow.New(p)
	for _, t := range []struct {
		rel, recv, fn string
		must          []string
	}{
		{"crypto/rc4", "RC4", "XORKeyStream", []string{"s", "i", "j"}},
		{"crypto/cmac", "cmac", "Write", []string{"ci", "p"}},
	} {
		fn := p.Func(t.rel, t.recv, t.fn)
		key := fmt.Sprintf("(*%s.%s).%s", t.rel, t.recv, t.fn)
		if fn == nil {
			r.Undecided(rule, key, "", "function not found")
			continue
		}
		got := fieldsStored(fn)
		// … or through an in-module helper / a standard-library call that writes the
		// memory it is handed (parameter-rooted write summary, certain writes only)
		for _, w := range eng.Writes(fn) {
			if w.Param == 0 && !w.Uncertain && w.Field() != "" {
				got[w.Field()] = true
			}
		}
		var missing []string
		for _, f := range t.must {
			if !got[f] {
				missing = append(missing, f)
			}
		}
		sort.Strings(missing)
		if len(missing) == 0 {
			r.OK(rule, key, p.Rel(fn.Pos()), fmt.Sprintf("stores into the running-state fields %v of its receiver", t.must))
		} else {
			r.Fail(rule, key, p.Rel(fn.Pos()), fmt.Sprintf("never stores into running-state field(s) %v of its receiver: the state a call leaves behind is not what the next call continues from", missing))
		}
	}
	r.Floor(rule, 2)
}

// Extension `R3-pad-domain`: pkcs7.Pad takes blockSize as a uint8, so 1..255
// are exactly the legal block sizes; every guard that compares blockSize with
// a constant and leads to an error return may reject 0 only. The comparison is
// evaluated over the 256 values of the type (a finite truth table, like
// MASK-SAT) — nothing is executed.
func init() {
	ck := registry["C12"]
	if ck == nil {
		return
	}
	orig := ck.Run
	ck.Run = func(c *Ctx) {
		orig(c)
		c12PadDomain(c)
		c.R.Explanation += " Extension R3 PAD-DOMAIN: every constant guard on pkcs7.Pad's uint8 block size that leads to an error rejects no value in 1..255 (truth table over the 256 values)."
	}
}

func c12PadDomain(c *Ctx) {
	p, r := c.P, c.R
	const rule = "R3-pad-domain"
	fn := p.Func("crypto/pkcs7", "", "Pad")
	if fn == nil {
		r.Undecided(rule, "pkcs7.Pad", "", "not found")
		return
	}
	var bs *ssa.Parameter
	for _, prm := range fn.Params {
		if b, ok := prm.Type().Underlying().(*types.Basic); ok && b.Kind() == types.Uint8 {
			bs = prm
		}
	}
	if bs == nil {
		r.Undecided(rule, "pkcs7.Pad", p.Rel(fn.Pos()), "no uint8 block-size parameter")
		return
	}
	n := 0
	for _, b := range fn.Blocks {
		iff, ok := b.Instrs[len(b.Instrs)-1].(*ssa.If)
		if !ok {
			continue
		}
		bo, ok := iff.Cond.(*ssa.BinOp)
		if !ok {
			continue
		}
		var k *ssa.Const
		flip := false
		if stripConvParam(bo.X) == ssa.Value(bs) {
			k, _ = bo.Y.(*ssa.Const)
		} else if stripConvParam(bo.Y) == ssa.Value(bs) {
			k, _ = bo.X.(*ssa.Const)
			flip = true
		}
		if k == nil || k.Value == nil {
			continue
		}
		kv, exact := constantInt64(k)
		if !exact {
			continue
		}
		// which successor is an error return?
		errOn := -1
		for i, s := range b.Succs {
			if ret, ok := s.Instrs[len(s.Instrs)-1].(*ssa.Return); ok && len(ret.Results) == 2 {
				if e, isK := ret.Results[1].(*ssa.Const); !isK || e.Value != nil {
					errOn = i
				}
			}
		}
		if errOn < 0 {
			continue
		}
		n++
		var rejected []int
		for v := int64(0); v <= 255; v++ {
			a, bb := v, kv
			if flip {
				a, bb = kv, v
			}
			t := cmpHolds(bo.Op.String(), a, bb)
			if (errOn == 0) == t {
				rejected = append(rejected, int(v))
			}
		}
		key := fmt.Sprintf("pkcs7.Pad: guard blockSize %s %d", bo.Op.String(), kv)
		bad := false
		for _, v := range rejected {
			if v != 0 {
				bad = true
			}
		}
		if bad {
			lo, hi := rejected[0], rejected[len(rejected)-1]
			r.Fail(rule, key, p.Rel(iff.Pos()), fmt.Sprintf("rejects %d legal block size(s) in 1..255 (from %d to %d)", len(rejected), lo, hi))
		} else {
			r.OK(rule, key, p.Rel(iff.Pos()), "rejects block size 0 only")
		}
	}
	if n == 0 {
		r.Fail(rule, "pkcs7.Pad: block size 0 is rejected", p.Rel(fn.Pos()), "no guard rejects block size 0 (division by zero in the padding length)")
	}
}

func stripConvParam(v ssa.Value) ssa.Value {
	for {
		switch x := v.(type) {
		case *ssa.Convert:
			v = x.X
			continue
		case *ssa.ChangeType:
			v = x.X
			continue
		}
		return v
	}
}

func constantInt64(k *ssa.Const) (int64, bool) {
	if k.Value == nil {
		return 0, false
	}
	s := k.Value.ExactString()
	var n int64
	_, err := fmt.Sscan(s, &n)
	return n, err == nil
}

func cmpHolds(op string, a, b int64) bool {
	switch op {
	case "<":
		return a < b
	case "<=":
		return a <= b
	case ">":
		return a > b
	case ">=":
		return a >= b
	case "==":
		return a == b
	case "!=":
		return a != b
	}
	return false
}
