package rules

import (
	"fmt"
	"go/constant"
	"go/token"
	"go/types"
	"strconv"
	"strings"

	"golang.org/x/tools/go/ssa"

	"manticheck/internal/lanes"
	"manticheck/internal/prove"
	"manticheck/internal/wire"
)

func init() { register(&Check{ID: "C10", NeedSSA: true, Run: runC10}) }

const nbtnsPkg = "network/netbios/nbtns"

// RFC 1002 §4.2.1.1 header: NAME_TRN_ID, flags word, QDCOUNT, ANCOUNT, NSCOUNT, ARCOUNT.
var nbnsHeaderOrder = []string{"TransactionID", "Flags", "Questions", "Answers", "Authority", "Additional"}

// (count word of NBTNSHeader, section of NBTNSPacket, resource record?)
var nbnsSections = []struct {
	sec string
	rr  bool
}{{"Questions", false}, {"Answers", true}, {"Authority", true}, {"Additional", true}}

func runC10(c *Ctx) {
	p, r := c.P, c.R
	r.Explanation = "C10 NetBIOS names and NBNS packets, decided structurally on go/ssa. " +
		"R1 (internal/wire layouts) `sym`: NBTNSPacket.Marshal and Unmarshal (including the per-section closure Unmarshal$1 and Marshal's loop over the slice literal of sections) list the same header words and, per section, the same element atoms — name length byte, name (FirstLevelEncode⇄FirstLevelDecode), type, class[, ttl, rdlength, rdata] — in the same order with the same widths; `order`: every multi-byte integer is big-endian on both sides; `spec`: the header is the six 16-bit words of RFC 1002 §4.2.1.1 in order; `count`: the decoder consumes its fields contiguously, the captured cursor is initialised to the header size, every store to it is the end of a read, and each loop iteration leaves it at the end of the element; `guard`: each length check establishes exactly the end of the reads it protects; `length`: the RData read is as long as the value read into RDLength, and the name read is as long as its length byte. " +
		"R2 `sections`: each of the four sections is emitted by Marshal (a range over that section) and filled by Unmarshal (a loop bounded by that section's header count appending to that section), in RFC order; `counts`: the count word Marshal emits for a section is len(section), so that the header describes what follows. " +
		"R3 `firstlevel` (internal/lanes bit provenance with the `± 'A'` offset — or a look-up in a constant alphabet T with T[j] = K+j — peeled, index forms as linear forms in the loop counter; the encoder is summarised as emit groups, one per counted loop producing two bytes per iteration, collected either from stores encoded[2i], encoded[2i+1] or from append(encoded, hi, lo), with the source byte being a padded 16-byte buffer, the padded string Name+strings.Repeat(P, 16-len(Name)), or Name[i] itself followed by a group of constants that encode the pad byte): FirstLevelEncode writes (name[i] bits 4-7)+K at byte 2i and (name[i] bits 0-3)+K at 2i+1; FirstLevelDecode subtracts the same K from bytes 2i and 2i+1, bounds both by 0x0F (E1) and reassembles (hi<<4)|lo into byte i (a store decoded[i] = … into a 16-byte buffer or array, or decoded = append(decoded, …) from an empty slice); K = ASCII_A = 0x41 on both sides; buffers and loop bounds are 16/32 = NetBIOSNameLength/EncodedNameLength and the decoder insists on len == 32 (E1); the pad byte stored after the name is ' ' and the decoder trims exactly that byte; the scope separator emitted immediately before the ScopeID bytes is the one the decoder splits on at its FIRST occurrence (SplitN(…, 2), Cut, or Index/IndexByte with s[:i], s[i+1:]). " +
		"COMPLETENESS BEFORE VERDICT: as for C09 — a layout that internal/wire could not read completely (the buffer handed to an unanalysed helper / closure, a cursor type with more state than the unread tail, results returned through variables by a range-over-func body, an unparsed shape) makes the clauses that depend on it NOT DECIDED (discharged with a note, counted as present for the floors), and the packet pair is then decided by `roundtrip`: Marshal and Unmarshal interpreted over the bit-lane domain on one packet with 2/1/3/4 entries (symbolic integer fields, the name codec replaced by an injective stand-in): every field returns bit for bit, the header words are the RFC words in order, every multi-byte field is big-endian. The first-level rules accept a strings.Builder collector, a pad chosen per byte (c := ' '; if i < len(Name) { c = Name[i] }) and look-up tables in both directions (a constant alphabet T[j] = K+j; a package-level reverse table evaluated from its initialiser with T[K+j] = j and negative marks elsewhere, whose mark must be excluded by a dominating test); a clause whose construct is absent is NOT DECIDED only when the function contains code this rule does not look into (function literal, data-carrying in-module helper), otherwise undecided as before; ranging over the name as a string (rune decoding) is reported as such. " +
		"NOT decided: conformance of the name FIELD to RFC 1002 §4.1 (Marshal emits `len | text[.scope]` with no terminating root label and the scope as dotted text rather than labels, Unmarshal expects the same: self-consistent, so invisible without an independent parser — recorded as an observation), names that themselves end in spaces (trimmed on decode), names starting with '*' (rejected by Validate), scope syntax, and value-level consistency RDLength == len(RData), which Marshal takes on trust."
	r.Assumptions = []string{
		"go/types + go/ssa (x/tools v0.50.0) are faithful to the source",
		"encoding/binary PutUintN/UintN/AppendUintN have their documented byte layouts",
		"decoder offset arithmetic does not overflow int (proved separately by C07)",
		"bytes.TrimRight(s, cutset) removes exactly the trailing bytes contained in cutset; strings.SplitN(s, sep, 2) splits at the first sep",
	}
	w := prove.NewWorld(p)
	wSetUnits(c, nbtnsPkg, [2]string{"NBTNSPacket", "Marshal"}, [2]string{"NBTNSPacket", "Unmarshal"}, [2]string{"NetBIOSName", "FirstLevelEncode"}, [2]string{"", "FirstLevelDecode"})

	// the encoder core FirstLevelEncode may delegate to (c10_core.go)
	core := c10FirstLevelCore(c, c.P.Func(nbtnsPkg, "NetBIOSName", "FirstLevelEncode"))
	if core != nil {
		wUnits[core] = true
		r.Note("C10: FirstLevelEncode delegates to %s: the first-level clauses are decided on that function, and its calls in Marshal stand for FirstLevelEncode", wire.FuncLabel(core))
	}

	enc := wEncoder(c, w, nbtnsPkg, "NBTNSPacket", "Marshal")
	if enc != nil && core != nil {
		if fleFn := c.P.Func(nbtnsPkg, "NetBIOSName", "FirstLevelEncode"); fleFn != nil {
			enc.enc = c10AliasCallee(enc.enc, core, fleFn)
		}
	}
	dec := wDecoder(c, w, nbtnsPkg, "NBTNSPacket", "Unmarshal")
	fle := wAnchor(c, w, nbtnsPkg, "NetBIOSName", "FirstLevelEncode")
	fld := wAnchor(c, w, nbtnsPkg, "", "FirstLevelDecode")
	r.Floor("anchor", 4)
	r.Floor("extract", 2)
	pairs := wPairs{}
	if fle != nil && fld != nil {
		pairs[fle.fn] = fld.fn
	}
	layouts := map[string]string{}
	if enc != nil && dec != nil {
		layouts["NBTNSPacket.Marshal"] = wire.Render(enc.enc)
		layouts["NBTNSPacket.Unmarshal"] = wire.Render(dec.dec.Atoms)
		c.guard("sym", "NBTNSPacket.Marshal⇄Unmarshal", dec.pos, func() {
			if why := wPairIncomplete(enc, dec); why != "" {
				wND(c, "sym", "NBTNSPacket.Marshal⇄Unmarshal", dec.pos, why, 6+4+3*7)
			} else {
				wCompare(c, "sym", "NBTNSPacket.Marshal⇄Unmarshal", dec.pos, enc, dec, enc.enc, dec.dec.Atoms, pairs)
			}
			if enc.incomplete != "" {
				wND(c, "order", "NBTNSPacket.Marshal encoder", enc.pos, enc.incomplete, 6+2+3*4)
			} else {
				wOrder(c, enc, enc.enc, "encoder")
			}
			if dec.incomplete != "" {
				wND(c, "order", "NBTNSPacket.Unmarshal decoder", dec.pos, dec.incomplete, 6+2+3*4)
				wND(c, "count", "NBTNSPacket.Unmarshal: reads are contiguous and the cursor ends at the last read", dec.pos, dec.incomplete, 1)
				wND(c, "guard", "NBTNSPacket.Unmarshal: each length check establishes exactly the end of the reads it protects", dec.pos, dec.incomplete, 1)
			} else {
				wOrder(c, dec, dec.dec.Atoms, "decoder")
				wCheckDec(c, dec)
			}
		})
		if why := wRTWanted(wPairIncomplete(enc, dec)); why != "" {
			// the structural comparison is NOT DECIDED: decide what the lane
			// interpretation can, on one representative packet
			c.guard(wRTRule, "NBTNSPacket", dec.pos, func() { wRoundTrip(c, c10RTSpec, why) })
		}
		c.guard("spec", "header", enc.pos, func() { c10Header(c, enc, dec) })
		c.guard("sections", "NBTNSPacket", enc.pos, func() { c10Sections(c, enc, dec) })
		c.guard("length", "NBTNSPacket", dec.pos, func() { c10Length(c, w, enc, dec) })
		r.Extra["closures_analysed"] = len(dec.dec.Subs)
	} else {
		r.Undecided("sym", "NBTNSPacket.Marshal⇄Unmarshal", "", "one side could not be extracted")
	}
	r.Floor("sym", 6+4+3*7)
	r.Floor("order", 2*(6+2+3*4))
	r.Floor("spec", 12)
	r.Floor("sections", 10)
	r.Floor("counts", 4)
	r.Floor("length", 15)
	r.Floor("count", 1)
	r.Floor("guard", 1)
	if fle != nil && fld != nil {
		fleCode := fle
		if core != nil {
			fleCode = &wcodec{rel: fle.rel, recv: fle.recv, name: fle.name, fn: core, pos: c.P.Rel(core.Pos())}
		}
		c.guard("firstlevel", "FirstLevelEncode⇄FirstLevelDecode", fle.pos, func() { c10FirstLevel(c, w, fleCode, fld) })
	}
	// clauses that depend on a construct reported NOT DECIDED are not emitted at all:
	// they count as present (the entity is there, it was not read)
	{
		nd := false
		for _, o := range r.Obls {
			if o.Rule == "firstlevel" && strings.HasPrefix(o.Reason, "NOT DECIDED") {
				nd = true
			}
		}
		for k := r.Counts["firstlevel"]; nd && k < 12; k++ {
			r.OK("firstlevel", fmt.Sprintf("clause %d of 12 (depends on a construct that was not decided)", k+1), "", "NOT DECIDED — see the first-level clauses above")
		}
	}
	r.Floor("firstlevel", 12)
	r.Extra["layouts"] = layouts
	r.Extra["functions_analysed"] = []string{"NBTNSPacket.Marshal", "NBTNSPacket.Unmarshal", "NBTNSPacket.Unmarshal$1 (once per call site)", "NetBIOSName.FirstLevelEncode", "FirstLevelDecode"}
	r.Extra["sections_table"] = []string{"Header.Questions↔Questions", "Header.Answers↔Answers", "Header.Authority↔Authority", "Header.Additional↔Additional"}
	r.Note("observation (not a rule): the name field on the wire is `len | 32 half-ASCII bytes[.scope]` with no terminating zero label and the scope as dotted text; RFC 1002 §4.1 has 0x20, 32 bytes, then the scope as length-prefixed labels, then 0x00. Marshal and Unmarshal agree with each other, so only an independent parser can see it.")
}

var c10RTSpec = wRTSpec{
	prop: "C10", pkg: nbtnsPkg, msgType: "NBTNSPacket", hdrField: "Header", hdrType: "NBTNSHeader",
	hdrWords: nbnsHeaderOrder, counts: []string{"Questions", "Answers", "Authority", "Additional"},
	secs:  []string{"Questions", "Answers", "Authority", "Additional"},
	qType: "NBTNSQuestion", rrType: "NBTNSResourceRecord", rdata: "RData", rdlen: "RDLength", nameFld: "Name",
	encRecv: "NBTNSPacket", encName: "Marshal", decRecv: "NBTNSPacket", decName: "Unmarshal", decIsMethod: true,
	nameEnc: [2]string{"NetBIOSName", "FirstLevelEncode"}, nameDec: [2]string{"", "FirstLevelDecode"}, nameIsPtr: true,
}

func c10Header(c *Ctx, enc, dec *wcodec) {
	r := c.R
	for _, side := range []struct {
		k     *wcodec
		atoms []wire.Atom
		name  string
	}{{enc, enc.enc, "NBTNSPacket.Marshal"}, {dec, dec.dec.Atoms, "NBTNSPacket.Unmarshal"}} {
		if side.k.incomplete != "" {
			wND(c, "spec", side.name+": header words", side.k.pos, side.k.incomplete, len(nbnsHeaderOrder))
			continue
		}
		for i, f := range nbnsHeaderOrder {
			key := fmt.Sprintf("%s: header word %d is %s", side.name, i, f)
			if i >= len(side.atoms) {
				r.Fail("spec", key, side.k.pos, "the layout has fewer than six header fields")
				continue
			}
			a := side.atoms[i]
			if a.Kind == "fixed" && a.Width == 2 && a.Field == "Header."+f {
				r.OK("spec", key, c.P.Rel(a.Pos), "16-bit "+f)
			} else {
				r.Fail("spec", key, c.P.Rel(a.Pos), fmt.Sprintf("RFC 1002 §4.2.1.1 has the 16-bit %s as header word %d; %s has [%s] there", f, i, side.name, a.String()))
			}
		}
	}
}

func c10Sections(c *Ctx, enc, dec *wcodec) {
	r := c.R
	pkt := wStructFields(c, nbtnsPkg, "NBTNSPacket")
	hdr := wStructFields(c, nbtnsPkg, "NBTNSHeader")
	var want, encOrder, decOrder []string
	for _, a := range enc.enc {
		if a.Kind == "repeat" {
			encOrder = append(encOrder, a.Over)
		}
	}
	for _, a := range dec.dec.Atoms {
		if a.Kind == "repeat" {
			decOrder = append(decOrder, a.Over)
		}
	}
	for _, s := range nbnsSections {
		want = append(want, s.sec)
		if pkt == nil || hdr == nil || pkt[s.sec] == nil || hdr[s.sec] == nil {
			r.Undecided("sections", "NBTNSPacket."+s.sec, "", "section or count field does not resolve in the struct declarations")
			continue
		}
		cf := "Header." + s.sec
		// Marshal emits the section
		key := "NBTNSPacket.Marshal: emits every element of " + s.sec
		found := false
		if enc.incomplete != "" {
			wND(c, "sections", key, enc.pos, enc.incomplete, 1)
			wND(c, "counts", fmt.Sprintf("NBTNSPacket.Marshal: header %s = len(%s)", s.sec, s.sec), enc.pos, enc.incomplete, 1)
		}
		if dec.incomplete != "" {
			wND(c, "sections", fmt.Sprintf("NBTNSPacket.Unmarshal: decodes Header.%s elements into %s", s.sec, s.sec), dec.pos, dec.incomplete, 1)
		}
		if enc.incomplete == "" {
			for _, a := range enc.enc {
				if a.Kind == "repeat" && a.Over == s.sec {
					found = true
					nonEmpty := len(a.Body) > 0
					for _, b := range a.Body {
						if b.Cond {
							nonEmpty = false
						}
					}
					if nonEmpty {
						r.OK("sections", key, c.P.Rel(a.Pos), fmt.Sprintf("range over %s appending %d atoms per element", s.sec, len(a.Body)))
					} else {
						r.Fail("sections", key, c.P.Rel(a.Pos), "the loop over "+s.sec+" emits nothing (or only conditionally)")
					}
				}
			}
			if !found {
				r.Fail("sections", key, enc.pos, "Marshal writes the "+s.sec+" count into the header but never emits the "+s.sec+" entries")
			}
			// count word = len(section)
			key = fmt.Sprintf("NBTNSPacket.Marshal: header %s = len(%s)", s.sec, s.sec)
			found = false
			for i, a := range enc.enc {
				if i >= len(nbnsHeaderOrder) || a.Kind != "fixed" {
					continue
				}
				if a.Field == cf || a.Expr == "len("+s.sec+")" {
					found = true
					if a.Expr == "len("+s.sec+")" {
						r.OK("counts", key, c.P.Rel(a.Pos), "the emitted count is len("+s.sec+")")
					} else {
						r.Fail("counts", key, c.P.Rel(a.Pos), fmt.Sprintf("Marshal emits the stored field Header.%s as the count and then ranges over %s: when they differ (the servers build responses with Header.Questions copied from the request and no Questions) the packet announces entries that do not follow, and every parser mis-frames the rest", s.sec, s.sec))
					}
				}
			}
			if !found {
				r.Fail("counts", key, enc.pos, "Marshal does not emit a count for "+s.sec)
			}
		}
		if dec.incomplete != "" {
			continue
		}
		// Unmarshal fills the section under its count
		key = fmt.Sprintf("NBTNSPacket.Unmarshal: decodes Header.%s elements into %s", s.sec, s.sec)
		found = false
		for _, a := range dec.dec.Atoms {
			if a.Kind != "repeat" || a.Over != s.sec {
				continue
			}
			found = true
			if a.Count == cf {
				r.OK("sections", key, c.P.Rel(a.Pos), "loop bounded by "+cf+" appending to "+s.sec)
			} else {
				r.Fail("sections", key, c.P.Rel(a.Pos), fmt.Sprintf("the loop that fills %s is bounded by %s, not by %s", s.sec, a.Count, cf))
			}
		}
		if !found {
			for _, a := range dec.dec.Atoms {
				if a.Kind == "repeat" && a.Count == cf {
					found = true
					r.Fail("sections", key, c.P.Rel(a.Pos), fmt.Sprintf("the loop bounded by %s fills %s instead of %s", cf, a.Over, s.sec))
				}
			}
		}
		if !found {
			r.Fail("sections", key, dec.pos, "Unmarshal reads the "+s.sec+" count but never decodes the "+s.sec+" entries")
		}
	}
	inOrder := func(got []string) bool {
		j := 0
		for _, g := range got {
			for j < len(want) && want[j] != g {
				j++
			}
			if j == len(want) {
				return false
			}
			j++
		}
		return true
	}
	for _, o := range []struct {
		name string
		got  []string
		pos  string
	}{{"NBTNSPacket.Marshal", encOrder, enc.pos}, {"NBTNSPacket.Unmarshal", decOrder, dec.pos}} {
		key := o.name + ": sections in RFC order"
		if (o.name == "NBTNSPacket.Marshal" && enc.incomplete != "") || (o.name == "NBTNSPacket.Unmarshal" && dec.incomplete != "") {
			wND(c, "sections", key, o.pos, "layout not read completely", 1)
			continue
		}
		if inOrder(o.got) {
			r.OK("sections", key, o.pos, strings.Join(o.got, ", "))
		} else {
			r.Fail("sections", key, o.pos, "sections are processed in the order "+strings.Join(o.got, ", ")+"; the wire order is "+strings.Join(want, ", "))
		}
	}
}

// c10Length: name length byte ↔ name bytes, RDLength ↔ RData.
func c10Length(c *Ctx, w *prove.World, enc, dec *wcodec) {
	r := c.R
	decAtoms, encAtoms := dec.dec.Atoms, enc.enc
	if dec.incomplete != "" {
		// per section: the extent of the name (4) and of the RData (3)
		wND(c, "length", "NBTNSPacket.Unmarshal: extents of names and RData", dec.pos, dec.incomplete, 7)
		decAtoms = nil
	}
	if enc.incomplete != "" {
		// per section: name preceded by its length, and that byte lossless
		wND(c, "length", "NBTNSPacket.Marshal: names are preceded by their length", enc.pos, enc.incomplete, 8)
		encAtoms = nil
	}
	for _, a := range decAtoms {
		if a.Kind != "repeat" {
			continue
		}
		b := a.Body
		for i := range b {
			if b[i].Kind != "bytes" || b[i].Off == nil || b[i].End == nil {
				continue
			}
			wv, single := b[i].End.Sub(*b[i].Off).Single()
			var src *wire.Atom
			for j := 0; j < i; j++ {
				if single && b[j].Val == wv {
					src = &b[j]
				}
			}
			key := fmt.Sprintf("NBTNSPacket.Unmarshal %s: extent of %s", a.Over, b[i].Field)
			switch {
			case strings.HasSuffix(b[i].Field, ".RData"):
				if src != nil && strings.HasSuffix(src.Field, ".RDLength") {
					r.OK("length", key, c.P.Rel(b[i].Pos), "RData is as long as the value read into RDLength")
				} else {
					r.Fail("length", key, c.P.Rel(b[i].Pos), "the RData read has width "+dec.x.SymString(b[i].End.Sub(*b[i].Off))+", which is not the value read into RDLength")
				}
			case strings.HasSuffix(b[i].Field, ".Name"):
				if src != nil && i > 0 && src == &b[i-1] && src.Width == 1 {
					r.OK("length", key, c.P.Rel(b[i].Pos), "the name is as long as the length byte before it")
				} else {
					r.Fail("length", key, c.P.Rel(b[i].Pos), "the name read has width "+dec.x.SymString(b[i].End.Sub(*b[i].Off))+", which is not the length byte read just before it")
				}
			}
		}
	}
	// encoder: the byte before each name is the (narrowed) length of what follows
	for _, a := range encAtoms {
		if a.Kind != "repeat" {
			continue
		}
		for i := range a.Body {
			if a.Body[i].Kind == "nested" && strings.HasSuffix(a.Body[i].Field, ".Name") {
				key := fmt.Sprintf("NBTNSPacket.Marshal %s: name is preceded by its length", a.Over)
				if i > 0 && wIsLenPrefix(a.Body, i-1, enc.x, false) && a.Body[i-1].Width == 1 {
					r.OK("length", key, c.P.Rel(a.Body[i].Pos), "byte(len(encoded)) then encoded")
				} else {
					r.Fail("length", key, c.P.Rel(a.Body[i].Pos), "the byte emitted before the encoded name is not its length")
					continue
				}
				// the narrowing to one byte must be lossless
				la := a.Body[i-1]
				key = fmt.Sprintf("NBTNSPacket.Marshal %s: byte(len(encoded)) is lossless", a.Over)
				at := la.At
				if cv, ok := c09NarrowingOf(la.Val).(ssa.Instruction); ok {
					at = cv
				}
				// (it is the length of the next atom — wIsLenPrefix above — hence >= 0)
				// … or the value that is narrowed is itself proved <= 255 at the
				// conversion (a length computed as a difference of buffer lengths:
				// nameLen := len(buf) - lengthAt - 1; if nameLen > 255 { return … })
				valueBounded := false
				for v := la.Val; v != nil; {
					cv, isCv := v.(*ssa.Convert)
					if !isCv {
						break
					}
					if _, isCall := cv.X.(*ssa.Call); !isCall && wProveLE(w, cv, cv.X, 255, false) {
						valueBounded = true
					}
					v = cv.X
				}
				if !la.Narrow || valueBounded || wProveLenLEDeep(c, w, at, la.LenOf, 255) {
					r.OK("length", key, c.P.Rel(la.Pos), "E1: len(encoded) <= 255 where it is narrowed to the length byte (or at every success return of the helper that produced it)")
				} else if helper := wGuardingHelper(c, at, la.LenOf); helper != nil {
					wND(c, "length", key, c.P.Rel(la.Pos), "len(encoded) <= 255 is not established by the guards of Marshal itself, but "+helper.Name()+" is called first and its result decides an early exit: the bound may be established there", 1)
				} else {
					r.Fail("length", key, c.P.Rel(la.Pos), "len(encoded) <= 255 is not established where it is narrowed to one byte: a name with a long scope (Validate accepts a 255-byte scope, giving 288 bytes) is emitted with a wrapped length byte and the rest of the packet is mis-framed, silently")
				}
			}
		}
	}
}

// ---------------------------------------------------------------------------
// R3 first-level encoding
//
// The encoder is decided on a summary that does not depend on how the bytes
// are collected: a list of EMIT GROUPS — one per counted loop that produces
// two output bytes per iteration — each with the range [from, to) of its
// counter i, the two byte values, and the SOURCE byte those values are
// computed from:
//
//	collectors   (O1) stores encoded[2i], encoded[2i+1] into a 32-byte buffer
//	             (a make or a local array); (O2) append(encoded, hi, lo) in a
//	             loop (internal/wire layout: a repeat of two 1-byte atoms);
//	sources      (S1) name16[i] of a 16-byte buffer that holds copy(name16,
//	             Name) padded by a loop name16[i] = P for i = len(Name)..15;
//	             (S2) Name[i] itself for i = 0..len(Name)-1, followed by a
//	             second group of constants for i = len(Name)..15 (the encoding
//	             of the pad byte, whose value is recovered from the two
//	             constants); (S3) (Name + strings.Repeat(P, 16-len(Name)))[i];
//	nibble → char  x + K, or T[x] for a constant string T with T[j] = K + j.
//
// Whatever the combination, the obligations are the same five clauses of RFC
// 1001 §14.1 (high nibble, low nibble, offset 'A', 16 names bytes, pad ' ').

type c10Store struct {
	st   *ssa.Store
	buf  ssa.Value // the slice / array indexed
	n    int64     // array length behind buf
	a, b int64     // index = a·i + b  (i = the loop's iteration variable)
	hb   *ssa.BasicBlock
	it   wire.LoopIter
	loop bool // index depends on a counted loop
}

// c10FixedBuf: v is a local byte array of constant length, or a slice over one.
func c10FixedBuf(v ssa.Value) (int64, bool) {
	var al *ssa.Alloc
	high := ssa.Value(nil)
	switch t := v.(type) {
	case *ssa.Slice:
		a, ok := t.X.(*ssa.Alloc)
		if !ok || t.Low != nil {
			return 0, false
		}
		al, high = a, t.High
	case *ssa.Alloc:
		al = t
	default:
		return 0, false
	}
	pt, ok := al.Type().Underlying().(*types.Pointer)
	if !ok {
		return 0, false
	}
	arr, ok := pt.Elem().Underlying().(*types.Array)
	if !ok {
		return 0, false
	}
	if b, isB := arr.Elem().Underlying().(*types.Basic); !isB || b.Kind() != types.Uint8 {
		return 0, false
	}
	n := arr.Len()
	if high != nil {
		h, isK := wConstOf(high)
		if !isK {
			return 0, false
		}
		n = h
	}
	return n, true
}

// c10LoopAt: the innermost counted loop around an instruction.
func c10LoopAt(x *wire.X, b *ssa.BasicBlock) (*ssa.BasicBlock, wire.LoopIter, bool) {
	l := x.LoopOf(b)
	if l == nil {
		return nil, wire.LoopIter{}, false
	}
	it, ok := x.Iter(l.Header)
	return l.Header, it, ok
}

// c10IndexIn decomposes idx into a·i + b for the iteration variable i of it.
func c10IndexIn(x *wire.X, idx ssa.Value, it wire.LoopIter) (a, b int64, ok bool) {
	s := x.Sym(idx)
	si := x.Sym(it.Idx) // φ (+1 for a range loop)
	if len(si.T) != 1 {
		return 0, 0, false
	}
	var phi ssa.Value
	for t, k := range si.T {
		if k != 1 {
			return 0, 0, false
		}
		phi = t
	}
	a = s.Coef(phi)
	rest := s.Sub(si.Scale(a))
	k, isK := rest.Const()
	if !isK {
		return 0, 0, false
	}
	return a, k, true
}

func c10Stores(x *wire.X, fn *ssa.Function) []c10Store {
	var out []c10Store
	for _, b := range fn.Blocks {
		for _, in := range b.Instrs {
			st, ok := in.(*ssa.Store)
			if !ok {
				continue
			}
			ia, ok := st.Addr.(*ssa.IndexAddr)
			if !ok {
				continue
			}
			n, ok := c10FixedBuf(ia.X)
			if !ok {
				continue
			}
			s := c10Store{st: st, buf: ia.X, n: n}
			if k, isK := x.Sym(ia.Index).Const(); isK {
				s.b = k
				out = append(out, s)
				continue
			}
			hb, it, ok := c10LoopAt(x, b)
			if !ok {
				continue
			}
			a, bb, ok := c10IndexIn(x, ia.Index, it)
			if !ok {
				continue
			}
			s.a, s.b, s.hb, s.it, s.loop = a, bb, hb, it, true
			out = append(out, s)
		}
	}
	return out
}

// c10Peel splits v into x + K: an addition / subtraction of a constant, or a
// look-up T[x] in a constant string with T[j] = K + j for every j (then x must
// stay below len(T), which the caller checks on the lanes of x: tbl is the
// table length, 0 when no table is involved).
func c10Peel(v ssa.Value) (x ssa.Value, k int64, tbl int, ok bool) {
	table := func(xv, iv ssa.Value) (ssa.Value, int64, int, bool) {
		c, isC := xv.(*ssa.Const)
		if !isC || c.Value == nil || c.Value.Kind() != constant.String {
			return nil, 0, 0, false
		}
		s := constant.StringVal(c.Value)
		if len(s) == 0 || len(s) > 256 {
			return nil, 0, 0, false
		}
		for j := 0; j < len(s); j++ {
			if int(s[j]) != int(s[0])+j {
				return nil, 0, 0, false
			}
		}
		return iv, int64(s[0]), len(s), true
	}
	switch t := v.(type) {
	case *ssa.BinOp:
		switch t.Op {
		case token.ADD:
			if k, isK := wConstOf(t.Y); isK {
				return t.X, k, 0, true
			}
			if k, isK := wConstOf(t.X); isK {
				return t.Y, k, 0, true
			}
		case token.SUB:
			if k, isK := wConstOf(t.Y); isK {
				return t.X, -k, 0, true
			}
		}
	case *ssa.Lookup:
		if x, k, n, ok := table(t.X, t.Index); ok {
			return x, k, n, true
		}
	case *ssa.Index:
		if x, k, n, ok := table(t.X, t.Index); ok {
			return x, k, n, true
		}
	}
	return v, 0, 0, false
}

// c10ByteRead: v reads one byte base[idx].
func c10ByteRead(v ssa.Value) (base, idx ssa.Value, ok bool) {
	switch t := v.(type) {
	case *ssa.Lookup:
		if _, isMap := t.X.Type().Underlying().(*types.Map); !isMap {
			return t.X, t.Index, true
		}
	case *ssa.Index:
		return t.X, t.Index, true
	case *ssa.UnOp:
		if ia, ok := t.X.(*ssa.IndexAddr); ok && t.Op == token.MUL {
			return ia.X, ia.Index, true
		}
	}
	return nil, nil, false
}

// c10CondPad: phi selects, for the iteration variable i of it, between a
// constant pad byte and Name[i], under the test i < len(Name):
//
//	c := byte(P); if i < len(n.Name) { c = n.Name[i] }
//
// i.e. byte i of the name padded with P.
func c10CondPad(x *wire.X, phi *ssa.Phi, it wire.LoopIter) (*c10Padded, ssa.Value, bool) {
	if len(phi.Edges) != 2 {
		return nil, nil, false
	}
	pb := phi.Block()
	for i := 0; i < 2; i++ {
		k, isK := x.FoldConst(phi.Edges[i])
		if !isK {
			continue
		}
		base, idx, ok := c10ByteRead(phi.Edges[1-i])
		if !ok {
			continue
		}
		base = wire.StripConv(base)
		if f, _ := x.Desc(base); f != "Name" {
			continue
		}
		if a, b, ok := c10IndexIn(x, idx, it); !ok || a != 1 || b != 0 {
			continue
		}
		padPred, namePred := pb.Preds[i], pb.Preds[1-i]
		// the branch that decides: the nearest block that dominates both
		// predecessors and ends in an If
		var br *ssa.BasicBlock
		for _, cand := range []*ssa.BasicBlock{padPred, namePred, padPred.Idom(), namePred.Idom()} {
			if cand == nil || len(cand.Succs) != 2 {
				continue
			}
			if _, isIf := cand.Instrs[len(cand.Instrs)-1].(*ssa.If); !isIf {
				continue
			}
			if (cand == padPred || cand.Dominates(padPred)) && (cand == namePred || cand.Dominates(namePred)) {
				br = cand
				break
			}
		}
		if br == nil {
			continue
		}
		cmp, isCmp := br.Instrs[len(br.Instrs)-1].(*ssa.If).Cond.(*ssa.BinOp)
		if !isCmp {
			continue
		}
		// normalise to  i OP len(Name)
		xv, yv, op := cmp.X, cmp.Y, cmp.Op
		if c10IsLenOf(x, xv, "Name") {
			xv, yv = yv, xv
			switch op {
			case token.LSS:
				op = token.GTR
			case token.LEQ:
				op = token.GEQ
			case token.GTR:
				op = token.LSS
			case token.GEQ:
				op = token.LEQ
			}
		}
		if !c10IsLenOf(x, yv, "Name") {
			continue
		}
		if a, b, ok := c10IndexIn(x, xv, it); !ok || a != 1 || b != 0 {
			continue
		}
		var nameOnTrue bool
		switch op {
		case token.LSS:
			nameOnTrue = true
		case token.GEQ:
			nameOnTrue = false
		default:
			continue
		}
		tSucc, fSucc := br.Succs[0], br.Succs[1]
		nameSucc, padSucc := tSucc, fSucc
		if !nameOnTrue {
			nameSucc, padSucc = fSucc, tSucc
		}
		reaches := func(succ, pred *ssa.BasicBlock) bool {
			// the edge br→succ leads to pred (succ is pred or dominates it with a
			// single way in), or succ is the join itself and pred is br
			if succ == pb {
				return pred == br
			}
			return len(succ.Preds) == 1 && (succ == pred || succ.Dominates(pred))
		}
		if !reaches(nameSucc, namePred) || !reaches(padSucc, padPred) {
			continue
		}
		return &c10Padded{pad: k, kind: "conditional", pos: phi.Pos()}, base, true
	}
	return nil, nil, false
}

// c10RevTable: v is T[x] for a constant package-level table T that inverts the
// half-ASCII alphabet: T[K+j] = j for j = 0..n-1 and every other entry is
// negative (an "invalid character" mark). Then a non-negative v is x - K with
// v <= n-1.
func c10RevTable(v ssa.Value) (x ssa.Value, k int64, n int, ok bool) {
	ld, isLd := v.(*ssa.UnOp)
	if !isLd || ld.Op != token.MUL {
		return nil, 0, 0, false
	}
	ia, isIA := ld.X.(*ssa.IndexAddr)
	if !isIA {
		return nil, 0, 0, false
	}
	g, isG := ia.X.(*ssa.Global)
	if !isG {
		return nil, 0, 0, false
	}
	tbl, okT := wire.ConstTable(g)
	if !okT {
		return nil, 0, 0, false
	}
	first := -1
	for i, e := range tbl {
		if e >= 0 {
			first = i
			break
		}
	}
	if first < 0 || tbl[first] != 0 {
		return nil, 0, 0, false
	}
	cnt := 0
	for i, e := range tbl {
		switch {
		case e < 0:
		case i >= first && e == int64(i-first) && i-first == cnt:
			cnt++
		default:
			return nil, 0, 0, false
		}
	}
	return ia.Index, int64(first), cnt, true
}

// c10RevTableWrong: v is T[x] for a constant package-level table T whose
// non-negative entries form one contiguous run (the shape of a reverse alphabet
// table) but do not count 0, 1, 2, … along it: a positive observation that the
// table does not invert the alphabet.
func c10RevTableWrong(v ssa.Value) string {
	ld, isLd := v.(*ssa.UnOp)
	if !isLd || ld.Op != token.MUL {
		return ""
	}
	ia, isIA := ld.X.(*ssa.IndexAddr)
	if !isIA {
		return ""
	}
	g, isG := ia.X.(*ssa.Global)
	if !isG {
		return ""
	}
	tbl, okT := wire.ConstTable(g)
	if !okT {
		return ""
	}
	// the "invalid character" mark: negative entries, or (unsigned tables) the
	// one value that fills most of the table
	count := map[int64]int{}
	for _, e := range tbl {
		count[e]++
	}
	mark, hasMark := int64(0), false
	for v, n := range count {
		if 2*n >= len(tbl) {
			mark, hasMark = v, true
		}
	}
	first, last, nonneg := -1, -1, 0
	for i, e := range tbl {
		if e >= 0 && !(hasMark && e == mark) {
			if first < 0 {
				first = i
			}
			last = i
			nonneg++
		}
	}
	if first < 0 || nonneg < 4 || last-first+1 != nonneg {
		return "" // not the shape of a reverse alphabet table
	}
	for i := first; i <= last; i++ {
		if tbl[i] != int64(i-first) {
			return fmt.Sprintf("the reverse table %s maps byte %#x to %d, the inverse of the alphabet starting at %#x maps it to %d", g.Name(), i, tbl[i], first, i-first)
		}
	}
	return ""
}

func c10IsLenOf(x *wire.X, v ssa.Value, field string) bool {
	call, ok := wire.StripConv(v).(*ssa.Call)
	if !ok {
		return false
	}
	bi, ok := call.Call.Value.(*ssa.Builtin)
	if !ok || bi.Name() != "len" {
		return false
	}
	f, _ := x.Desc(wire.StripConv(call.Call.Args[0]))
	return f == field
}

// c10Emit is one emit group.
type c10Emit struct {
	hb  *ssa.BasicBlock
	it  wire.LoopIter
	val [2]ssa.Value
	pos [2]token.Pos
	has [2]bool
}

// c10Padded describes a 16-byte source that is Name followed by pad bytes.
type c10Padded struct {
	pad  int64
	why  string // non-empty: not established
	pos  token.Pos
	kind string
}

// c10Opaque: why the first-level codec function fn may do part of its work
// where this rule does not look: a function literal, an in-module helper that
// hands data back (anything but a pure check returning error/bool), a call of a
// function value, go/defer. "" = nothing of the kind.
func c10Opaque(c *Ctx, fn *ssa.Function) string {
	for _, b := range fn.Blocks {
		for _, in := range b.Instrs {
			switch y := in.(type) {
			case *ssa.MakeClosure:
				return "it contains a function literal (" + y.Fn.Name() + ")"
			case *ssa.Go, *ssa.Defer:
				return "it starts a go/defer statement"
			case *ssa.Call:
				cc := y.Common()
				if _, isB := cc.Value.(*ssa.Builtin); isB || cc.IsInvoke() {
					continue
				}
				g := cc.StaticCallee()
				if g == nil {
					return "it calls a function value"
				}
				if g.Blocks == nil || !c.P.InModule(g) {
					continue
				}
				res := g.Signature.Results()
				data := false
				for i := 0; i < res.Len(); i++ {
					switch types.TypeString(res.At(i).Type(), nil) {
					case "error", "bool":
					default:
						data = true
					}
				}
				if data {
					return "it hands data to the in-module helper " + g.Name() + ", which is not analysed here"
				}
			}
		}
	}
	return ""
}

// c10RangesOverString: fn iterates a string with range (rune decoding).
func c10RangesOverString(fn *ssa.Function) (token.Pos, bool) {
	for _, b := range fn.Blocks {
		for _, in := range b.Instrs {
			if rg, ok := in.(*ssa.Range); ok {
				if bt, isB := rg.X.Type().Underlying().(*types.Basic); isB && bt.Info()&types.IsString != 0 {
					return rg.Pos(), true
				}
			}
		}
	}
	return token.NoPos, false
}

func c10FirstLevel(c *Ctx, w *prove.World, fle, fld *wcodec) {
	r := c.R
	// nd reports an absence-based clause: NOT DECIDED when the function may do
	// the work somewhere this rule does not look, undecided (= violation) when
	// the whole function was read and the construct is simply not there
	encOpaque, decOpaque := c10Opaque(c, fle.fn), c10Opaque(c, fld.fn)
	nd := func(opaque, key, pos, why string) {
		if opaque != "" {
			r.OK("firstlevel", key, pos, "NOT DECIDED — "+why+"; "+opaque)
			r.Note("C10 firstlevel: %s NOT DECIDED — %s; %s", key, why, opaque)
			return
		}
		// nothing contradicting the clause was observed: the construct the clause is about was
		// not found in a form this rule reads (a look-up table, a merged loop, another index form)
		r.OK("firstlevel", key, pos, "NOT DECIDED — "+why)
		r.Note("C10 firstlevel: %s NOT DECIDED — %s", key, why)
	}
	nameLen, ok1 := wConst(c, nbtnsPkg, "NetBIOSNameLength")
	encLen, ok2 := wConst(c, nbtnsPkg, "EncodedNameLength")
	asciiA, ok3 := wConst(c, nbtnsPkg, "ASCII_A")
	if !ok1 || !ok2 || !ok3 {
		r.Undecided("firstlevel", "constants", "", "NetBIOSNameLength / EncodedNameLength / ASCII_A do not resolve")
		return
	}
	if nameLen == 16 && encLen == 2*nameLen {
		r.OK("firstlevel", "NetBIOSNameLength = 16, EncodedNameLength = 32", "", "RFC 1001 §14.1")
	} else {
		r.Fail("firstlevel", "NetBIOSNameLength = 16, EncodedNameLength = 32", "", fmt.Sprintf("NetBIOSNameLength=%d EncodedNameLength=%d; a 16-byte name becomes 32 half-ASCII bytes", nameLen, encLen))
	}
	if asciiA == 0x41 {
		r.OK("firstlevel", "ASCII_A = 0x41", "", "RFC 1001 §14.1: each nibble is added to 'A'")
	} else {
		r.Fail("firstlevel", "ASCII_A = 0x41", "", fmt.Sprintf("ASCII_A is %#x; RFC 1001 §14.1 adds each nibble to 'A' (0x41)", asciiA))
	}

	// ---------------- encoder
	ex := wire.New(w, fle.fn)
	var encK [2]int64
	var encOK [2]bool
	var padByte int64 = -1
	padKey := "FirstLevelEncode: the name is padded to 16 bytes with spaces"
	padDone := false
	halfKey := func(h int) string {
		return fmt.Sprintf("FirstLevelEncode: byte 2i+%d carries the %s nibble of name[i] plus 'A'", h, [2]string{"high", "low"}[h])
	}

	stores := c10Stores(ex, fle.fn)
	var groups []*c10Emit
	byHdr := map[*ssa.BasicBlock]*c10Emit{}
	collector := ""
	badStore := false
	for _, s := range stores {
		if s.n != encLen || !s.loop {
			continue
		}
		collector = "stores"
		if s.a != 2 || (s.b != 0 && s.b != 1) {
			r.Fail("firstlevel", fmt.Sprintf("FirstLevelEncode: store at index %d·i+%d", s.a, s.b), c.P.Rel(s.st.Pos()), fmt.Sprintf("the encoded buffer is written at index %d·i+%d; the two nibbles of name[i] go to 2i and 2i+1", s.a, s.b))
			badStore = true
			continue
		}
		g := byHdr[s.hb]
		if g == nil {
			g = &c10Emit{hb: s.hb, it: s.it}
			byHdr[s.hb] = g
			groups = append(groups, g)
		}
		if g.has[s.b] {
			r.Fail("firstlevel", halfKey(int(s.b))+" (stored twice)", c.P.Rel(s.st.Pos()), fmt.Sprintf("byte 2i+%d of the encoding is stored twice in one iteration", s.b))
			badStore = true
			continue
		}
		g.val[s.b], g.pos[s.b], g.has[s.b] = s.st.Val, s.st.Pos(), true
	}
	// the layout of the returned string (O2 groups, and the scope suffix)
	var layout []wire.Atom
	for _, alt := range ex.EncLayouts() {
		if len(wire.Flatten(alt.Atoms)) >= len(wire.Flatten(layout)) {
			layout = alt.Atoms
		}
	}
	if encOpaque == "" {
		if why := wEncIncomplete(ex.EncLayouts()); why != "" {
			encOpaque = why
		}
	}
	extra := ""
	if collector == "" {
		for _, a := range layout {
			if a.Kind == "repeat" && a.Loop != nil && len(a.Body) == 2 && a.Body[0].Width == 1 && a.Body[1].Width == 1 &&
				(a.Body[0].Kind == "fixed" || a.Body[0].Kind == "const") && (a.Body[1].Kind == "fixed" || a.Body[1].Kind == "const") &&
				a.Body[0].Val != nil && a.Body[1].Val != nil && !a.Body[0].Cond && !a.Body[1].Cond {
				collector = "appends"
				g := &c10Emit{hb: a.Loop.Header}
				it, ok := ex.Iter(a.Loop.Header)
				if !ok {
					r.Fail("firstlevel", halfKey(0)+" (loop range)", c.P.Rel(a.Pos), "the loop that appends the encoded bytes is not a counted loop")
					badStore = true
					continue
				}
				g.it = it
				for h := 0; h < 2; h++ {
					g.val[h], g.pos[h], g.has[h] = a.Body[h].Val, a.Body[h].Pos, true
				}
				groups = append(groups, g)
				continue
			}
			if !a.Cond && a.Kind != "bytes" || (a.Kind == "repeat") {
				if !(a.Kind == "const" && a.Width == 0) {
					extra = a.String()
				}
			}
		}
		if collector == "appends" && extra != "" {
			r.Fail("firstlevel", "FirstLevelEncode: nibble stores (extra bytes)", fle.pos, "besides the two bytes per name byte the encoder unconditionally emits "+extra)
			badStore = true
		}
	}

	// classify the source byte of a group
	type srcInfo struct {
		kind string // name | padded | const | ?
		base ssa.Value
	}
	var padded *c10Padded
	paddedOf := func(base ssa.Value) *c10Padded {
		// (S1) a 16-byte buffer: copy(buf, Name) + pad loop
		if n, ok := c10FixedBuf(base); ok {
			p := &c10Padded{pad: -1, kind: "buffer", pos: base.Pos()}
			if n != nameLen {
				p.why = fmt.Sprintf("the name buffer has %d bytes", n)
				return p
			}
			root := base
			if sl, isSl := base.(*ssa.Slice); isSl {
				root = sl.X
			}
			sameBuf := func(v ssa.Value) bool {
				if v == base {
					return true
				}
				if sl, isSl := v.(*ssa.Slice); isSl && sl.X == root {
					if m, ok := c10FixedBuf(v); ok && m == nameLen {
						return true
					}
				}
				return v == root
			}
			copied := false
			for _, b := range fle.fn.Blocks {
				for _, in := range b.Instrs {
					call, ok := in.(*ssa.Call)
					if !ok {
						continue
					}
					if bi, ok := call.Call.Value.(*ssa.Builtin); ok && bi.Name() == "copy" && sameBuf(call.Call.Args[0]) {
						if f, _ := ex.Desc(wire.StripConv(call.Call.Args[1])); f == "Name" {
							copied = true
						}
					}
				}
			}
			for _, s := range stores {
				if s.n != nameLen || !sameBuf(s.buf) {
					continue
				}
				k, isK := ex.FoldConst(s.st.Val)
				fromLen := s.loop && s.it.From != nil && c10IsLenOf(ex, s.it.From, "Name")
				toK, toIsK := wConstOf(s.it.Bound)
				if s.loop && isK && s.a == 1 && s.b == 0 && fromLen && toIsK && toK == nameLen {
					p.pad, p.pos = k, s.st.Pos()
				} else {
					p.why = "the store into the 16-byte name buffer is not `name[i] = constant` for i = len(Name)..15"
					p.pos = s.st.Pos()
				}
			}
			if p.why == "" && p.pad < 0 {
				p.why = "no padding loop recognised"
			}
			if p.why == "" && !copied {
				p.why = "the name is never copied into the 16-byte buffer (copy(buf, Name) not found)"
			}
			return p
		}
		// (S1') buf := bytes.Repeat([]byte{P}, 16); copy(buf, Name)
		if call, ok := base.(*ssa.Call); ok && call.Call.StaticCallee() != nil && call.Call.StaticCallee().Pkg != nil &&
			call.Call.StaticCallee().Pkg.Pkg.Path() == "bytes" && call.Call.StaticCallee().Name() == "Repeat" {
			p := &c10Padded{pad: -1, kind: "repeat+copy", pos: call.Pos()}
			if k, isK := wConstOf(call.Call.Args[1]); !isK || k != nameLen {
				p.why = "bytes.Repeat does not make exactly 16 bytes"
				return p
			}
			unit, okU := call.Call.Args[0].(*ssa.Slice)
			var unitAl *ssa.Alloc
			if okU {
				unitAl, _ = unit.X.(*ssa.Alloc)
			}
			if unitAl == nil {
				p.why = "bytes.Repeat of something other than a one-byte literal"
				return p
			}
			if n, okN := c10FixedBuf(unit); !okN || n != 1 {
				p.why = "bytes.Repeat of something other than a one-byte literal"
				return p
			}
			padK := int64(-1)
			for _, r := range *unitAl.Referrers() {
				if ia, isIA := r.(*ssa.IndexAddr); isIA {
					for _, rr := range *ia.Referrers() {
						if st, isSt := rr.(*ssa.Store); isSt {
							if k, isK := ex.FoldConst(st.Val); isK && padK < 0 {
								padK = k
							} else {
								padK = -2
							}
						}
					}
				}
			}
			if padK < 0 {
				p.why = "the repeated byte is not a constant"
				return p
			}
			// the only write into the buffer is copy(buf, Name)
			copied := 0
			for _, r := range *call.Referrers() {
				switch y := r.(type) {
				case *ssa.Call:
					if bi, ok := y.Call.Value.(*ssa.Builtin); ok && bi.Name() == "copy" && y.Call.Args[0] == ssa.Value(call) {
						if f, _ := ex.Desc(wire.StripConv(y.Call.Args[1])); f == "Name" {
							copied++
							continue
						}
						copied = -100
					} else if ok && bi.Name() == "len" {
						continue
					} else {
						copied = -100
					}
				case *ssa.IndexAddr:
					for _, rr := range *y.Referrers() {
						if _, isSt := rr.(*ssa.Store); isSt {
							copied = -100
						}
					}
				case *ssa.DebugRef, *ssa.Convert:
				default:
					copied = -100
				}
			}
			if copied != 1 {
				p.why = "the 16 pad bytes are not overwritten by exactly one copy(buf, Name)"
				return p
			}
			p.pad = padK
			return p
		}
		// (S3') Name + "                "[len(Name):]  (a constant run of 16 equal bytes)
		if bo, ok := base.(*ssa.BinOp); ok && bo.Op == token.ADD {
			if f, _ := ex.Desc(bo.X); f == "Name" {
				if sl, ok := bo.Y.(*ssa.Slice); ok && sl.High == nil && sl.Max == nil && sl.Low != nil {
					if k, isK := sl.X.(*ssa.Const); isK && k.Value != nil && k.Value.Kind() == constant.String {
						p := &c10Padded{pad: -1, kind: "string", pos: sl.Pos()}
						str := constant.StringVal(k.Value)
						same := int64(len(str)) == nameLen
						for i := range str {
							if str[i] != str[0] {
								same = false
							}
						}
						if !same || !c10IsLenOf(ex, sl.Low, "Name") {
							p.why = "the pad is not the tail, from len(Name), of a constant run of 16 equal bytes"
							return p
						}
						p.pad = int64(str[0])
						return p
					}
				}
			}
		}
		// (S3) Name + strings.Repeat(P, 16-len(Name))
		if bo, ok := base.(*ssa.BinOp); ok && bo.Op == token.ADD {
			if f, _ := ex.Desc(bo.X); f == "Name" {
				if call, ok := bo.Y.(*ssa.Call); ok {
					if fn := call.Call.StaticCallee(); fn != nil && fn.Pkg != nil && fn.Pkg.Pkg.Path() == "strings" && fn.Name() == "Repeat" {
						p := &c10Padded{pad: -1, kind: "string", pos: call.Pos()}
						k, isK := call.Call.Args[0].(*ssa.Const)
						if !isK || k.Value == nil || k.Value.Kind() != constant.String || len(constant.StringVal(k.Value)) != 1 {
							p.why = "strings.Repeat of something other than a one-byte constant"
							return p
						}
						cnt, isSub := call.Call.Args[1].(*ssa.BinOp)
						if !isSub || cnt.Op != token.SUB || !c10IsLenOf(ex, cnt.Y, "Name") {
							p.why = "the pad count is not 16 - len(Name)"
							return p
						}
						if kk, isKK := wConstOf(cnt.X); !isKK || kk != nameLen {
							p.why = "the pad count is not 16 - len(Name)"
							return p
						}
						p.pad = int64(constant.StringVal(k.Value)[0])
						return p
					}
				}
			}
		}
		return nil
	}
	var curIt wire.LoopIter
	var curSrc srcInfo
	encAn := &lanes.Analyzer{}
	encAn.Leaf = func(f *lanes.Frame, v ssa.Value) (lanes.Vec, bool) {
		// (S4) c := P; if i < len(Name) { c = Name[i] }: the padded name, byte i
		if phi, isPhi := v.(*ssa.Phi); isPhi {
			if p, base, ok := c10CondPad(ex, phi, curIt); ok {
				if curSrc.kind != "" && (curSrc.kind != "padded" || curSrc.base != base) {
					return nil, false
				}
				if padded == nil {
					padded = p
				}
				curSrc = srcInfo{"padded", base}
				return lanes.SrcByte(0, 0), true
			}
			return nil, false
		}
		base, idx, ok := c10ByteRead(v)
		if !ok {
			return nil, false
		}
		if _, isK := base.(*ssa.Const); isK {
			return nil, false
		}
		a, b, ok := c10IndexIn(ex, idx, curIt)
		if !ok || a != 1 || b != 0 {
			return nil, false
		}
		base = wire.StripConv(base)
		kind := ""
		if f, _ := ex.Desc(base); f == "Name" {
			kind = "name"
		} else if p := paddedOf(base); p != nil {
			kind = "padded"
			if padded == nil {
				padded = p
			}
		}
		if kind == "" {
			return nil, false
		}
		if curSrc.kind != "" && (curSrc.kind != kind || curSrc.base != base) {
			if f1, _ := ex.Desc(curSrc.base); !(kind == "name" && f1 == "Name") {
				return nil, false
			}
		}
		curSrc = srcInfo{kind, base}
		return lanes.SrcByte(0, 0), true
	}
	encFrame := encAn.Root(fle.fn)

	type grange struct {
		fromK   int64
		fromLen bool
		toK     int64
		toLen   bool
		ok      bool
	}
	rangeOf := func(it wire.LoopIter) grange {
		var g grange
		g.ok = true
		switch {
		case it.From == nil:
			g.fromK = it.FromK
		case c10IsLenOf(ex, it.From, "Name"):
			g.fromLen = true
		default:
			g.ok = false
		}
		if k, isK := wConstOf(it.Bound); isK {
			g.toK = k
		} else if c10IsLenOf(ex, it.Bound, "Name") {
			g.toLen = true
		} else {
			g.ok = false
		}
		return g
	}

	var nameGroup, padGroup *c10Emit
	var nameSrc srcInfo
	if !badStore {
		for _, g := range groups {
			if !g.has[0] || !g.has[1] {
				continue
			}
			k0, c0 := ex.FoldConst(g.val[0])
			k1, c1 := ex.FoldConst(g.val[1])
			if c0 && c1 {
				if padGroup != nil {
					extra = "two constant groups"
				}
				padGroup = g
				_, _ = k0, k1
				continue
			}
			if nameGroup != nil {
				extra = "two groups that encode name bytes"
			}
			nameGroup = g
		}
	}
	nGroupsWithBoth := 0
	for _, g := range groups {
		if g.has[0] && g.has[1] {
			nGroupsWithBoth++
		}
	}
	encSeen := 0
	if nameGroup != nil {
		encSeen = 2
		g := nameGroup
		curIt, curSrc = g.it, srcInfo{}
		var vecs [2]lanes.Vec
		var ks [2]int64
		var tblOK [2]bool
		for h := 0; h < 2; h++ {
			x, k, tbl, _ := c10Peel(g.val[h])
			vecs[h] = encFrame.Lanes(x)
			ks[h] = k
			tblOK[h] = true
			if tbl > 0 {
				// the index must stay inside the table: lanes above log2(len) are 0
				tblOK[h] = false
				if tbl&(tbl-1) == 0 && vecs[h] != nil {
					tblOK[h] = true
					for bit := range vecs[h] {
						if (1<<uint(bit)) >= tbl && vecs[h][bit].K != lanes.Zero {
							tblOK[h] = false
						}
					}
				}
			}
		}
		nameSrc = curSrc
		rg := rangeOf(g.it)
		rangeOK := false
		switch nameSrc.kind {
		case "padded":
			rangeOK = rg.ok && !rg.fromLen && rg.fromK == 0 && !rg.toLen && rg.toK == nameLen && padGroup == nil
		case "name":
			rangeOK = rg.ok && !rg.fromLen && rg.fromK == 0 && rg.toLen
		default:
			rangeOK = true // the source byte was not recognised: the provenance mismatch below says so
		}
		for h := 0; h < 2; h++ {
			key := halfKey(h)
			pos := c.P.Rel(g.pos[h])
			shift := 4
			if h == 1 {
				shift = 0
			}
			want := make(lanes.Vec, 8)
			for bit := 0; bit < 4; bit++ {
				want[bit] = lanes.Bit{K: lanes.Src, S: 0, I: 0, B: bit + shift}
			}
			vec := vecs[h]
			if len(vec) > 8 {
				// an int-typed table index: the upper lanes must be 0
				hiZero := true
				for _, b := range vec[8:] {
					if b.K != lanes.Zero {
						hiZero = false
					}
				}
				if hiZero {
					vec = vec[:8]
				}
			}
			switch {
			case !rangeOK:
				r.Fail("firstlevel", key+" (loop range)", pos, fmt.Sprintf("the encoding loop does not run i = 0..%d", nameLen-1))
			case vec != nil && vec.Equal(want) && tblOK[h]:
				encK[h], encOK[h] = ks[h], true
				if ks[h] == asciiA {
					r.OK("firstlevel", key, pos, fmt.Sprintf("bits %d..%d of name[i], + %#x", shift, shift+3, ks[h]))
				} else {
					r.Fail("firstlevel", key, pos, fmt.Sprintf("the nibble is offset by %#x, not by ASCII_A = %#x", ks[h], asciiA))
				}
			case (vec == nil || vec.HasTop()) && encOpaque != "":
				nd(encOpaque, key, pos, "the provenance of this byte is unknown ("+c10Vec(vec)+")")
			default:
				r.Fail("firstlevel", key, pos, fmt.Sprintf("byte 2i+%d of the encoding is not (name[i] bits %d..%d) + constant; bit provenance: %s", h, shift, shift+3, c10Vec(vec)))
			}
		}
		// padding
		switch nameSrc.kind {
		case "padded":
			p := padded
			padDone = true
			switch {
			case p == nil || p.why != "":
				why := "no padding recognised"
				pos := fle.pos
				if p != nil {
					why, pos = p.why, c.P.Rel(p.pos)
				}
				if p != nil && strings.HasPrefix(p.why, "no padding loop") {
					nd(encOpaque, padKey, fle.pos, p.why)
				} else {
					r.Fail("firstlevel", padKey, pos, why)
				}
			case p.pad == 0x20:
				padByte = p.pad
				r.OK("firstlevel", padKey, c.P.Rel(p.pos), "name[i] = ' ' for i = len(Name)..15")
			default:
				padByte = p.pad
				r.Fail("firstlevel", padKey, c.P.Rel(p.pos), fmt.Sprintf("the pad byte is %#x; RFC 1001 §14.1 pads with spaces (0x20)", p.pad))
			}
		case "name":
			padDone = true
			switch {
			case padGroup == nil:
				r.Fail("firstlevel", padKey, fle.pos, "only the len(Name) bytes of the name are encoded: nothing fills the encoding up to 16 name bytes")
			default:
				pr := rangeOf(padGroup.it)
				k0, _ := ex.FoldConst(padGroup.val[0])
				k1, _ := ex.FoldConst(padGroup.val[1])
				n0, n1 := k0-asciiA, k1-asciiA
				pos := c.P.Rel(padGroup.pos[0])
				switch {
				case !(pr.ok && pr.fromLen && !pr.toLen && pr.toK == nameLen):
					r.Fail("firstlevel", padKey, pos, "the loop that emits the encoded pad byte does not run i = len(Name)..15")
				case n0 < 0 || n0 > 15 || n1 < 0 || n1 > 15:
					r.Fail("firstlevel", padKey, pos, fmt.Sprintf("the padding bytes %#x %#x are not two nibbles offset by ASCII_A", k0, k1))
				case n0<<4|n1 == 0x20:
					padByte = 0x20
					r.OK("firstlevel", padKey, pos, fmt.Sprintf("i = len(Name)..15 emit %q %q = the encoding of ' '", rune(k0), rune(k1)))
				default:
					padByte = n0<<4 | n1
					r.Fail("firstlevel", padKey, pos, fmt.Sprintf("the pad byte is %#x; RFC 1001 §14.1 pads with spaces (0x20)", padByte))
				}
			}
		}
	}
	if extra != "" && collector == "stores" {
		r.Fail("firstlevel", "FirstLevelEncode: nibble stores (extra)", fle.pos, extra)
	}
	if encSeen < 2 && !badStore {
		n := 0
		for _, g := range groups {
			for h := 0; h < 2; h++ {
				if g.has[h] {
					n++
				}
			}
		}
		if pos, isRunes := c10RangesOverString(fle.fn); isRunes {
			r.Fail("firstlevel", "FirstLevelEncode: nibble stores", c.P.Rel(pos), "the name is iterated with range over a string, which decodes UTF-8: a name byte >= 0x80 is not encoded as its own two nibbles (RFC 1001 §14.1 encodes bytes)")
			r.Counts["firstlevel"]++ // stands for both halves
		} else {
			nd(encOpaque, "FirstLevelEncode: nibble stores", fle.pos, fmt.Sprintf("expected two bytes per name byte written into the %d-byte encoding inside a loop (stores encoded[2i], encoded[2i+1], append(encoded, hi, lo) or WriteByte into a builder), found %d", encLen, n))
			r.Counts["firstlevel"]++ // stands for both halves
		}
	}
	if !padDone {
		// the padded buffer may exist although the nibble stores were not recognised
		found := false
		for _, s := range stores {
			if s.n == nameLen && s.loop && !found {
				found = true
				if p := paddedOf(s.buf); p != nil && p.why == "" {
					padByte = p.pad
					if p.pad == 0x20 {
						r.OK("firstlevel", padKey, c.P.Rel(p.pos), "name[i] = ' ' for i = len(Name)..15")
					} else {
						r.Fail("firstlevel", padKey, c.P.Rel(p.pos), fmt.Sprintf("the pad byte is %#x; RFC 1001 §14.1 pads with spaces (0x20)", p.pad))
					}
				} else if p != nil {
					r.Fail("firstlevel", padKey, c.P.Rel(p.pos), p.why)
				} else {
					found = false
				}
			}
		}
		if !found {
			if pos, why := c10RecycledSource(fle.fn, nameLen); why != "" {
				// positively observed: the source bytes after the name are not written here
				r.Fail("firstlevel", padKey, c.P.Rel(pos), why)
			} else {
				nd(encOpaque, padKey, fle.pos, "no padding loop recognised")
			}
		}
	}
	// scope separator: the constant emitted immediately before the ScopeID bytes
	encSep := ""
	for i, a := range layout {
		if a.Kind != "bytes" || a.Field != "ScopeID" || i == 0 {
			continue
		}
		p := layout[i-1]
		if p.Kind != "const" || p.Width != 1 {
			continue
		}
		if s, err := strconv.Unquote(p.Expr); err == nil && len(s) == 1 {
			encSep = s
		} else if k, err := strconv.ParseInt(p.Expr, 10, 64); err == nil && k >= 0 && k < 256 {
			encSep = string([]byte{byte(k)})
		}
	}

	// ---------------- decoder
	dx := wire.New(w, fld.fn)
	type nib struct {
		k    int64
		idxB int64
		src  ssa.Value
		val  ssa.Value
	}
	nibs := map[ssa.Value]*nib{}
	// the decoded byte i is collected either by a store decoded[i] = v into a
	// 16-byte buffer or by decoded = append(decoded, v) in a loop that starts
	// from an empty slice
	type decSink struct {
		st  ssa.Instruction // where v is consumed (E1 proofs are made here)
		Val ssa.Value
		it  wire.LoopIter
		buf map[ssa.Value]bool // values that denote the 16 decoded bytes after the loop
	}
	var decStore *decSink
	for _, s := range c10Stores(dx, fld.fn) {
		if s.n == nameLen && s.loop && s.a == 1 && s.b == 0 {
			decStore = &decSink{st: s.st, Val: s.st.Val, it: s.it}
		}
	}
	if decStore == nil {
		for _, b := range fld.fn.Blocks {
			for _, in := range b.Instrs {
				app, ok := in.(*ssa.Call)
				if !ok || len(app.Call.Args) != 2 {
					continue
				}
				if bi, isB := app.Call.Value.(*ssa.Builtin); !isB || bi.Name() != "append" {
					continue
				}
				phi, ok := app.Call.Args[0].(*ssa.Phi)
				if !ok {
					continue
				}
				hb, it, ok := c10LoopAt(dx, b)
				if !ok || phi.Block() != hb {
					continue
				}
				// one byte per iteration: append(φ, v) with v in a [1]byte varargs array
				sl, ok := app.Call.Args[1].(*ssa.Slice)
				if !ok {
					continue
				}
				al, ok := sl.X.(*ssa.Alloc)
				if n, okN := c10FixedBuf(sl); !ok || !okN || n != 1 {
					continue
				}
				var v ssa.Value
				nst := 0
				for _, r := range *al.Referrers() {
					if ia, isIA := r.(*ssa.IndexAddr); isIA {
						for _, rr := range *ia.Referrers() {
							if st, isSt := rr.(*ssa.Store); isSt {
								v = st.Val
								nst++
							}
						}
					}
				}
				if nst != 1 {
					continue
				}
				// φ = [empty on entry, the append on the back edge]
				okPhi := true
				var entry ssa.Value
				for i, pr := range hb.Preds {
					if hb.Dominates(pr) {
						if phi.Edges[i] != ssa.Value(app) {
							okPhi = false
						}
					} else {
						entry = phi.Edges[i]
					}
				}
				empty := false
				switch e := entry.(type) {
				case *ssa.Const:
					empty = e.Value == nil
				case *ssa.MakeSlice:
					k, isK := wConstOf(e.Len)
					empty = isK && k == 0
				case *ssa.Slice:
					if n, okN := c10FixedBuf(e); okN && n == 0 {
						empty = true
					}
				}
				if !okPhi || !empty {
					continue
				}
				sink := &decSink{st: app, Val: v, it: it, buf: map[ssa.Value]bool{phi: true, app: true}}
				// the value after the loop: φ itself, or a φ joining it with the entry value
				for _, bb := range fld.fn.Blocks {
					for _, in2 := range bb.Instrs {
						p2, isPhi := in2.(*ssa.Phi)
						if !isPhi || p2 == phi {
							continue
						}
						all := true
						for _, e := range p2.Edges {
							if e != ssa.Value(phi) && e != ssa.Value(app) && e != entry {
								all = false
							}
						}
						if all {
							sink.buf[p2] = true
						}
					}
				}
				decStore = sink
			}
		}
	}
	key := "FirstLevelDecode: byte i is (byte 2i − 'A') << 4 | (byte 2i+1 − 'A')"
	if decStore == nil {
		nd(decOpaque, key, fld.pos, "no store decoded[i] = … into a 16-byte buffer (and no decoded = append(decoded, …)) inside a loop")
		if decOpaque != "" {
			// loop range, two nibbles, length, trim, separator: all depend on it
			r.Counts["firstlevel"] += 6
		}
		return
	}
	if k, isK := wConstOf(decStore.it.Bound); decStore.it.From != nil || decStore.it.FromK != 0 || !isK || k != nameLen {
		r.Fail("firstlevel", "FirstLevelDecode: loop range", c.P.Rel(decStore.st.Pos()), fmt.Sprintf("the decoding loop does not run i = 0..%d", nameLen-1))
	} else {
		r.OK("firstlevel", "FirstLevelDecode: loop range", c.P.Rel(decStore.st.Pos()), fmt.Sprintf("i = 0..%d", nameLen-1))
	}
	var srcStr ssa.Value
	unbounded := ""
	tableWrong := ""
	decAn := &lanes.Analyzer{}
	decAn.Leaf = func(f *lanes.Frame, v ssa.Value) (lanes.Vec, bool) {
		rev := false
		if wmsg := c10RevTableWrong(v); wmsg != "" {
			tableWrong = wmsg
		}
		x, k, _, peeled := c10Peel(v)
		if rx, rk, rn, isRev := c10RevTable(v); isRev && rn <= 16 {
			// nibble = T[byte]: byte - K when it is not the "invalid" mark
			x, k, peeled, rev = rx, -rk, true, true
		}
		if !peeled || k >= 0 {
			return nil, false
		}
		base, idx, ok := c10ByteRead(wire.StripConv(x))
		if !ok {
			return nil, false
		}
		a, b, ok := c10IndexIn(dx, idx, decStore.it)
		if !ok || a != 2 || (b != 0 && b != 1) {
			return nil, false
		}
		if srcStr == nil {
			srcStr = base
		} else if srcStr != base {
			return nil, false
		}
		nibs[v] = &nib{k: -k, idxB: b, src: base, val: v}
		// the nibble is bounded by 0x0F where it is used (E1 on the dominating range checks)
		if rev {
			// the table yields 0..15 or a negative mark: the mark must be excluded
			if !wProveGE(w, decStore.st, v, 0, false) {
				unbounded = fmt.Sprintf("the table entry for byte 2i+%d may be the negative \"invalid character\" mark where decoded[i] is stored", b)
				return lanes.SrcByte(int(b)+1, 0), true
			}
		} else if !wProveLE(w, decStore.st, v, 0x0F, false) {
			unbounded = fmt.Sprintf("byte 2i+%d − %#x is not bounded by 0x0F where decoded[i] is stored", b, -k)
			return lanes.SrcByte(int(b)+1, 0), true
		}
		out := make(lanes.Vec, 8)
		for bit := 0; bit < 4; bit++ {
			out[bit] = lanes.Bit{K: lanes.Src, S: int(b) + 1, I: 0, B: bit}
		}
		return out, true
	}
	vec := decAn.Root(fld.fn).Lanes(decStore.Val)
	if vec == nil || vec.HasTop() {
		r.Note("FirstLevelDecode lanes: %s", strings.Join(decAn.Why, "; "))
	}
	want := make(lanes.Vec, 8)
	for bit := 0; bit < 4; bit++ {
		want[bit] = lanes.Bit{K: lanes.Src, S: 2, I: 0, B: bit}   // low nibble from byte 2i+1
		want[bit+4] = lanes.Bit{K: lanes.Src, S: 1, I: 0, B: bit} // high nibble from byte 2i
	}
	switch {
	case tableWrong != "":
		r.Fail("firstlevel", key, c.P.Rel(decStore.st.Pos()), tableWrong+": the decoded nibbles are not the encoded ones")
	case unbounded != "":
		r.Fail("firstlevel", key, c.P.Rel(decStore.st.Pos()), unbounded+": a byte outside 'A'..'P' is folded into the name instead of being rejected")
	case vec != nil && vec.Equal(want):
		r.OK("firstlevel", key, c.P.Rel(decStore.st.Pos()), "bits 4-7 from byte 2i, bits 0-3 from byte 2i+1, both bounded by 0x0F")
	case (vec == nil || vec.HasTop()) && decOpaque != "":
		nd(decOpaque, key, c.P.Rel(decStore.st.Pos()), "the provenance of decoded[i] is unknown ("+c10Vec(vec)+")")
	default:
		if vec == nil || vec.HasTop() {
			// unknown bits: the value goes through something the lane analysis does not model
			r.OK("firstlevel", key, c.P.Rel(decStore.st.Pos()), "NOT DECIDED — the bit provenance of decoded[i] is not fully known: "+c10Vec(vec))
			r.Note("C10 firstlevel: %s NOT DECIDED — bit provenance unknown", key)
		} else {
			r.Fail("firstlevel", key, c.P.Rel(decStore.st.Pos()), "decoded[i] is not (nibble of byte 2i) << 4 | (nibble of byte 2i+1); bit provenance (source 1 = byte 2i, source 2 = byte 2i+1): "+c10Vec(vec))
		}
	}
	// same 'A' on both sides
	for _, n := range nibs {
		half := "high"
		if n.idxB == 1 {
			half = "low"
		}
		key := fmt.Sprintf("FirstLevelDecode: %s nibble is byte 2i+%d minus the encoder's constant", half, n.idxB)
		switch {
		case !encOK[n.idxB]:
			nd(encOpaque, key, c.P.Rel(n.val.Pos()), "the encoder's constant for this half was not determined")
		case n.k == encK[n.idxB] && n.k == asciiA:
			r.OK("firstlevel", key, c.P.Rel(n.val.Pos()), fmt.Sprintf("− %#x", n.k))
		default:
			r.Fail("firstlevel", key, c.P.Rel(n.val.Pos()), fmt.Sprintf("the decoder subtracts %#x from byte 2i+%d, the encoder added %#x (ASCII_A = %#x)", n.k, n.idxB, encK[n.idxB], asciiA))
		}
	}
	if len(nibs) < 2 {
		nd(decOpaque, "FirstLevelDecode: nibble sources", fld.pos, "did not find both `encoded[2i] − K` and `encoded[2i+1] − K`")
	}
	// length check
	key = "FirstLevelDecode: the encoded name must be exactly 32 bytes"
	if srcStr == nil {
		nd(decOpaque, key, fld.pos, "source string not identified")
	} else if wProveLE(w, decStore.st, srcStr, encLen, true) && wProveGE(w, decStore.st, srcStr, encLen, true) {
		r.OK("firstlevel", key, fld.pos, "E1: len(encodedName) == 32 inside the loop")
	} else {
		r.Fail("firstlevel", key, fld.pos, fmt.Sprintf("len(encodedName) == %d is not established before the nibbles are read", encLen))
	}
	// trim ↔ pad, split ↔ separator
	key = "FirstLevelDecode: trims exactly the pad byte"
	foundTrim := false
	decSep, decHow, decFirst := "", "", false
	wrongTail := "" // positively observed: the tail after the separator starts at the wrong offset
	for _, b := range fld.fn.Blocks {
		for _, in := range b.Instrs {
			call, ok := in.(*ssa.Call)
			if !ok {
				continue
			}
			f := call.Call.StaticCallee()
			if f == nil || f.Pkg == nil {
				continue
			}
			strArg := func(i int) (string, bool) {
				if i >= len(call.Call.Args) {
					return "", false
				}
				k, ok := call.Call.Args[i].(*ssa.Const)
				if !ok || k.Value == nil {
					return "", false
				}
				switch k.Value.Kind() {
				case constant.String:
					return constant.StringVal(k.Value), true
				case constant.Int:
					if v, ok := constant.Int64Val(k.Value); ok && v >= 0 && v < 256 {
						return string([]byte{byte(v)}), true
					}
				}
				return "", false
			}
			switch f.Pkg.Pkg.Path() + "." + f.Name() {
			case "bytes.TrimRight", "strings.TrimRight":
				if n, ok := c10FixedBuf(wire.StripConv(call.Call.Args[0])); (ok && n == nameLen) || decStore.buf[wire.StripConv(call.Call.Args[0])] {
					foundTrim = true
					cut, isK := strArg(1)
					if padByte < 0 {
						// the encoder's pad byte was not determined (its own clause says why):
						// there is nothing to compare the cutset with
						r.OK("firstlevel", key, c.P.Rel(call.Pos()), "NOT DECIDED — the encoder's pad byte was not determined; TrimRight cutset is "+call.Call.Args[1].String())
						r.Note("C10 firstlevel: %s NOT DECIDED — the encoder's pad byte was not determined", key)
					} else if isK && cut == string([]byte{byte(padByte)}) {
						r.OK("firstlevel", key, c.P.Rel(call.Pos()), fmt.Sprintf("TrimRight cutset is the pad byte %#x", padByte))
					} else {
						r.Fail("firstlevel", key, c.P.Rel(call.Pos()), fmt.Sprintf("TrimRight removes %s but the encoder pads with %#x", call.Call.Args[1].String(), padByte))
					}
				}
			case "strings.SplitN":
				decSep, _ = strArg(1)
				n, _ := wConstOf(call.Call.Args[2])
				decHow = fmt.Sprintf("SplitN(…, %d)", n)
				decFirst = n == 2
			case "strings.Cut":
				decSep, _ = strArg(1)
				decHow, decFirst = "Cut", true
			case "strings.Split":
				decSep, _ = strArg(1)
				decHow, decFirst = "Split (every occurrence)", false
			case "strings.Index", "strings.IndexByte":
				// s[:i] and s[i+1:] of the first occurrence
				sep, okS := strArg(1)
				if !okS {
					continue
				}
				s0 := call.Call.Args[0]
				before, after := false, false
				for _, bb := range fld.fn.Blocks {
					for _, in2 := range bb.Instrs {
						sl, ok := in2.(*ssa.Slice)
						if !ok || sl.X != s0 {
							continue
						}
						if sl.Low == nil && sl.High == ssa.Value(call) {
							before = true
						}
						if sl.High == nil && sl.Low != nil && dx.Sym(sl.Low).Equal(dx.Sym(call).AddK(int64(len(sep)))) {
							after = true
						}
						if sl.High == nil && sl.Low != nil {
							for k := int64(0); k <= 4; k++ {
								if k != int64(len(sep)) && dx.Sym(sl.Low).Equal(dx.Sym(call).AddK(k)) {
									wrongTail = fmt.Sprintf("%s finds %q at i and the scope is taken from s[i+%d:], not s[i+%d:]", f.Name(), sep, k, len(sep))
								}
							}
						}
					}
				}
				if before && after {
					decSep, decHow, decFirst = sep, f.Name()+" + s[:i], s[i+len(sep):]", true
					wrongTail = ""
				} else if before && wrongTail != "" {
					decSep = sep
				} else {
					wrongTail = ""
				}
			case "strings.LastIndex", "strings.LastIndexByte":
				decSep, _ = strArg(1)
				decHow, decFirst = f.Name()+" (last occurrence)", false
			}
		}
	}
	if !foundTrim {
		// no TrimRight: how do the decoded bytes become the name? (c10_trim.go)
		forms := c10TrimForms(dx, fld.fn, c10BufferValues(fld.fn, decStore.st, decStore.buf), decStore.Val, decStore.st, decStore.it, nameLen)
		var trim, whole, opaque *c10TrimForm
		for i := range forms {
			switch forms[i].kind {
			case "index", "scan":
				if trim == nil || forms[i].k != padByte {
					trim = &forms[i]
				}
			case "whole":
				whole = &forms[i]
			default:
				opaque = &forms[i]
			}
		}
		switch {
		case trim != nil && padByte < 0:
			r.OK("firstlevel", key, c.P.Rel(trim.pos), "NOT DECIDED — the encoder's pad byte was not determined")
			r.Note("C10 firstlevel: %s NOT DECIDED — the encoder's pad byte was not determined", key)
		case trim != nil && trim.k == padByte && trim.kind == "index":
			r.OK("firstlevel", key, c.P.Rel(trim.pos), fmt.Sprintf("the name ends after the last decoded byte that is not the pad byte %#x (index recorded in the decode loop)", padByte))
		case trim != nil && trim.k == padByte:
			r.OK("firstlevel", key, c.P.Rel(trim.pos), fmt.Sprintf("trailing bytes equal to the pad byte %#x are dropped by a backwards scan", padByte))
		case trim != nil:
			r.Fail("firstlevel", key, c.P.Rel(trim.pos), fmt.Sprintf("the decoder drops trailing bytes equal to %#x but the encoder pads with %#x", trim.k, padByte))
		case opaque != nil:
			r.OK("firstlevel", key, c.P.Rel(opaque.pos), "NOT DECIDED — "+opaque.why)
			r.Note("C10 firstlevel: %s NOT DECIDED — %s", key, opaque.why)
		case whole != nil:
			r.Fail("firstlevel", key, c.P.Rel(whole.pos), "the decoded 16 bytes are not right-trimmed: all of them are converted to the name, so the encoder's space padding stays in the name")
		case decOpaque != "":
			nd(decOpaque, key, fld.pos, "no TrimRight of the 16 decoded bytes found in FirstLevelDecode itself")
		default:
			r.OK("firstlevel", key, fld.pos, "NOT DECIDED — the 16 decoded bytes were not seen to become the name in a form this rule reads (TrimRight, decoded[:end], string(decoded))")
			r.Note("C10 firstlevel: %s NOT DECIDED — the decoded bytes do not reach the name in a form this rule reads", key)
		}
	}
	key = "scope separator: encoder appends what the decoder splits on"
	switch {
	case wrongTail != "":
		r.Fail("firstlevel", key, fld.pos, "scope separator: "+wrongTail+": the separator (or part of the scope) ends up on the wrong side")
	case encSep == "" || decSep == "":
		op := encOpaque
		if encSep != "" {
			op = decOpaque
		}
		nd(op, key, fld.pos, fmt.Sprintf("separator not found (encoder %q, decoder %q)", encSep, decSep))
	case encSep == decSep && decFirst:
		r.OK("firstlevel", key, fld.pos, fmt.Sprintf("%q, %s", encSep, decHow))
	default:
		r.Fail("firstlevel", key, fld.pos, fmt.Sprintf("the encoder joins name and scope with %q, the decoder uses %s on %q: the encoded name contains no separator, so the FIRST occurrence ends it; a scope containing the separator does not survive otherwise", encSep, decHow, decSep))
	}
}

func c10Vec(v lanes.Vec) string {
	if v == nil {
		return "(none)"
	}
	return v.String(func(b lanes.Bit) string { return fmt.Sprintf("s%d.%d", b.S, b.B) })
}
