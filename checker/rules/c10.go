package rules

import (
	"fmt"
	"go/constant"
	"go/token"
	"go/types"
	"strings"

	"golang.org/x/tools/go/ssa"

	"manticheck/internal/lanes"
	"manticheck/internal/prove"
	"manticheck/internal/wire"
)

func init() { register(&Check{ID: "C10", NeedSSA: true, Run: runC10}) }

const nbtnsPkg = "network/netbios/nbtns"

// RFC 1002 §4.2.1.1 header: NAME_TRN_ID, flags word, QDCOUNT, ANCOUNT, NSCOUNT, ARCOUNT.
var nbnsHeaderOrder = []string{"TransactionID", "Flags", "Questions", "Answers", "Authority", "Additional"}

// (count word of NBTNSHeader, section of NBTNSPacket, resource record?)
var nbnsSections = []struct {
	sec string
	rr  bool
}{{"Questions", false}, {"Answers", true}, {"Authority", true}, {"Additional", true}}

func runC10(c *Ctx) {
	p, r := c.P, c.R
	r.Explanation = "C10 NetBIOS names and NBNS packets, decided structurally on go/ssa. " +
		"R1 (internal/wire layouts) `sym`: NBTNSPacket.Marshal and Unmarshal (including the per-section closure Unmarshal$1 and Marshal's loop over the slice literal of sections) list the same header words and, per section, the same element atoms — name length byte, name (FirstLevelEncode⇄FirstLevelDecode), type, class[, ttl, rdlength, rdata] — in the same order with the same widths; `order`: every multi-byte integer is big-endian on both sides; `spec`: the header is the six 16-bit words of RFC 1002 §4.2.1.1 in order; `count`: the decoder consumes its fields contiguously, the captured cursor is initialised to the header size, every store to it is the end of a read, and each loop iteration leaves it at the end of the element; `guard`: each length check establishes exactly the end of the reads it protects; `length`: the RData read is as long as the value read into RDLength, and the name read is as long as its length byte. " +
		"R2 `sections`: each of the four sections is emitted by Marshal (a range over that section) and filled by Unmarshal (a loop bounded by that section's header count appending to that section), in RFC order; `counts`: the count word Marshal emits for a section is len(section), so that the header describes what follows. " +
		"R3 `firstlevel` (internal/lanes bit provenance with the `± 'A'` offset peeled, index forms as linear forms in the loop counter): FirstLevelEncode writes (name[i] bits 4-7)+K at byte 2i and (name[i] bits 0-3)+K at 2i+1; FirstLevelDecode subtracts the same K from bytes 2i and 2i+1, bounds both by 0x0F (E1) and reassembles (hi<<4)|lo into byte i; K = ASCII_A = 0x41 on both sides; buffers and loop bounds are 16/32 = NetBIOSNameLength/EncodedNameLength and the decoder insists on len == 32 (E1); the pad byte stored after the name is ' ' and the decoder trims exactly that byte; the scope separator appended by the encoder is the one SplitN(…, 2) splits on. " +
		"NOT decided: conformance of the name FIELD to RFC 1002 §4.1 (Marshal emits `len | text[.scope]` with no terminating root label and the scope as dotted text rather than labels, Unmarshal expects the same: self-consistent, so invisible without an independent parser — recorded as an observation), names that themselves end in spaces (trimmed on decode), names starting with '*' (rejected by Validate), scope syntax, and value-level consistency RDLength == len(RData), which Marshal takes on trust."
	r.Assumptions = []string{
		"go/types + go/ssa (x/tools v0.50.0) are faithful to the source",
		"encoding/binary PutUintN/UintN/AppendUintN have their documented byte layouts",
		"decoder offset arithmetic does not overflow int (proved separately by C07)",
		"bytes.TrimRight(s, cutset) removes exactly the trailing bytes contained in cutset; strings.SplitN(s, sep, 2) splits at the first sep",
	}
	w := prove.NewWorld(p)

	enc := wEncoder(c, w, nbtnsPkg, "NBTNSPacket", "Marshal")
	dec := wDecoder(c, w, nbtnsPkg, "NBTNSPacket", "Unmarshal")
	fle := wAnchor(c, w, nbtnsPkg, "NetBIOSName", "FirstLevelEncode")
	fld := wAnchor(c, w, nbtnsPkg, "", "FirstLevelDecode")
	r.Floor("anchor", 4)
	r.Floor("extract", 2)
	pairs := wPairs{}
	if fle != nil && fld != nil {
		pairs[fle.fn] = fld.fn
	}
	layouts := map[string]string{}
	if enc != nil && dec != nil {
		layouts["NBTNSPacket.Marshal"] = wire.Render(enc.enc)
		layouts["NBTNSPacket.Unmarshal"] = wire.Render(dec.dec.Atoms)
		c.guard("sym", "NBTNSPacket.Marshal⇄Unmarshal", dec.pos, func() {
			wCompare(c, "sym", "NBTNSPacket.Marshal⇄Unmarshal", dec.pos, enc, dec, enc.enc, dec.dec.Atoms, pairs)
			wOrder(c, enc, enc.enc, "encoder")
			wOrder(c, dec, dec.dec.Atoms, "decoder")
			wCheckDec(c, dec)
		})
		c.guard("spec", "header", enc.pos, func() { c10Header(c, enc, dec) })
		c.guard("sections", "NBTNSPacket", enc.pos, func() { c10Sections(c, enc, dec) })
		c.guard("length", "NBTNSPacket", dec.pos, func() { c10Length(c, w, enc, dec) })
		r.Extra["closures_analysed"] = len(dec.dec.Subs)
	} else {
		r.Undecided("sym", "NBTNSPacket.Marshal⇄Unmarshal", "", "one side could not be extracted")
	}
	r.Floor("sym", 6+4+3*7)
	r.Floor("order", 2*(6+2+3*4))
	r.Floor("spec", 12)
	r.Floor("sections", 10)
	r.Floor("counts", 4)
	r.Floor("length", 15)
	r.Floor("count", 1)
	r.Floor("guard", 1)
	if fle != nil && fld != nil {
		c.guard("firstlevel", "FirstLevelEncode⇄FirstLevelDecode", fle.pos, func() { c10FirstLevel(c, w, fle, fld) })
	}
	r.Floor("firstlevel", 12)
	r.Extra["layouts"] = layouts
	r.Extra["functions_analysed"] = []string{"NBTNSPacket.Marshal", "NBTNSPacket.Unmarshal", "NBTNSPacket.Unmarshal$1 (once per call site)", "NetBIOSName.FirstLevelEncode", "FirstLevelDecode"}
	r.Extra["sections_table"] = []string{"Header.Questions↔Questions", "Header.Answers↔Answers", "Header.Authority↔Authority", "Header.Additional↔Additional"}
	r.Note("observation (not a rule): the name field on the wire is `len | 32 half-ASCII bytes[.scope]` with no terminating zero label and the scope as dotted text; RFC 1002 §4.1 has 0x20, 32 bytes, then the scope as length-prefixed labels, then 0x00. Marshal and Unmarshal agree with each other, so only an independent parser can see it.")
}

func c10Header(c *Ctx, enc, dec *wcodec) {
	r := c.R
	for _, side := range []struct {
		k     *wcodec
		atoms []wire.Atom
		name  string
	}{{enc, enc.enc, "NBTNSPacket.Marshal"}, {dec, dec.dec.Atoms, "NBTNSPacket.Unmarshal"}} {
		for i, f := range nbnsHeaderOrder {
			key := fmt.Sprintf("%s: header word %d is %s", side.name, i, f)
			if i >= len(side.atoms) {
				r.Fail("spec", key, side.k.pos, "the layout has fewer than six header fields")
				continue
			}
			a := side.atoms[i]
			if a.Kind == "fixed" && a.Width == 2 && a.Field == "Header."+f {
				r.OK("spec", key, c.P.Rel(a.Pos), "16-bit "+f)
			} else {
				r.Fail("spec", key, c.P.Rel(a.Pos), fmt.Sprintf("RFC 1002 §4.2.1.1 has the 16-bit %s as header word %d; %s has [%s] there", f, i, side.name, a.String()))
			}
		}
	}
}

func c10Sections(c *Ctx, enc, dec *wcodec) {
	r := c.R
	pkt := wStructFields(c, nbtnsPkg, "NBTNSPacket")
	hdr := wStructFields(c, nbtnsPkg, "NBTNSHeader")
	var want, encOrder, decOrder []string
	for _, a := range enc.enc {
		if a.Kind == "repeat" {
			encOrder = append(encOrder, a.Over)
		}
	}
	for _, a := range dec.dec.Atoms {
		if a.Kind == "repeat" {
			decOrder = append(decOrder, a.Over)
		}
	}
	for _, s := range nbnsSections {
		want = append(want, s.sec)
		if pkt == nil || hdr == nil || pkt[s.sec] == nil || hdr[s.sec] == nil {
			r.Undecided("sections", "NBTNSPacket."+s.sec, "", "section or count field does not resolve in the struct declarations")
			continue
		}
		cf := "Header." + s.sec
		// Marshal emits the section
		key := "NBTNSPacket.Marshal: emits every element of " + s.sec
		found := false
		for _, a := range enc.enc {
			if a.Kind == "repeat" && a.Over == s.sec {
				found = true
				nonEmpty := len(a.Body) > 0
				for _, b := range a.Body {
					if b.Cond {
						nonEmpty = false
					}
				}
				if nonEmpty {
					r.OK("sections", key, c.P.Rel(a.Pos), fmt.Sprintf("range over %s appending %d atoms per element", s.sec, len(a.Body)))
				} else {
					r.Fail("sections", key, c.P.Rel(a.Pos), "the loop over "+s.sec+" emits nothing (or only conditionally)")
				}
			}
		}
		if !found {
			r.Fail("sections", key, enc.pos, "Marshal writes the "+s.sec+" count into the header but never emits the "+s.sec+" entries")
		}
		// count word = len(section)
		key = fmt.Sprintf("NBTNSPacket.Marshal: header %s = len(%s)", s.sec, s.sec)
		found = false
		for i, a := range enc.enc {
			if i >= len(nbnsHeaderOrder) || a.Kind != "fixed" {
				continue
			}
			if a.Field == cf || a.Expr == "len("+s.sec+")" {
				found = true
				if a.Expr == "len("+s.sec+")" {
					r.OK("counts", key, c.P.Rel(a.Pos), "the emitted count is len("+s.sec+")")
				} else {
					r.Fail("counts", key, c.P.Rel(a.Pos), fmt.Sprintf("Marshal emits the stored field Header.%s as the count and then ranges over %s: when they differ (the servers build responses with Header.Questions copied from the request and no Questions) the packet announces entries that do not follow, and every parser mis-frames the rest", s.sec, s.sec))
				}
			}
		}
		if !found {
			r.Fail("counts", key, enc.pos, "Marshal does not emit a count for "+s.sec)
		}
		// Unmarshal fills the section under its count
		key = fmt.Sprintf("NBTNSPacket.Unmarshal: decodes Header.%s elements into %s", s.sec, s.sec)
		found = false
		for _, a := range dec.dec.Atoms {
			if a.Kind != "repeat" || a.Over != s.sec {
				continue
			}
			found = true
			if a.Count == cf {
				r.OK("sections", key, c.P.Rel(a.Pos), "loop bounded by "+cf+" appending to "+s.sec)
			} else {
				r.Fail("sections", key, c.P.Rel(a.Pos), fmt.Sprintf("the loop that fills %s is bounded by %s, not by %s", s.sec, a.Count, cf))
			}
		}
		if !found {
			for _, a := range dec.dec.Atoms {
				if a.Kind == "repeat" && a.Count == cf {
					found = true
					r.Fail("sections", key, c.P.Rel(a.Pos), fmt.Sprintf("the loop bounded by %s fills %s instead of %s", cf, a.Over, s.sec))
				}
			}
		}
		if !found {
			r.Fail("sections", key, dec.pos, "Unmarshal reads the "+s.sec+" count but never decodes the "+s.sec+" entries")
		}
	}
	inOrder := func(got []string) bool {
		j := 0
		for _, g := range got {
			for j < len(want) && want[j] != g {
				j++
			}
			if j == len(want) {
				return false
			}
			j++
		}
		return true
	}
	for _, o := range []struct {
		name string
		got  []string
		pos  string
	}{{"NBTNSPacket.Marshal", encOrder, enc.pos}, {"NBTNSPacket.Unmarshal", decOrder, dec.pos}} {
		key := o.name + ": sections in RFC order"
		if inOrder(o.got) {
			r.OK("sections", key, o.pos, strings.Join(o.got, ", "))
		} else {
			r.Fail("sections", key, o.pos, "sections are processed in the order "+strings.Join(o.got, ", ")+"; the wire order is "+strings.Join(want, ", "))
		}
	}
}

// c10Length: name length byte ↔ name bytes, RDLength ↔ RData.
func c10Length(c *Ctx, w *prove.World, enc, dec *wcodec) {
	r := c.R
	for _, a := range dec.dec.Atoms {
		if a.Kind != "repeat" {
			continue
		}
		b := a.Body
		for i := range b {
			if b[i].Kind != "bytes" || b[i].Off == nil || b[i].End == nil {
				continue
			}
			wv, single := b[i].End.Sub(*b[i].Off).Single()
			var src *wire.Atom
			for j := 0; j < i; j++ {
				if single && b[j].Val == wv {
					src = &b[j]
				}
			}
			key := fmt.Sprintf("NBTNSPacket.Unmarshal %s: extent of %s", a.Over, b[i].Field)
			switch {
			case strings.HasSuffix(b[i].Field, ".RData"):
				if src != nil && strings.HasSuffix(src.Field, ".RDLength") {
					r.OK("length", key, c.P.Rel(b[i].Pos), "RData is as long as the value read into RDLength")
				} else {
					r.Fail("length", key, c.P.Rel(b[i].Pos), "the RData read has width "+dec.x.SymString(b[i].End.Sub(*b[i].Off))+", which is not the value read into RDLength")
				}
			case strings.HasSuffix(b[i].Field, ".Name"):
				if src != nil && i > 0 && src == &b[i-1] && src.Width == 1 {
					r.OK("length", key, c.P.Rel(b[i].Pos), "the name is as long as the length byte before it")
				} else {
					r.Fail("length", key, c.P.Rel(b[i].Pos), "the name read has width "+dec.x.SymString(b[i].End.Sub(*b[i].Off))+", which is not the length byte read just before it")
				}
			}
		}
	}
	// encoder: the byte before each name is the (narrowed) length of what follows
	for _, a := range enc.enc {
		if a.Kind != "repeat" {
			continue
		}
		for i := range a.Body {
			if a.Body[i].Kind == "nested" && strings.HasSuffix(a.Body[i].Field, ".Name") {
				key := fmt.Sprintf("NBTNSPacket.Marshal %s: name is preceded by its length", a.Over)
				if i > 0 && wIsLenPrefix(a.Body, i-1, enc.x, false) && a.Body[i-1].Width == 1 {
					r.OK("length", key, c.P.Rel(a.Body[i].Pos), "byte(len(encoded)) then encoded")
				} else {
					r.Fail("length", key, c.P.Rel(a.Body[i].Pos), "the byte emitted before the encoded name is not its length")
					continue
				}
				// the narrowing to one byte must be lossless
				la := a.Body[i-1]
				key = fmt.Sprintf("NBTNSPacket.Marshal %s: byte(len(encoded)) is lossless", a.Over)
				at := la.At
				if cv, ok := c09NarrowingOf(la.Val).(ssa.Instruction); ok {
					at = cv
				}
				if !la.Narrow || wProveLE(w, at, la.LenOf, 255, true) {
					r.OK("length", key, c.P.Rel(la.Pos), "E1: len(encoded) <= 255 where it is narrowed to the length byte")
				} else {
					r.Fail("length", key, c.P.Rel(la.Pos), "len(encoded) <= 255 is not established where it is narrowed to one byte: a name with a long scope (Validate accepts a 255-byte scope, giving 288 bytes) is emitted with a wrapped length byte and the rest of the packet is mis-framed, silently")
				}
			}
		}
	}
}

// ---------------------------------------------------------------------------
// R3 first-level encoding

type c10Store struct {
	st   *ssa.Store
	buf  ssa.Value // the slice indexed
	n    int64     // array length behind buf
	a, b int64     // index = a·i + b
	iv   ssa.Value // loop counter φ (nil when the index is constant)
}

// c10FixedBuf: v is a slice over a local byte array of constant length.
func c10FixedBuf(v ssa.Value) (int64, bool) {
	sl, ok := v.(*ssa.Slice)
	if !ok {
		return 0, false
	}
	al, ok := sl.X.(*ssa.Alloc)
	if !ok {
		return 0, false
	}
	arr, ok := al.Type().Underlying().(*types.Pointer).Elem().Underlying().(*types.Array)
	if !ok {
		return 0, false
	}
	if b, isB := arr.Elem().Underlying().(*types.Basic); !isB || b.Kind() != types.Uint8 {
		return 0, false
	}
	n := arr.Len()
	if sl.High != nil {
		h, isK := wConstOf(sl.High)
		if !isK {
			return 0, false
		}
		n = h
	}
	return n, true
}

// c10Index decomposes an index into a·φ + b.
func c10Index(x *wire.X, idx ssa.Value) (a, b int64, iv ssa.Value, ok bool) {
	s := x.Sym(idx)
	if len(s.T) == 0 {
		return 0, s.K, nil, true
	}
	if len(s.T) != 1 {
		return 0, 0, nil, false
	}
	for t, k := range s.T {
		if _, isPhi := t.(*ssa.Phi); !isPhi {
			return 0, 0, nil, false
		}
		return k, s.K, t, true
	}
	return 0, 0, nil, false
}

func c10Stores(x *wire.X, fn *ssa.Function) []c10Store {
	var out []c10Store
	for _, b := range fn.Blocks {
		for _, in := range b.Instrs {
			st, ok := in.(*ssa.Store)
			if !ok {
				continue
			}
			ia, ok := st.Addr.(*ssa.IndexAddr)
			if !ok {
				continue
			}
			n, ok := c10FixedBuf(ia.X)
			if !ok {
				continue
			}
			a, bb, iv, ok := c10Index(x, ia.Index)
			if !ok {
				continue
			}
			out = append(out, c10Store{st: st, buf: ia.X, n: n, a: a, b: bb, iv: iv})
		}
	}
	return out
}

// c10Peel splits v into x ± K for a constant K (K = 0 when v is not of that form).
func c10Peel(v ssa.Value) (ssa.Value, int64, bool) {
	bo, ok := v.(*ssa.BinOp)
	if !ok {
		return v, 0, false
	}
	switch bo.Op {
	case token.ADD:
		if k, isK := wConstOf(bo.Y); isK {
			return bo.X, k, true
		}
		if k, isK := wConstOf(bo.X); isK {
			return bo.Y, k, true
		}
	case token.SUB:
		if k, isK := wConstOf(bo.Y); isK {
			return bo.X, -k, true
		}
	}
	return v, 0, false
}

// c10LoopRange: the counter φ runs from `from` while φ < bound.
func c10LoopRange(iv ssa.Value) (from ssa.Value, bound int64, ok bool) {
	phi, isPhi := iv.(*ssa.Phi)
	if !isPhi {
		return nil, 0, false
	}
	hb := phi.Block()
	for i, p := range hb.Preds {
		if !hb.Dominates(p) {
			from = phi.Edges[i]
		}
	}
	bv, ctr, okb := wire.LoopBound(hb)
	if !okb || ctr != iv {
		return nil, 0, false
	}
	iff := hb.Instrs[len(hb.Instrs)-1].(*ssa.If)
	cmp := iff.Cond.(*ssa.BinOp)
	k, isK := wConstOf(bv)
	if !isK {
		return nil, 0, false
	}
	switch {
	case cmp.Op == token.LSS && cmp.X == iv, cmp.Op == token.GTR && cmp.Y == iv:
		return from, k, from != nil
	case cmp.Op == token.LEQ && cmp.X == iv, cmp.Op == token.GEQ && cmp.Y == iv:
		return from, k + 1, from != nil
	}
	return nil, 0, false
}

func c10FirstLevel(c *Ctx, w *prove.World, fle, fld *wcodec) {
	r := c.R
	nameLen, ok1 := wConst(c, nbtnsPkg, "NetBIOSNameLength")
	encLen, ok2 := wConst(c, nbtnsPkg, "EncodedNameLength")
	asciiA, ok3 := wConst(c, nbtnsPkg, "ASCII_A")
	if !ok1 || !ok2 || !ok3 {
		r.Undecided("firstlevel", "constants", "", "NetBIOSNameLength / EncodedNameLength / ASCII_A do not resolve")
		return
	}
	if nameLen == 16 && encLen == 2*nameLen {
		r.OK("firstlevel", "NetBIOSNameLength = 16, EncodedNameLength = 32", "", "RFC 1001 §14.1")
	} else {
		r.Fail("firstlevel", "NetBIOSNameLength = 16, EncodedNameLength = 32", "", fmt.Sprintf("NetBIOSNameLength=%d EncodedNameLength=%d; a 16-byte name becomes 32 half-ASCII bytes", nameLen, encLen))
	}
	if asciiA == 0x41 {
		r.OK("firstlevel", "ASCII_A = 0x41", "", "RFC 1001 §14.1: each nibble is added to 'A'")
	} else {
		r.Fail("firstlevel", "ASCII_A = 0x41", "", fmt.Sprintf("ASCII_A is %#x; RFC 1001 §14.1 adds each nibble to 'A' (0x41)", asciiA))
	}

	// ---------------- encoder
	ex := wire.New(w, fle.fn)
	var encK [2]int64
	var encOK [2]bool
	var padByte int64 = -1
	encSeen := 0
	encAn := &lanes.Analyzer{}
	var encIV ssa.Value
	encAn.Leaf = func(f *lanes.Frame, v ssa.Value) (lanes.Vec, bool) {
		ld, ok := v.(*ssa.UnOp)
		if !ok || ld.Op != token.MUL {
			return nil, false
		}
		ia, ok := ld.X.(*ssa.IndexAddr)
		if !ok {
			return nil, false
		}
		n, ok := c10FixedBuf(ia.X)
		if !ok || n != nameLen {
			return nil, false
		}
		a, b, iv, ok := c10Index(ex, ia.Index)
		if !ok || a != 1 || b != 0 || iv != encIV {
			return nil, false
		}
		return lanes.SrcByte(0, 0), true
	}
	encFrame := encAn.Root(fle.fn)
	for _, s := range c10Stores(ex, fle.fn) {
		switch {
		case s.n == encLen && s.iv != nil:
			encSeen++
			half := "high"
			if s.b == 1 {
				half = "low"
			}
			key := fmt.Sprintf("FirstLevelEncode: byte 2i+%d carries the %s nibble of name[i] plus 'A'", s.b, half)
			if s.a != 2 || (s.b != 0 && s.b != 1) {
				r.Fail("firstlevel", fmt.Sprintf("FirstLevelEncode: store at index %d·i+%d", s.a, s.b), c.P.Rel(s.st.Pos()), fmt.Sprintf("the encoded buffer is written at index %d·i+%d; the two nibbles of name[i] go to 2i and 2i+1", s.a, s.b))
				continue
			}
			from, bound, okr := c10LoopRange(s.iv)
			if k, isK := wConstOf(from); !okr || !isK || k != 0 || bound != nameLen {
				r.Fail("firstlevel", key+" (loop range)", c.P.Rel(s.st.Pos()), fmt.Sprintf("the encoding loop does not run i = 0..%d", nameLen-1))
				continue
			}
			encIV = s.iv
			x, k, _ := c10Peel(s.st.Val)
			vec := encFrame.Lanes(x)
			want := make(lanes.Vec, 8)
			shift := 4
			if s.b == 1 {
				shift = 0
			}
			for bit := 0; bit < 4; bit++ {
				want[bit] = lanes.Bit{K: lanes.Src, S: 0, I: 0, B: bit + shift}
			}
			if vec != nil && vec.Equal(want) {
				encK[s.b], encOK[s.b] = k, true
				if k == asciiA {
					r.OK("firstlevel", key, c.P.Rel(s.st.Pos()), fmt.Sprintf("bits %d..%d of name[i], + %#x", shift, shift+3, k))
				} else {
					r.Fail("firstlevel", key, c.P.Rel(s.st.Pos()), fmt.Sprintf("the nibble is offset by %#x, not by ASCII_A = %#x", k, asciiA))
				}
			} else {
				r.Fail("firstlevel", key, c.P.Rel(s.st.Pos()), fmt.Sprintf("byte 2i+%d of the encoding is not (name[i] bits %d..%d) + constant; bit provenance: %s", s.b, shift, shift+3, c10Vec(vec)))
			}
		case s.n == nameLen && s.iv != nil:
			// padding loop: name[i] = ' ' for i = len(n.Name) .. 15
			key := "FirstLevelEncode: the name is padded to 16 bytes with spaces"
			k, isK := wConstOf(s.st.Val)
			from, bound, okr := c10LoopRange(s.iv)
			fromLen := false
			if call, ok := from.(*ssa.Call); ok {
				if bi, ok := call.Call.Value.(*ssa.Builtin); ok && bi.Name() == "len" {
					if f, _ := ex.Desc(call.Call.Args[0]); f == "Name" {
						fromLen = true
					}
				}
			}
			if isK && okr && s.a == 1 && s.b == 0 && bound == nameLen && fromLen {
				padByte = k
				if k == 0x20 {
					r.OK("firstlevel", key, c.P.Rel(s.st.Pos()), "name[i] = ' ' for i = len(Name)..15")
				} else {
					r.Fail("firstlevel", key, c.P.Rel(s.st.Pos()), fmt.Sprintf("the pad byte is %#x; RFC 1001 §14.1 pads with spaces (0x20)", k))
				}
			} else {
				r.Fail("firstlevel", key, c.P.Rel(s.st.Pos()), "the store into the 16-byte name buffer is not `name[i] = constant` for i = len(Name)..15")
			}
		}
	}
	if encSeen < 2 {
		r.Undecided("firstlevel", "FirstLevelEncode: nibble stores", fle.pos, fmt.Sprintf("expected two stores into the %d-byte encoded buffer inside the loop, found %d", encLen, encSeen))
	}
	if padByte < 0 {
		r.Undecided("firstlevel", "FirstLevelEncode: the name is padded to 16 bytes with spaces", fle.pos, "no padding loop recognised")
	}
	// scope separator
	encSep := ""
	for _, b := range fle.fn.Blocks {
		for _, in := range b.Instrs {
			bo, ok := in.(*ssa.BinOp)
			if !ok || bo.Op != token.ADD {
				continue
			}
			if k, ok := bo.Y.(*ssa.Const); ok && k.Value != nil && k.Value.Kind() == constant.String {
				if cv, ok := bo.X.(*ssa.Convert); ok {
					if n, ok := c10FixedBuf(cv.X); ok && n == encLen {
						encSep = constant.StringVal(k.Value)
					}
				}
			}
		}
	}

	// ---------------- decoder
	dx := wire.New(w, fld.fn)
	type nib struct {
		k    int64
		idxB int64
		src  ssa.Value
		val  ssa.Value
	}
	nibs := map[ssa.Value]*nib{}
	var decIV ssa.Value
	var decStore *c10Store
	for _, s := range c10Stores(dx, fld.fn) {
		if s.n == nameLen && s.iv != nil && s.a == 1 && s.b == 0 {
			ss := s
			decStore = &ss
			decIV = s.iv
		}
	}
	key := "FirstLevelDecode: byte i is (byte 2i − 'A') << 4 | (byte 2i+1 − 'A')"
	if decStore == nil {
		r.Undecided("firstlevel", key, fld.pos, "no store decoded[i] = … into a 16-byte buffer inside a loop")
		return
	}
	from, bound, okr := c10LoopRange(decIV)
	if k, isK := wConstOf(from); !okr || !isK || k != 0 || bound != nameLen {
		r.Fail("firstlevel", "FirstLevelDecode: loop range", c.P.Rel(decStore.st.Pos()), fmt.Sprintf("the decoding loop does not run i = 0..%d", nameLen-1))
	} else {
		r.OK("firstlevel", "FirstLevelDecode: loop range", c.P.Rel(decStore.st.Pos()), fmt.Sprintf("i = 0..%d", nameLen-1))
	}
	var srcStr ssa.Value
	unbounded := ""
	decAn := &lanes.Analyzer{}
	decAn.Leaf = func(f *lanes.Frame, v ssa.Value) (lanes.Vec, bool) {
		x, k, peeled := c10Peel(v)
		if !peeled || k >= 0 {
			return nil, false
		}
		var base, idx ssa.Value
		switch t := x.(type) {
		case *ssa.Lookup:
			base, idx = t.X, t.Index
		case *ssa.Index:
			base, idx = t.X, t.Index
		case *ssa.UnOp:
			if ia, ok := t.X.(*ssa.IndexAddr); ok && t.Op == token.MUL {
				base, idx = ia.X, ia.Index
			}
		}
		if base == nil {
			return nil, false
		}
		a, b, iv, ok := c10Index(dx, idx)
		if !ok || a != 2 || iv != decIV || (b != 0 && b != 1) {
			return nil, false
		}
		if srcStr == nil {
			srcStr = base
		} else if srcStr != base {
			return nil, false
		}
		nibs[v] = &nib{k: -k, idxB: b, src: base, val: v}
		// the nibble is bounded by 0x0F where it is used (E1 on the dominating range checks)
		if !wProveLE(w, decStore.st, v, 0x0F, false) {
			unbounded = fmt.Sprintf("byte 2i+%d − %#x is not bounded by 0x0F where decoded[i] is stored", b, -k)
			return lanes.SrcByte(int(b)+1, 0), true
		}
		out := make(lanes.Vec, 8)
		for bit := 0; bit < 4; bit++ {
			out[bit] = lanes.Bit{K: lanes.Src, S: int(b) + 1, I: 0, B: bit}
		}
		return out, true
	}
	vec := decAn.Root(fld.fn).Lanes(decStore.st.Val)
	if vec == nil || vec.HasTop() {
		r.Note("FirstLevelDecode lanes: %s", strings.Join(decAn.Why, "; "))
	}
	want := make(lanes.Vec, 8)
	for bit := 0; bit < 4; bit++ {
		want[bit] = lanes.Bit{K: lanes.Src, S: 2, I: 0, B: bit}     // low nibble from byte 2i+1
		want[bit+4] = lanes.Bit{K: lanes.Src, S: 1, I: 0, B: bit} // high nibble from byte 2i
	}
	switch {
	case unbounded != "":
		r.Fail("firstlevel", key, c.P.Rel(decStore.st.Pos()), unbounded+": a byte outside 'A'..'P' is folded into the name instead of being rejected")
	case vec != nil && vec.Equal(want):
		r.OK("firstlevel", key, c.P.Rel(decStore.st.Pos()), "bits 4-7 from byte 2i, bits 0-3 from byte 2i+1, both bounded by 0x0F")
	default:
		r.Fail("firstlevel", key, c.P.Rel(decStore.st.Pos()), "decoded[i] is not (nibble of byte 2i) << 4 | (nibble of byte 2i+1); bit provenance (source 1 = byte 2i, source 2 = byte 2i+1): "+c10Vec(vec))
	}
	// same 'A' on both sides
	for _, n := range nibs {
		half := "high"
		if n.idxB == 1 {
			half = "low"
		}
		key := fmt.Sprintf("FirstLevelDecode: %s nibble is byte 2i+%d minus the encoder's constant", half, n.idxB)
		switch {
		case !encOK[n.idxB]:
			r.Undecided("firstlevel", key, c.P.Rel(n.val.Pos()), "the encoder's constant for this half was not determined")
		case n.k == encK[n.idxB] && n.k == asciiA:
			r.OK("firstlevel", key, c.P.Rel(n.val.Pos()), fmt.Sprintf("− %#x", n.k))
		default:
			r.Fail("firstlevel", key, c.P.Rel(n.val.Pos()), fmt.Sprintf("the decoder subtracts %#x from byte 2i+%d, the encoder added %#x (ASCII_A = %#x)", n.k, n.idxB, encK[n.idxB], asciiA))
		}
	}
	if len(nibs) < 2 {
		r.Undecided("firstlevel", "FirstLevelDecode: nibble sources", fld.pos, "did not find both `encoded[2i] − K` and `encoded[2i+1] − K`")
	}
	// length check
	key = "FirstLevelDecode: the encoded name must be exactly 32 bytes"
	if srcStr == nil {
		r.Undecided("firstlevel", key, fld.pos, "source string not identified")
	} else if wProveLE(w, decStore.st, srcStr, encLen, true) && wProveGE(w, decStore.st, srcStr, encLen, true) {
		r.OK("firstlevel", key, fld.pos, "E1: len(encodedName) == 32 inside the loop")
	} else {
		r.Fail("firstlevel", key, fld.pos, fmt.Sprintf("len(encodedName) == %d is not established before the nibbles are read", encLen))
	}
	// trim ↔ pad, split ↔ separator
	key = "FirstLevelDecode: trims exactly the pad byte"
	foundTrim := false
	decSep, decN := "", int64(0)
	for _, b := range fld.fn.Blocks {
		for _, in := range b.Instrs {
			call, ok := in.(*ssa.Call)
			if !ok {
				continue
			}
			f := call.Call.StaticCallee()
			if f == nil || f.Pkg == nil {
				continue
			}
			switch f.Pkg.Pkg.Path() + "." + f.Name() {
			case "bytes.TrimRight", "strings.TrimRight":
				if n, ok := c10FixedBuf(wire.StripConv(call.Call.Args[0])); ok && n == nameLen {
					foundTrim = true
					cut, isK := call.Call.Args[1].(*ssa.Const)
					if isK && cut.Value != nil && cut.Value.Kind() == constant.String && padByte >= 0 && constant.StringVal(cut.Value) == string(rune(padByte)) {
						r.OK("firstlevel", key, c.P.Rel(call.Pos()), fmt.Sprintf("TrimRight cutset is the pad byte %#x", padByte))
					} else {
						r.Fail("firstlevel", key, c.P.Rel(call.Pos()), fmt.Sprintf("TrimRight removes %s but the encoder pads with %#x", call.Call.Args[1].String(), padByte))
					}
				}
			case "strings.SplitN":
				if k, ok := call.Call.Args[1].(*ssa.Const); ok && k.Value != nil && k.Value.Kind() == constant.String {
					decSep = constant.StringVal(k.Value)
				}
				decN, _ = wConstOf(call.Call.Args[2])
			}
		}
	}
	if !foundTrim {
		r.Fail("firstlevel", key, fld.pos, "the decoded 16 bytes are not right-trimmed: the encoder's space padding stays in the name")
	}
	key = "scope separator: encoder appends what the decoder splits on"
	switch {
	case encSep == "" || decSep == "":
		r.Undecided("firstlevel", key, fld.pos, fmt.Sprintf("separator not found (encoder %q, decoder %q)", encSep, decSep))
	case encSep == decSep && decN == 2:
		r.OK("firstlevel", key, fld.pos, fmt.Sprintf("%q, SplitN(…, 2)", encSep))
	default:
		r.Fail("firstlevel", key, fld.pos, fmt.Sprintf("the encoder joins name and scope with %q, the decoder uses SplitN(encoded, %q, %d): a scope containing the separator does not survive", encSep, decSep, decN))
	}
}

func c10Vec(v lanes.Vec) string {
	if v == nil {
		return "(none)"
	}
	return v.String(func(b lanes.Bit) string { return fmt.Sprintf("s%d.%d", b.S, b.B) })
}
