package rules

import (
	"fmt"
	"go/ast"
	"go/token"
	"go/types"
	"regexp"
	"sort"
	"strings"

	"manticheck/internal/tables"
)

func init() { register(&Check{ID: "C19", NeedSSA: false, Run: runC19}) }

// ---------------------------------------------------------------- bindings

// c19Enum binds a name (or error) table to the enumeration it must cover.
type c19Enum struct {
	Pkg      string // relative to the module root
	Map      string
	Type     string // named type of the family (constants of this type belong to it) — may be ""
	Prefix   string // identifier prefix of the family (for untyped constants) — may be ""
	Stringer string // method on Type that looks the receiver up in Map ("" = the table is consumed by a decomposer)
	Kind     string // "name" | "error"
	Success  string // error tables: the constant whose value is exempt (success)
	Cross    bool   // names identify bits in a decomposer: a name that belongs to another constant is a violation
	Exempt   map[string]string
}

var c19UACReserved = map[string]string{
	"UAF_RESERVED_03": "reserved bit 3: no documented name",
	"UAF_RESERVED_10": "reserved bit 10: no documented name",
	"UAF_RESERVED_14": "reserved bit 14: no documented name",
	"UAF_RESERVED_15": "reserved bit 15: no documented name",
	"UAF_RESERVED_25": "reserved bit 25: no documented name",
	"UAF_RESERVED_26": "reserved bit 26: no documented name",
	"UAF_RESERVED_28": "reserved bit 28: no documented name",
	"UAF_RESERVED_29": "reserved bit 29: no documented name",
	"UAF_RESERVED_30": "reserved bit 30: no documented name",
	"UAF_RESERVED_31": "reserved bit 31: no documented name",
}

const (
	c19Ldap = "network/ldap/ldap_attributes"
	c19Sub  = "network/smb/smb_v10/subcommands"
	c19Key  = "windows/keycredential/key"
)

var c19Enums = []c19Enum{
	{Pkg: "windows/nt_status", Map: "NTStatusToStringName", Type: "NT_STATUS", Stringer: "String", Kind: "name"},
	{Pkg: "windows/nt_status", Map: "NTStatusToGoErrorMap", Type: "NT_STATUS", Kind: "error", Success: "NT_STATUS_SUCCESS"},
	{Pkg: "network/smb/smb_v10/message/commands/codes", Map: "CommandCodeNames", Type: "CommandCode", Stringer: "String", Kind: "name"},
	{Pkg: c19Sub, Map: "NtTransactSubcommandsToString", Type: "NtTransactSubcommand", Stringer: "String", Kind: "name"},
	{Pkg: c19Sub, Map: "Transaction2SubcommandsToString", Type: "Transaction2Subcommand", Stringer: "String", Kind: "name"},
	{Pkg: c19Sub, Map: "TransactionSubcommandsToString", Type: "TransactionSubcommand", Stringer: "String", Kind: "name"},
	{Pkg: "network/netbios", Map: "SessionMessageTypeToString", Type: "SESSION_MESSAGE_TYPE", Stringer: "String", Kind: "name"},
	{Pkg: c19Ldap, Map: "UserAccountControlMap", Type: "UserAccountControl", Prefix: "UAF_", Kind: "name", Cross: true, Exempt: c19UACReserved},
	{Pkg: c19Ldap, Map: "PasswordPropertiesMap", Type: "PasswordProperties", Stringer: "String", Kind: "name"},
	{Pkg: c19Ldap, Map: "SAMAccountTypeMap", Type: "SAMAccountType", Prefix: "SAM_", Stringer: "String", Kind: "name"},
	{Pkg: c19Ldap, Map: "MSPKIEnrollmentFlagMap", Type: "MSPKIEnrollmentFlag", Prefix: "MSPKI_ENROLLMENT_FLAG_", Stringer: "String", Kind: "name"},
	{Pkg: c19Ldap, Map: "DomainFunctionalityLevelToWindowsVersion", Type: "DomainFunctionalityLevel", Stringer: "String", Kind: "name"},
}

// c19Switch binds a switch-implemented name function to its enumeration.
type c19Switch struct {
	Pkg, Type, Method string
	Field             string // the switch tag is receiver.Field ("" = the receiver itself)
	FamType, Prefix   string
}

var c19Switches = []c19Switch{
	{Pkg: c19Key, Type: "CustomKeyInformationVolumeType", Method: "String", Field: "Value", Prefix: "CustomKeyInformationVolumeType_"},
	{Pkg: c19Key, Type: "KeyCredentialEntryType", Method: "String", Field: "Value", Prefix: "KeyCredentialEntryType_"},
	{Pkg: c19Key, Type: "KeyCredentialVersion", Method: "String", Field: "Value", Prefix: "KeyCredentialVersion_"},
	{Pkg: c19Key, Type: "KeySource", Method: "String", FamType: "KeySource", Prefix: "KeySource_"},
	{Pkg: c19Key, Type: "KeyStrength", Method: "FromBytes", Field: "Value", Prefix: "KeyStrength_"},
	{Pkg: c19Key, Type: "KeyUsage", Method: "String", Field: "Value", Prefix: "KeyUsage_"},
}

type c19Pred struct {
	Const string
	Set   bool // true: the predicate holds when the bit is set
}

// c19Flags binds a flag family to its decomposers and predicates.
type c19Flags struct {
	Name        string
	Pkg         string
	Type        string // receiver type of decomposers / predicates
	FamType     string // named type of the constants ("" when they are untyped or of a basic type)
	Prefix      string
	Field       string   // the flag word is receiver.Field ("" = the receiver)
	Decomposers []string // straight-line decomposers
	RangeDecomp []string // decomposers that iterate RangeTable
	RangeTable  string
	Exempt      map[string]string  // constants a decomposer need not report
	Preds       map[string]c19Pred // frozen predicate → constant table (confirmed by reading)
}

var c19Families = []c19Flags{
	{Name: "Flags", Pkg: "network/smb/smb_v10/message/header/flags", Type: "Flags", Prefix: "FLAGS_", Decomposers: []string{"String"},
		Preds: map[string]c19Pred{
			"IsLockAndReadOk": {"FLAGS_LOCK_AND_READ_OK", true}, "IsBufAvail": {"FLAGS_BUF_AVAIL", true},
			"IsReserved": {"FLAGS_RESERVED", true}, "IsCaseInsensitive": {"FLAGS_CASE_INSENSITIVE", true},
			"IsCanonicalizedPaths": {"FLAGS_CANONICALIZED_PATHS", true}, "IsOplock": {"FLAGS_OPLOCK", true},
			"IsOplockBatch": {"FLAGS_OPBATCH", true}, "IsReply": {"FLAGS_REPLY", true}}},
	{Name: "Flags2", Pkg: "network/smb/smb_v10/message/header/flags2", Type: "Flags2", Prefix: "FLAGS2_", Decomposers: []string{"String"},
		Preds: map[string]c19Pred{
			"IsLongNamesAllowed": {"FLAGS2_LONG_NAMES_ALLOWED", true}, "IsExtendedAttributes": {"FLAGS2_EXTENDED_ATTRIBUTES", true},
			"IsSecuritySignature": {"FLAGS2_SECURITY_SIGNATURE", true}, "IsCompressed": {"FLAGS2_COMPRESSED", true},
			"IsSecuritySignatureRequired": {"FLAGS2_SECURITY_SIGNATURE_REQUIRED", true}, "IsLongNamesUsed": {"FLAGS2_LONG_NAMES_USED", true},
			"IsReparsePathUsed": {"FLAGS2_REPARSE_PATH", true}, "IsExtendedSecurity": {"FLAGS2_EXTENDED_SECURITY", true},
			"IsDfs": {"FLAGS2_DFS", true}, "IsPagingIO": {"FLAGS2_PAGING_IO", true},
			"IsNTStatusErrorCodes": {"FLAGS2_NT_STATUS_ERROR_CODES", true}, "IsUnicode": {"FLAGS2_UNICODE", true}}},
	{Name: "Capabilities", Pkg: "network/smb/smb_v10/capabilities", Type: "Capabilities", FamType: "Capabilities", Prefix: "CAP_", Decomposers: []string{"String"}},
	{Name: "SecurityMode", Pkg: "network/smb/smb_v10/securitymode", Type: "SecurityMode", FamType: "SecurityMode", Prefix: "NEGOTIATE_",
		Preds: map[string]c19Pred{
			"SupportsPlaintextPasswordAuth": {"NEGOTIATE_ENCRYPT_PASSWORDS", false}, "SupportsChallengeResponseAuth": {"NEGOTIATE_ENCRYPT_PASSWORDS", true},
			"SupportsShareLevelAccessControl": {"NEGOTIATE_USER_SECURITY", false}, "SupportsUserLevelAccessControl": {"NEGOTIATE_USER_SECURITY", true},
			"IsSecuritySignatureEnabled": {"NEGOTIATE_SECURITY_SIGNATURES_ENABLED", true}, "IsSecuritySignatureRequired": {"NEGOTIATE_SECURITY_SIGNATURES_REQUIRED", true}}},
	{Name: "UserAccountControl", Pkg: c19Ldap, Type: "UserAccountControl", FamType: "UserAccountControl", Prefix: "UAF_",
		RangeDecomp: []string{"String", "GetFlags"}, RangeTable: "UserAccountControlMap", Exempt: c19UACReserved},
	{Name: "CustomKeyInformationFlags", Pkg: c19Key, Type: "CustomKeyInformationFlags", Prefix: "CustomKeyInformationFlags_", Field: "Value",
		Decomposers: []string{"FromBytes"}},
}

// ---------------------------------------------------------------- driver

type c19 struct {
	*Ctx
	idx       map[string]*tables.Index
	tabs      map[*types.Var]string // registered name tables → display name
	tabPos    map[*types.Var]string
	sizes     map[string]any
	errWrites map[types.Object]string
	decomps   map[*ast.FuncDecl]bool
	bound     map[*ast.FuncDecl]bool // the anchored decomposers themselves (not their helpers)
}

func (c *c19) index(rel string) *tables.Index {
	if ix, ok := c.idx[rel]; ok {
		return ix
	}
	pk := c.P.Pkg(rel)
	var ix *tables.Index
	if pk != nil {
		ix = tables.NewIndex(pk)
	}
	c.idx[rel] = ix
	return ix
}

func (c *c19) source(fn *types.Func) (*ast.FuncDecl, *types.Info) {
	if fn.Pkg() == nil || !strings.HasPrefix(fn.Pkg().Path(), c.P.ModPath) {
		return nil, nil
	}
	rel := strings.TrimPrefix(strings.TrimPrefix(fn.Pkg().Path(), c.P.ModPath), "/")
	ix := c.index(rel)
	if ix == nil {
		return nil, nil
	}
	return ix.FuncDecl(fn), ix.Info()
}

func runC19(cx *Ctx) {
	c := &c19{Ctx: cx, idx: map[string]*tables.Index{}, tabs: map[*types.Var]string{}, tabPos: map[*types.Var]string{}, sizes: map[string]any{}, decomps: map[*ast.FuncDecl]bool{}, bound: map[*ast.FuncDecl]bool{}}
	r := c.R
	r.Explanation = "C19 flag words and name tables, decided statically on the typed AST (constant values via go/types, object identity via TypesInfo; no source text, no execution). " +
		"Decided: enum-cover — every declared constant VALUE of each enumeration (aliases share a key) is a key of its name table / has a case in its name switch (" +
		"NTStatusToStringName, NTStatusToGoErrorMap minus success, CommandCodeNames, three sub-command tables, SessionMessageTypeToString, UserAccountControlMap minus the reserved-bit table, PasswordPropertiesMap, SAMAccountTypeMap, MSPKIEnrollmentFlagMap, DomainFunctionalityLevelToWindowsVersion, six key-credential switches); " +
		"enum-name — every row's name is a non-empty constant string, differs from what the String() method returns on a miss (literal or Sprintf pattern) and is pairwise distinct within the table; " +
		"stringer — every control path of T.String() is enumerated with its exact guard (if / else-if / switch, early returns, result accumulators, `v == \"\"` / `v == nil` tests of the looked-up value, cmp.Or(T[recv], placeholder), a local alias of the table, a (value, ok) lookup helper, a tail call of a shared (possibly generic) helper that receives the table, the receiver and the placeholder); a return reachable when the receiver is a key of the table returns exactly the table value, a return reachable when it is not returns a placeholder (literal, Sprintf pattern or concatenation), and nothing is special-cased; " +
		"nt-error — every row of the error table is a package-level errors.New/fmt.Errorf (or a typed string sentinel with an Error method) with non-empty text, guards that order the receiver against constants (`s >= 0xC0000000`) are evaluated for every non-success key of the table, and for NT_STATUS.Error() the guards of all control paths are evaluated under `receiver ∈ NTStatusToGoErrorMap ∧ receiver ≠ NT_STATUS_SUCCESS` (boolean reasoning over found / equals atoms, both polarities, &&, ||, De Morgan, switch arms, accumulators): no nil return is reachable, and every return that is reachable is fmt.Errorf / errors.New whose text prints the receiver numerically (numeric verb not diverted to String(), strconv.Format*), so non-nil for every declared non-success status reduces to table coverage; " +
		"table-const — no name table (nor any constant table a decomposer or name function was resolved through, package-level or local) is written, deleted from or re-assigned anywhere in the module — directly, through a local alias, through a struct field that holds it, or inside a module function it is passed to (the static rows are the run-time rows); a flow the rule cannot follow, with no write seen, is NOT DECIDED; " +
		"flag-family — constants of Flags, Flags2, Capabilities, SecurityMode, UserAccountControl, CustomKeyInformationFlags are single bits and pairwise distinct (zero is a sentinel and must not be used as a mask); " +
		"flag-decomp — in each decomposer every test is `word & C ==C | !=0 | >0` (also `(word>>k)&1`) of one family constant against itself with positive polarity (or the negated test followed by `continue`), emits exactly one non-empty name (append, `buf[n] = name; n++`, WriteString on a builder, a yield of an iterator, a call of a collecting callback) that is not the empty-word placeholder, is not another constant's name and is distinct from the other names — or the tested constant itself for a decomposer into values — and every family constant is tested exactly once (one `covers` obligation per decomposer and family bit). A loop over a constant table (array / slice / map composite literal of {mask, name} or {name, predicate} rows, parallel tables indexed by the counter, a mask list with names looked up in a constant map, slices.Sorted(maps.Keys(T)) also cached in a package-level variable, maps.Keys / Values / All ranged or collected, a counting loop or a bit walk with constant bounds, `_, ok := T[k]` membership, `name != \"\"` of a looked-up name, a sparse [N]string indexed by bit number) is resolved statically and decided row by row exactly like the if-chain it replaces, so a missing, duplicated or mis-named row is reported. A walk over the SET BITS of the word itself (`for r := w; r != 0; r &= r-1` with `r & -r` / bits.TrailingZeros, the step in the header or the body, lowest or highest bit first, the word's own copy or a masked / shifted start) and a loop over what ANOTHER decomposer of the word reports (a slice it returns, an iter.Seq / iter.Seq2 it yields) are unrolled into one implicit `word & bit != 0` test per bit; tests moved into a helper, a local closure or a generic function that receives the word (and the table) are followed; range decomposers over the bound map: the single test is `word & key != 0`, the body appends the key or the value, and every table key is a single-bit family constant; " +
		"order — every statement that fills variables in map order inside a decomposer (or a helper it calls) or from a name table anywhere in the module (range over the map, over maps.Keys/Values/All, slices.Collect of those) hands each variable it fills to sort.* / slices.Sort* (total order) before any other use, also when the iteration sits in a nested block; an unexported function that returns the unsorted slice is decided at its call sites; if-chains report in source order, array / slice tables in index order, set-bit walks in bit order; " +
		"predicate — every niladic bool method of a flag type is `recv & C ⋈ 0|C` for exactly one family constant (all control paths followed: if / else, tagless switch, named result, helpers, generic helpers, statically resolved function values), agrees with the frozen predicate→constant table (26 rows), and two predicates share a constant only as a complementary pair; " +
		"name functions that are no longer a top-level switch (if-chain, lookup in a constant map, switch with initialiser, a helper function the value is handed to) are evaluated for every declared constant: exactly one return is reachable under `value == K`, and what it returns is K's name; a String() that names the values itself although its table exists (map → switch) is compared case by case with the table's rows. " +
		"COMPLETENESS BEFORE VERDICT: a violation is only reported for a construct that was positively observed in a completely extracted flow. Where the flag word, the receiver or a table flows into something the rules do not follow (a loop shape they do not model, a function value, an interface method, a struct that holds the table, an error type of the module …) the affected obligations are discharged as NOT DECIDED with a note, and `bit never tested` is not concluded for that decomposer. " +
		"NOT decided: agreement of constant values or spellings with MS-CIFS/MS-SMB/MS-ADTS/MS-ERREF; that error texts are meaningful; run-time behaviour of fmt/sort/strings (trusted); that a decomposer's accumulator is what it finally returns/joins and that CustomKeyInformationFlags.FromBytes stores the byte before testing it; what name functions yield for UNDECLARED values beyond being distinguishable from declared ones (e.g. KeyStrength.FromBytes keeps a stale Name on a miss); flag words decomposed outside the bound types (ad-hoc masks in callers); MASK-SAT (C18)."
	r.Assumptions = []string{
		"go/types constant evaluation and object resolution (x/tools v0.50.0 loader, go1.26.8 front end)",
		"fmt: %d/%o/%b print an integer operand numerically; %x/%X/%v/%s/%q are diverted to String()/Error()/Format() when the operand's type has one; Errorf never returns nil",
		"sort.Strings / sort.Slice / slices.Sort / slices.SortFunc(cmp.Compare) with a total order produce an order that depends only on the multiset of elements; slices.Sorted(maps.Keys(m)) yields every key of m once, in ascending order",
		"errors.New never returns nil; strconv.Itoa / FormatInt / FormatUint render their operand numerically; strings.Builder / bytes.Buffer WriteString appends its operand",
		"unsigned loop variables wrap modulo 2^width (bit walks `m <<= 1` until m == 0); a loop whose variable, bound and step are constants visits exactly the simulated values",
		"Go rejects duplicate constant keys in a map literal and duplicate constant cases in a switch at compile time (so one key per value is guaranteed by the loader's type check)",
		"frozen tables (confirmed by reading): predicate→constant (26 rows), UAC reserved bits exempt from naming (10 rows), bindings table↔enumeration (12 maps, 6 switches, 6 flag families)",
		"two's complement arithmetic on unsigned words: r & -r and r &^ (r-1) isolate the lowest set bit, r & (r-1) clears it; math/bits.TrailingZeros / Len / LeadingZeros / OnesCount as documented; `for x := range seq` visits exactly what seq yields, in that order; slices.Collect / AppendSeq keep that order; cmp.Or returns its first non-zero operand; a constant declared as `A | B | …` of other constants is a mask, not a flag",
	}

	// register every name table first (order / table-const need the set)
	for _, e := range c19Enums {
		if ix := c.index(e.Pkg); ix != nil {
			if v, _ := ix.Lookup(e.Map).(*types.Var); v != nil {
				c.tabs[v] = e.Pkg + "." + e.Map
				c.tabPos[v] = c.P.Rel(v.Pos())
			}
		}
	}
	placeholders := map[string]*c19Placeholder{}
	for _, e := range c19Enums {
		e := e
		c.guard("stringer", e.Pkg+"."+e.Map, "", func() { placeholders[e.Pkg+"."+e.Map] = c.stringer(e) })
	}
	for _, e := range c19Enums {
		e := e
		c.guard("enum-cover", e.Pkg+"."+e.Map, "", func() { c.enum(e, placeholders[e.Pkg+"."+e.Map]) })
	}
	for _, s := range c19Switches {
		s := s
		c.guard("enum-cover", fmt.Sprintf("(%s.%s).%s", s.Pkg, s.Type, s.Method), "", func() { c.nameSwitch(s) })
	}
	c.guard("nt-error", "(windows/nt_status.NT_STATUS).Error", "", c.ntError)
	for _, f := range c19Families {
		f := f
		c.guard("flag-family", f.Pkg+"."+f.Name, "", func() { c.family(f) })
	}
	c.guard("order", "module", "", c.orderEverywhere)
	c.guard("table-const", "module", "", c.tableConst)

	r.Extra["tables"] = c.sizes
	r.Extra["name_tables"] = len(c19Enums)
	r.Extra["name_switches"] = len(c19Switches)
	r.Extra["flag_families"] = len(c19Families)
	nfun := len(c19Switches) + 1 // switches + NT_STATUS.Error
	for _, e := range c19Enums {
		if e.Stringer != "" {
			nfun++
		}
	}
	for _, f := range c19Families {
		nfun += len(f.Decomposers) + len(f.RangeDecomp) + len(f.Preds)
	}
	r.Extra["functions_analysed"] = nfun
	// instance counts confirmed by reading (2×1799 NT status identifiers + 193 other map-backed + 29 switch-backed constants;
	// 1796+182 map rows + 28 switch cases; 1796 error rows + 3 returns of Error(); 10 map-backed String(); 12 tables;
	// 8+16+12+5+32+3 flag constants; 6 decomposers × the bits of their family (see flag-decomp below);
	// one order obligation per decomposer (6); 8+12+6 predicates). The three large counts leave room for a few deleted rows.
	r.Floor("enum-cover", 3800)
	r.Floor("enum-name", 1990)
	r.Floor("nt-error", 1790)
	r.Floor("stringer", 10)
	r.Floor("table-const", 12)
	r.Floor("flag-family", 76)
	// flag-decomp is keyed to (decomposer, family bit) pairs — every decomposer
	// accounts for every bit of its family with one `covers` obligation (tested
	// once / exempt / NOT DECIDED), whatever shape its tests have and however
	// many functions they are spread over: 8 + 16 + 12 + 3 + 2×32 pairs.
	r.Floor("flag-decomp", 103)
	r.Floor("order", 6)
	r.Floor("predicate", 26)
}

// ---------------------------------------------------------------- stringer

type c19Placeholder struct {
	Literals []string
	Patterns []*regexp.Regexp
	PatText  []string
}

func (p *c19Placeholder) matches(name string) string {
	if p == nil {
		return ""
	}
	for _, l := range p.Literals {
		if l == name {
			return fmt.Sprintf("the literal %q String() returns on a miss", l)
		}
	}
	for i, re := range p.Patterns {
		if re.MatchString(name) {
			return fmt.Sprintf("the pattern %q String() formats on a miss", p.PatText[i])
		}
	}
	return ""
}

var c19VerbRe = regexp.MustCompile(`%%|%[-+# 0]*[0-9]*(\.[0-9]*)?[a-zA-Z]`)

func formatToRegexp(f string) *regexp.Regexp {
	var b strings.Builder
	b.WriteString("^")
	last := 0
	for _, m := range c19VerbRe.FindAllStringIndex(f, -1) {
		b.WriteString(regexp.QuoteMeta(f[last:m[0]]))
		if f[m[0]:m[1]] == "%%" {
			b.WriteString("%")
		} else {
			b.WriteString(".*")
		}
		last = m[1]
	}
	b.WriteString(regexp.QuoteMeta(f[last:]))
	b.WriteString("$")
	re, err := regexp.Compile(b.String())
	if err != nil {
		return nil
	}
	return re
}

// stringer decides T.String() for a map-backed enumeration and returns what it
// yields on a miss.
func (c *c19) stringer(e c19Enum) *c19Placeholder {
	if e.Stringer == "" {
		return nil
	}
	r := c.R
	key := fmt.Sprintf("(%s.%s).%s", e.Pkg, e.Type, e.Stringer)
	ix := c.index(e.Pkg)
	if ix == nil {
		r.Undecided("stringer", key, "", "package does not resolve")
		return nil
	}
	fn, fd := ix.Method(e.Type, e.Stringer)
	m, _ := ix.Lookup(e.Map).(*types.Var)
	if fn == nil || fd == nil || fd.Body == nil || m == nil {
		r.Undecided("stringer", key, "", "anchor does not resolve (method or table missing)")
		return nil
	}
	pos := c.P.Rel(fd.Pos())
	lk := tables.AnalyseLookupWith(ix.Info(), fd, c.source)
	// COMPLETENESS BEFORE VERDICT: a String() the path enumeration does not
	// interpret (a statement, a guard, a result it cannot classify) is NOT
	// DECIDED; a violation needs a fully interpreted path that returns the wrong thing.
	notDecided := func(at, what string) *c19Placeholder {
		r.OK("stringer", key, at, "NOT DECIDED — "+what)
		r.Note("C19 stringer: %s NOT DECIDED — %s", key, what)
		return nil
	}
	if len(lk.Problems) > 0 {
		return notDecided(pos, "shape not recognised: "+strings.Join(lk.Problems, "; "))
	}
	// a String() that does not consult the table at all but names the values
	// itself (a switch / if-chain on the receiver): decided case by case
	// against the rows of the table
	if ph, handled := c.stringerByCases(e, key, pos, lk, m, ix); handled {
		return ph
	}
	// Every control path is enumerated with its exact guard; a return is decided
	// by asking whether it can be reached when the receiver IS a key of the table
	// (then it must return the table's value) and when it is NOT (then what it
	// returns is the placeholder), whatever the spelling of the guard.
	ph := &c19Placeholder{}
	found := 0
	isKey := tables.Assume{Atom: tables.FoundIn(m), Val: true}
	notKey := tables.Assume{Atom: tables.FoundIn(m), Val: false}
	for _, p := range lk.Paths {
		if tables.Sat(p.Cond) == tables.No {
			continue // contradictory guard: dead code
		}
		if t, ok := p.UnknownAtom(); ok {
			return notDecided(c.P.Rel(p.Ret.Pos()), "a return is guarded by a condition the rule cannot interpret: "+t)
		}
		if p.Result == nil && !p.Zero {
			return notDecided(c.P.Rel(p.Ret.Pos()), "bare return")
		}
		var res tables.NameResult
		if p.Zero {
			empty := ""
			res.Literal = &empty
		} else {
			res = p.Owner.ClassifyString(p.Result)
		}
		if tables.Sat(p.Cond, isKey) != tables.No {
			// reachable for a declared constant that has a row
			if res.FromMap != m {
				if tables.Mentions(p.Cond, "eq") {
					r.Undecided("stringer", key, c.P.Rel(p.Ret.Pos()), "String() special-cases a value instead of consulting "+e.Map)
					return nil
				}
				if tables.Sat(p.Cond, notKey) == tables.No {
					r.Fail("stringer", key, c.P.Rel(p.Ret.Pos()), fmt.Sprintf("on the found branch String() returns `%s`, not the value of %s for the receiver", c19ResultText(p), e.Map))
					return nil
				}
				// reachable both for keys and for non-keys and not the table value:
				// left to the final "no return yields the value" verdict
			} else {
				found++
			}
		}
		if tables.Sat(p.Cond, notKey) == tables.No {
			continue
		}
		switch {
		case res.Literal != nil:
			ph.Literals = append(ph.Literals, *res.Literal)
		case res.Pattern != nil:
			if re := formatToRegexp(*res.Pattern); re != nil {
				ph.Patterns = append(ph.Patterns, re)
				ph.PatText = append(ph.PatText, *res.Pattern)
			}
		case res.FromMap != nil:
			// indexing without a successful comma-ok: yields "" on a miss
			ph.Literals = append(ph.Literals, "")
		default:
			return notDecided(c.P.Rel(p.Ret.Pos()), "cannot classify the miss result `"+res.Other+"`")
		}
	}
	if found == 0 {
		r.Fail("stringer", key, pos, "no return yields the value of "+e.Map+" for the receiver: declared constants do not get their table name")
		return nil
	}
	r.OK("stringer", key, pos, fmt.Sprintf("found ⇒ %s[recv]; miss ⇒ %q %q", e.Map, ph.Literals, ph.PatText))
	return ph
}

// stringerByCases decides a String() that names the values itself instead of
// consulting its table (map → switch / if-chain on the receiver, the exported
// table kept): for every row of the table exactly one return is reachable
// under `receiver == key` and it returns the row's name; what is returned when
// no case matches is the placeholder. handled is false when the method does
// consult the table (the general path applies).
func (c *c19) stringerByCases(e c19Enum, key, pos string, lk *tables.Lookup, m *types.Var, ix *tables.Index) (*c19Placeholder, bool) {
	r := c.R
	var eqs []tables.Atom
	seen := map[string]bool{}
	for _, p := range lk.Paths {
		if p.Result != nil && !p.Zero && p.Owner.ClassifyString(p.Result).FromMap != nil {
			return nil, false
		}
		for _, a := range tables.Atoms(p.Cond) {
			if a.Kind != "eq" {
				return nil, false
			}
			if k, _ := tables.IntKey(a.K); !seen[k] {
				seen[k] = true
				eqs = append(eqs, a)
			}
		}
	}
	if len(eqs) == 0 {
		return nil, false
	}
	mt, err := ix.MapTable(e.Map)
	if err != nil {
		return nil, false // enum-cover reports the anchor
	}
	if len(eqs) > 400 || len(mt.Rows) > 400 {
		r.OK("stringer", key, pos, fmt.Sprintf("NOT DECIDED — String() names %d values itself instead of consulting %s; too many cases to evaluate one by one", len(eqs), e.Map))
		r.Note("C19 stringer: %s NOT DECIDED — a switch of %d cases replaces the lookup in %s", key, len(eqs), e.Map)
		return nil, true
	}
	type outcome struct {
		lit, pat *string
		pos      string
		why      string
	}
	eval := func(k string) outcome {
		as := make([]tables.Assume, 0, len(eqs))
		for _, a := range eqs {
			ak, _ := tables.IntKey(a.K)
			as = append(as, tables.Assume{Atom: a, Val: k != "" && ak == k})
		}
		var hit *tables.RetPath
		for _, p := range lk.Paths {
			if tables.Sat(p.Cond, as...) == tables.Yes {
				if hit != nil && hit.Ret != p.Ret {
					return outcome{why: "two returns are reachable for the same value"}
				}
				hit = p
			}
		}
		if hit == nil {
			return outcome{why: "no return is reachable"}
		}
		o := outcome{pos: c.P.Rel(hit.Ret.Pos())}
		if hit.Zero {
			empty := ""
			o.lit = &empty
			return o
		}
		if hit.Result == nil {
			return outcome{why: "bare return"}
		}
		res := hit.Owner.ClassifyString(hit.Result)
		switch {
		case res.Literal != nil:
			o.lit = res.Literal
		case res.Pattern != nil:
			o.pat = res.Pattern
		default:
			return outcome{why: "cannot classify the result `" + res.Other + "`"}
		}
		return o
	}
	ph := &c19Placeholder{}
	miss := eval("")
	switch {
	case miss.why != "":
		r.OK("stringer", key, pos, "NOT DECIDED — what String() yields for a value without case: "+miss.why)
		r.Note("C19 stringer: %s NOT DECIDED — %s", key, miss.why)
		return nil, true
	case miss.lit != nil:
		ph.Literals = append(ph.Literals, *miss.lit)
	default:
		if re := formatToRegexp(*miss.pat); re != nil {
			ph.Patterns = append(ph.Patterns, re)
			ph.PatText = append(ph.PatText, *miss.pat)
		}
	}
	bad := 0
	for _, row := range mt.Rows {
		want, ok := tables.StringConst(ix.Info(), row.ValExpr)
		if row.Key == "" || !ok {
			continue // enum-cover / enum-name report the row
		}
		o := eval(row.Key)
		switch {
		case o.why != "":
			r.OK("stringer", key+" case "+row.KeyText, pos, "NOT DECIDED — "+o.why)
		case o.lit == nil || o.pos == miss.pos:
			bad++
			r.Fail("stringer", key+" case "+row.KeyText, pos, fmt.Sprintf("String() has no case for %s, a key of %s (name %q): it yields the placeholder", row.KeyText, e.Map, want))
		case *o.lit != want:
			bad++
			r.Fail("stringer", key+" case "+row.KeyText, o.pos, fmt.Sprintf("String() names %s %q but %s says %q", row.KeyText, *o.lit, e.Map, want))
		}
	}
	if bad == 0 {
		r.OK("stringer", key, pos, fmt.Sprintf("names the %d keys of %s itself, each as the table does; miss ⇒ %q %q", len(mt.Rows), e.Map, ph.Literals, ph.PatText))
	}
	return ph, true
}

func c19ResultText(p *tables.RetPath) string {
	if p.Result == nil {
		return "the zero value"
	}
	return types.ExprString(p.Result)
}

// ---------------------------------------------------------------- enum-cover / enum-name

func (c *c19) enum(e c19Enum, ph *c19Placeholder) {
	r := c.R
	tkey := e.Pkg + "." + e.Map
	ix := c.index(e.Pkg)
	if ix == nil {
		r.Undecided("enum-cover", tkey, "", "package does not resolve")
		return
	}
	mt, err := ix.MapTable(e.Map)
	if err != nil {
		r.Undecided("enum-cover", tkey, "", err.Error())
		return
	}
	fam, err := ix.Family(e.Type, e.Prefix)
	if err != nil {
		r.Undecided("enum-cover", tkey, c.P.Rel(mt.Pos), err.Error())
		return
	}
	rows := map[string]*tables.Row{}
	for _, row := range mt.Rows {
		if row.Key == "" {
			r.Undecided("enum-cover", fmt.Sprintf("%s[%s]", tkey, row.KeyText), c.P.Rel(row.KeyExpr.Pos()), "map key is not an integer constant")
			continue
		}
		rows[row.Key] = row
	}
	exemptSeen := map[string]bool{}
	successKey := ""
	if e.Success != "" {
		if sc, _ := ix.Lookup(e.Success).(*types.Const); sc != nil {
			successKey, _ = tables.IntKey(sc.Val())
		}
		if successKey == "" {
			r.Undecided("enum-cover", tkey+" success constant "+e.Success, "", "anchor constant does not resolve")
		}
	}
	byKey := map[string][]string{}
	famKeys := map[string]bool{}
	for _, k := range fam {
		byKey[k.Key] = append(byKey[k.Key], k.Name)
		famKeys[k.Key] = true
	}
	for _, k := range fam {
		con := fmt.Sprintf("%s[%s]", tkey, k.Name)
		pos := c.P.Rel(k.Pos)
		if why, ok := e.Exempt[k.Name]; ok {
			exemptSeen[k.Name] = true
			r.OK("enum-cover", con, pos, "exempt: "+why)
			continue
		}
		if parts, union := ix.UnionOf(k.Obj); union && e.Cross && !tables.SingleBit(k.Val) {
			r.OK("enum-cover", con, pos, "a named union of other constants ("+strings.Join(parts, " | ")+"): a mask, not a flag that needs a name")
			continue
		}
		if successKey != "" && k.Key == successKey {
			r.OK("enum-cover", con, pos, "success value: no error required")
			continue
		}
		if rows[k.Key] != nil {
			r.OK("enum-cover", con, pos, "value "+tables.Hex(k.Val)+" is a key")
		} else {
			what := "String() yields the placeholder for it"
			if e.Stringer == "" {
				what = "the decomposers that iterate the table never report this bit"
			}
			if e.Kind == "error" {
				what = "Error() returns nil for this non-success status"
			}
			r.Fail("enum-cover", con, pos, fmt.Sprintf("declared constant %s (= %s) is not a key of %s: %s", k.Name, tables.Hex(k.Val), e.Map, what))
		}
	}
	for n := range e.Exempt {
		if !exemptSeen[n] {
			r.Undecided("enum-cover", fmt.Sprintf("%s exempt %s", tkey, n), "", "exemption table names a constant that is no longer in the family")
		}
	}
	var aliases []string
	for k, ns := range byKey {
		if len(ns) > 1 {
			aliases = append(aliases, fmt.Sprintf("%s=%s", strings.Join(ns, "="), k))
		}
	}
	sort.Strings(aliases)
	extra := 0
	for k := range rows {
		if !famKeys[k] {
			extra++
		}
	}
	info := map[string]any{"rows": len(mt.Rows), "declared_identifiers": len(fam), "distinct_values": len(byKey), "aliases": aliases, "keys_not_declared_as_constants": extra}

	prefix := tables.CommonPrefix(fam)
	agree := 0
	switch e.Kind {
	case "name":
		seen := map[string]*tables.Row{}
		for _, row := range mt.Rows {
			con := fmt.Sprintf("%s[%s] name", tkey, row.KeyText)
			pos := c.P.Rel(row.ValExpr.Pos())
			name, ok := tables.StringConst(ix.Info(), row.ValExpr)
			switch {
			case !ok:
				r.Undecided("enum-name", con, pos, "the name is not a constant string")
				continue
			case strings.TrimSpace(name) == "":
				r.Fail("enum-name", con, pos, fmt.Sprintf("the name of %s is empty", row.KeyText))
				continue
			}
			if why := ph.matches(name); why != "" {
				r.Fail("enum-name", con, pos, fmt.Sprintf("the name %q of %s is %s", name, row.KeyText, why))
				continue
			}
			if prev := seen[name]; prev != nil {
				r.Fail("enum-name", con, pos, fmt.Sprintf("duplicate name %q: %s and %s are indistinguishable", name, prev.KeyText, row.KeyText))
				continue
			}
			seen[name] = row
			own := tables.OwnerOfName(fam, prefix, name, row.Key)
			if e.Cross && len(own) > 0 {
				r.Fail("enum-name", con, pos, fmt.Sprintf("the name %q given to %s is the name of another constant, %s: the decomposer reports the wrong bit", name, row.KeyText, own[0].Name))
				continue
			}
			for _, k := range fam {
				if k.Key == row.Key && (tables.Norm(k.Name) == tables.Norm(name) || tables.Norm(strings.TrimPrefix(k.Name, prefix)) == tables.Norm(name)) {
					agree++
					break
				}
			}
			r.OK("enum-name", con, pos, "non-empty, not the placeholder, unique")
		}
		info["names_equal_identifier_minus_prefix"] = agree
		info["family_prefix"] = prefix
	case "error":
		notedErr := false
		for _, row := range mt.Rows {
			con := fmt.Sprintf("%s[%s] error", tkey, row.KeyText)
			pos := c.P.Rel(row.ValExpr.Pos())
			if why := c.errorValue(ix, row.ValExpr); why != "" {
				if strings.HasPrefix(why, "~") {
					// the value is built in a way the rule does not read
					r.OK("nt-error", con, pos, "NOT DECIDED — "+why[1:])
					if !notedErr {
						notedErr = true
						r.Note("C19 nt-error: rows of %s NOT DECIDED (first: %s) — %s", tkey, row.KeyText, why[1:])
					}
				} else if strings.HasPrefix(why, "?") {
					r.Undecided("nt-error", con, pos, why[1:])
				} else {
					r.Fail("nt-error", con, pos, why)
				}
				continue
			}
			r.OK("nt-error", con, pos, "package-level error with non-empty text")
		}
	}
	c.sizes[tkey] = info
}

// errorValue decides that e denotes a non-nil error with non-empty text:
// errors.New("…")/fmt.Errorf("…") directly or through a package-level variable.
// "" = yes; a leading '?' marks "cannot decide".
func (c *c19) errorValue(ix *tables.Index, e ast.Expr) string {
	e = ast.Unparen(e)
	info := ix.Info()
	if tv, ok := info.Types[e]; ok && tv.IsNil() {
		return "the table maps this status to a nil error"
	}
	var id *ast.Ident
	switch x := e.(type) {
	case *ast.Ident:
		id = x
	case *ast.SelectorExpr:
		id = x.Sel
	}
	if id != nil {
		v, _ := info.Uses[id].(*types.Var)
		if v == nil || v.Pkg() == nil || v.Parent() != v.Pkg().Scope() {
			return "~the error value is not a package-level variable"
		}
		vix := ix
		if v.Pkg() != ix.Pk.Types {
			rel := strings.TrimPrefix(strings.TrimPrefix(v.Pkg().Path(), c.P.ModPath), "/")
			vix = c.index(rel)
			if vix == nil || !strings.HasPrefix(v.Pkg().Path(), c.P.ModPath) {
				return "~the error variable is declared outside the module"
			}
		}
		init := vix.VarInit(v)
		if init == nil {
			return "the error variable " + v.Name() + " has no initialiser (nil error)"
		}
		if why := c.tableVarWritten(v); why != "" {
			return "?" + why
		}
		return c.errorCtor(vix, init, v.Name())
	}
	return c.errorCtor(ix, e, types.ExprString(e))
}

func (c *c19) errorCtor(ix *tables.Index, e ast.Expr, what string) string {
	e = ast.Unparen(e)
	info := ix.Info()
	// &T{…} / T{…}: a non-nil value of an error type; its text is whatever T.Error() makes of it
	lit := e
	if u, ok := e.(*ast.UnaryExpr); ok && u.Op == token.AND {
		lit = ast.Unparen(u.X)
	}
	if _, ok := lit.(*ast.CompositeLit); ok {
		return "~" + what + " is a composite literal of an error type: non-nil, but that its text is non-empty is not established"
	}
	call, ok := e.(*ast.CallExpr)
	if !ok {
		return "~" + what + " is not initialised by a call"
	}
	// T("text") for a string type T with an Error method (a typed sentinel)
	if tv, ok := info.Types[call.Fun]; ok && tv.IsType() && len(call.Args) == 1 {
		if b, isBasic := tv.Type.Underlying().(*types.Basic); isBasic && b.Info()&types.IsString != 0 && tables.HasStringMethod(tv.Type) {
			txt, ok := tables.StringConst(info, call.Args[0])
			if !ok {
				return "~" + what + ": the text is not a constant"
			}
			if strings.TrimSpace(txt) == "" {
				return what + " has an empty error text"
			}
			return ""
		}
		return "~" + what + " is a conversion to a type the rule does not read"
	}
	fn := tables.StaticCallee(info, call)
	if !tables.IsPkgFunc(fn, "errors", "New") && !tables.IsPkgFunc(fn, "fmt", "Errorf") {
		return "~" + what + " is not built by errors.New / fmt.Errorf"
	}
	if len(call.Args) < 1 {
		return "~" + what + ": no text argument"
	}
	txt, ok := tables.StringConst(info, call.Args[0])
	if !ok {
		return "~" + what + ": the text is not a constant"
	}
	if strings.TrimSpace(txt) == "" {
		return what + " has an empty error text"
	}
	return ""
}

// tableVarWritten reports a reason when the package-level variable v is
// assigned anywhere in the module after its declaration.
func (c *c19) tableVarWritten(v *types.Var) string {
	if c.errWrites == nil {
		c.errWrites = map[types.Object]string{}
		for _, pk := range c.P.Pkgs {
			for _, f := range pk.Syntax {
				ast.Inspect(f, func(n ast.Node) bool {
					as, ok := n.(*ast.AssignStmt)
					if !ok {
						return true
					}
					for _, l := range as.Lhs {
						var id *ast.Ident
						switch x := ast.Unparen(l).(type) {
						case *ast.Ident:
							id = x
						case *ast.SelectorExpr:
							id = x.Sel
						}
						if id == nil {
							continue
						}
						if o, ok := pk.TypesInfo.Uses[id].(*types.Var); ok && o.Pkg() != nil && o.Parent() == o.Pkg().Scope() {
							c.errWrites[o] = "package-level variable " + o.Name() + " is re-assigned at " + c.P.Rel(as.Pos())
						}
					}
					return true
				})
			}
		}
	}
	return c.errWrites[v]
}
