package rules

import (
	"fmt"
	"go/token"
	"go/types"
	"strings"

	"golang.org/x/tools/go/ssa"
)

// C17 extensions added after independently seeded changes were missed.
//
// `conflict-unique` (a same-owner exemption let the first member of a group
// re-register the name as Unique and overwrite the group record): in
// RegisterName, once a comparison has established that the stored record or the
// request is Unique, no path may reach a mutation of the table (map update,
// store to a record field, delete) — RFC 1002: a unique name never coexists
// with another registration. Decided on the CFG: from the "is Unique" edge of
// every comparison with the constant Unique, no mutation is reachable.
//
// `expiry-gate` (CleanExpiredNames split into a read-locked scan and a
// write-locked delete without re-checking the TTL): in the methods that remove
// records without an owner argument, every delete is dominated by the positive
// outcome of a time comparison on that record's TTL and no unlock of the
// server mutex can execute between the comparison and the delete (the decision
// and the removal are one critical section).

func init() {
	ck := registry["C17"]
	if ck == nil {
		return
	}
	orig := ck.Run
	ck.Run = func(c *Ctx) {
		orig(c)
		c17ConflictUnique(c)
		c17ExpiryGate(c)
		c.R.Explanation += " Extension `conflict-unique`: in RegisterName no table mutation is reachable from the is-Unique outcome of a comparison of the stored type or the requested type with Unique. Extension `expiry-gate`: in the sweeping methods every delete is dominated by a positive TTL comparison on the record and no unlock can run between that comparison and the delete."
	}
}

func c17IsMutation(in ssa.Instruction) (string, bool) {
	switch x := in.(type) {
	case *ssa.MapUpdate:
		return "map update", true
	case *ssa.Store:
		if fa, ok := x.Addr.(*ssa.FieldAddr); ok {
			if nt, ok := derefType(fa.X.Type()).(*types.Named); ok && nt.Obj().Name() == "NameRecord" {
				// stores into a record being built (fresh allocation) are not table mutations
				if _, fresh := fa.X.(*ssa.Alloc); fresh {
					return "", false
				}
				return "store NameRecord." + nt.Underlying().(*types.Struct).Field(fa.Field).Name(), true
			}
		}
	case *ssa.Call:
		if bi, ok := x.Call.Value.(*ssa.Builtin); ok && bi.Name() == "delete" {
			return "delete", true
		}
	}
	return "", false
}

func c17ConflictUnique(c *Ctx) {
	const rule = "conflict-unique"
	const rel = "network/netbios/nbtns"
	p, r := c.P, c.R
	fn := p.Func(rel, "NetBIOSNameServer", "RegisterName")
	pk := p.Pkg(rel)
	if fn == nil || fn.Blocks == nil || pk == nil {
		r.Undecided(rule, "RegisterName", "", "not found")
		return
	}
	uq, _ := pk.Types.Scope().Lookup("Unique").(*types.Const)
	if uq == nil {
		r.Undecided(rule, "constant Unique", "", "not found")
		return
	}
	isUnique := func(v ssa.Value) bool {
		k, ok := v.(*ssa.Const)
		return ok && k.Value != nil && types.Identical(k.Type(), uq.Type()) && k.Value.ExactString() == uq.Val().ExactString()
	}
	n := 0
	ord := 0
	var blocks []*ssa.BasicBlock
	for _, f := range withClosures(fn) {
		blocks = append(blocks, f.Blocks...)
	}
	for _, b := range blocks {
		iff, ok := b.Instrs[len(b.Instrs)-1].(*ssa.If)
		if !ok {
			continue
		}
		bo, ok := iff.Cond.(*ssa.BinOp)
		if !ok || (bo.Op != token.EQL && bo.Op != token.NEQ) || !(isUnique(bo.X) || isUnique(bo.Y)) {
			continue
		}
		n++
		ord++
		start := b.Succs[0]
		if bo.Op == token.NEQ {
			start = b.Succs[1]
		}
		what := "requested type"
		other := bo.X
		if isUnique(bo.X) {
			other = bo.Y
		}
		if _, isParam := other.(*ssa.Parameter); !isParam {
			what = "stored record type"
		}
		construct := fmt.Sprintf("%s: after %s == Unique (#%d) the table is not modified", p.FuncName(fn), what, ord)
		// reachability from the is-Unique edge
		seen := map[*ssa.BasicBlock]bool{start: true}
		work := []*ssa.BasicBlock{start}
		var hits []string
		for len(work) > 0 {
			x := work[len(work)-1]
			work = work[:len(work)-1]
			for _, in := range x.Instrs {
				if w, ok := c17IsMutation(in); ok {
					hits = append(hits, w+" at "+p.Rel(in.Pos()))
				}
			}
			for _, s := range x.Succs {
				if !seen[s] {
					seen[s] = true
					work = append(work, s)
				}
			}
		}
		if len(hits) == 0 {
			r.OK(rule, construct, p.Rel(iff.Cond.Pos()), "every path from the is-Unique outcome returns without touching the table")
		} else {
			r.Fail(rule, construct, p.Rel(iff.Cond.Pos()), "a registration that conflicts with a unique name can still reach "+strings.Join(hits, ", ")+": an existing registration (a whole group, or another node's unique name) is overwritten")
		}
	}
	r.Floor(rule, 2)
	r.Extra["conflict_unique_tests"] = n
}

func c17ExpiryGate(c *Ctx) {
	const rule = "expiry-gate"
	const rel = "network/netbios/nbtns"
	p, r := c.P, c.R
	pk := p.Pkg(rel)
	if pk == nil {
		r.Undecided(rule, "package", "", "not found")
		return
	}
	tn, _ := pk.Types.Scope().Lookup("NetBIOSNameServer").(*types.TypeName)
	if tn == nil {
		r.Undecided(rule, "NetBIOSNameServer", "", "type not found")
		return
	}
	ms := types.NewMethodSet(types.NewPointer(tn.Type()))
	n := 0
	for i := 0; i < ms.Len(); i++ {
		fn := p.Func(rel, "NetBIOSNameServer", ms.At(i).Obj().Name())
		if fn == nil || fn.Blocks == nil {
			continue
		}
		hasOwner := false
		for _, prm := range fn.Params[1:] {
			if isIPType(prm.Type()) {
				hasOwner = true
			}
		}
		if hasOwner {
			continue
		}
		ord := 0
		method := fn
		for _, fn := range withClosures(method) {
			for _, b := range fn.Blocks {
				for _, in := range b.Instrs {
					call, ok := in.(*ssa.Call)
					if !ok {
						continue
					}
					bi, ok := call.Call.Value.(*ssa.Builtin)
					if !ok || bi.Name() != "delete" {
						continue
					}
					n++
					ord++
					construct := fmt.Sprintf("%s: delete #%d decided and executed in one critical section", p.FuncName(method), ord)
					// dominating positive TTL comparison
					var test *ssa.BasicBlock
					for y := b; y != nil; y = y.Idom() {
						d := y.Idom()
						if d == nil || len(y.Preds) != 1 || y.Preds[0] != d {
							continue
						}
						iff, ok := d.Instrs[len(d.Instrs)-1].(*ssa.If)
						if !ok || d.Succs[0] != y {
							continue
						}
						if ttlComparison(iff.Cond) {
							test = d
							break
						}
					}
					if test == nil {
						r.Fail(rule, construct, p.Rel(call.Pos()), "the delete is not dominated by the positive outcome of a time comparison on the record's TTL: a record is removed on a decision that was not taken at this point (stale scan result, or no expiry test at all)")
						continue
					}
					// no unlock between the test and the delete
					var unlock string
					reach := func(from *ssa.BasicBlock) map[*ssa.BasicBlock]bool {
						seen := map[*ssa.BasicBlock]bool{from: true}
						work := []*ssa.BasicBlock{from}
						for len(work) > 0 {
							x := work[len(work)-1]
							work = work[:len(work)-1]
							for _, s := range x.Succs {
								if !seen[s] {
									seen[s] = true
									work = append(work, s)
								}
							}
						}
						return seen
					}
					fromTest := reach(test)
					for _, x := range fn.Blocks {
						if !fromTest[x] || !reach(x)[b] {
							continue
						}
						for _, y := range x.Instrs {
							if cc, ok := y.(*ssa.Call); ok {
								if f := cc.Call.StaticCallee(); f != nil && (f.String() == "(*sync.RWMutex).Unlock" || f.String() == "(*sync.RWMutex).RUnlock" || f.String() == "(*sync.Mutex).Unlock") {
									unlock = p.Rel(cc.Pos())
								}
							}
						}
					}
					if unlock != "" {
						r.Fail(rule, construct, p.Rel(call.Pos()), "the mutex can be released at "+unlock+" between the expiry test and the delete: a registration or refresh that lands in the gap is wiped")
					} else {
						r.OK(rule, construct, p.Rel(call.Pos()), "dominated by a positive TTL comparison; no unlock between the comparison and the delete")
					}
				}
			}
		}
	}
	r.Floor(rule, 1)
	r.Extra["expiry_gated_deletes"] = n
}

// ttlComparison: cond is time.After/Before involving a load of NameRecord.TTL.
func ttlComparison(v ssa.Value) bool {
	call, ok := v.(*ssa.Call)
	if !ok {
		return false
	}
	f := call.Call.StaticCallee()
	if f == nil || (f.String() != "(time.Time).After" && f.String() != "(time.Time).Before") {
		return false
	}
	for _, a := range call.Call.Args {
		if u, ok := a.(*ssa.UnOp); ok {
			if fa, ok := u.X.(*ssa.FieldAddr); ok {
				if nt, ok := derefType(fa.X.Type()).(*types.Named); ok && nt.Obj().Name() == "NameRecord" {
					if nt.Underlying().(*types.Struct).Field(fa.Field).Name() == "TTL" {
						return true
					}
				}
			}
		}
	}
	return false
}

func withClosures(fn *ssa.Function) []*ssa.Function {
	out := []*ssa.Function{fn}
	for _, a := range fn.AnonFuncs {
		out = append(out, withClosures(a)...)
	}
	return out
}
