package rules

import (
	"fmt"
	"go/constant"
	"go/token"
	"go/types"
	"sort"
	"strings"

	"golang.org/x/tools/go/ssa"
)

// C17 extensions added after independently seeded changes were missed.
//
// `conflict-unique` (a same-owner exemption let the first member of a group
// re-register the name as Unique and overwrite the group record): in
// RegisterName, once a comparison has established that the stored record or the
// request is Unique, no path may reach a mutation of the table (map update,
// store to a record field, delete) — RFC 1002: a unique name never coexists
// with another registration. Decided by a path-sensitive walk of the CFG: from
// every comparison with the constant Unique, under the fact "the comparison
// found Unique", no mutation (and no call of a helper that mutates) is
// reachable. The walk evaluates branch conditions that the fact decides —
// the comparison itself, `conflict := a || b` (φ of booleans), negations — so
// the test may be written as nested ifs, a switch, or a boolean local; and the
// comparison may live in a same-package helper (conflicts(stored, requested),
// an enum-returning classify(…)): the helper is walked from the comparison to
// its returns and the walk resumes after each call site with the returned
// constant as a fact. The instance floor is keyed on the two operands the
// property names — the stored record's type and the requested type must each
// be compared with Unique — not on the number of comparison expressions.
//
// `expiry-gate` (CleanExpiredNames split into a read-locked scan and a
// write-locked delete without re-checking the TTL): from the methods that
// remove records without an owner argument, every removal reached (delete,
// clear, maps.DeleteFunc; in the method, its literals and same-package helpers)
// is decided by a positive expiry test on a record's TTL — now.After(TTL),
// TTL.Before(now), the negative outcome of TTL.After(now)/now.Before(TTL), the
// Sub/Since/Until/Compare forms against 0, a boolean helper that is true only
// under such a test — and no unlock of the server mutex can execute between
// the test and the removal (the decision and the removal are one critical
// section). maps.DeleteFunc(names, pred) is such a removal when pred returns
// true only under a positive expiry test on the record it is given.

func init() {
	ck := registry["C17"]
	if ck == nil {
		return
	}
	orig := ck.Run
	ck.Run = func(c *Ctx) {
		orig(c)
		c17ConflictUnique(c)
		c17ExpiryGate(c)
		c.R.Explanation += " Extension `conflict-unique`: in RegisterName (and the same-package helpers it calls) no table mutation is reachable, on a walk that follows the branches the fact decides, from the is-Unique outcome of a comparison of the stored type or the requested type with Unique; both operands must be so compared. Extension `expiry-gate`: from the sweeping methods every removal (delete, clear, maps.DeleteFunc with an expiry predicate) is decided by a positive TTL comparison on the record and no unlock can run between that comparison and the removal."
	}
}

func c17IsRecordType(t types.Type) bool {
	nt, ok := types.Unalias(derefType(t)).(*types.Named)
	return ok && nt.Obj().Name() == "NameRecord" && nt.Obj().Pkg() != nil && strings.HasSuffix(nt.Obj().Pkg().Path(), c17Pkg)
}

// c17IsTableMap: a map whose elements are (pointers to) NameRecords.
func c17IsTableMap(t types.Type) bool {
	m, ok := t.Underlying().(*types.Map)
	return ok && c17IsRecordType(m.Elem())
}

func c17RecordField(fa *ssa.FieldAddr) (string, bool) {
	if !c17IsRecordType(fa.X.Type()) {
		return "", false
	}
	st, ok := derefType(fa.X.Type()).Underlying().(*types.Struct)
	if !ok || fa.Field >= st.NumFields() {
		return "", false
	}
	return st.Field(fa.Field).Name(), true
}

// c17IsMutation recognises the instructions that modify the name table.
func c17IsMutation(in ssa.Instruction) (string, bool) {
	switch x := in.(type) {
	case *ssa.MapUpdate:
		if c17IsTableMap(x.Map.Type()) {
			return "map update", true
		}
	case *ssa.Store:
		switch a := x.Addr.(type) {
		case *ssa.FieldAddr:
			if name, ok := c17RecordField(a); ok {
				// stores into a record being built (fresh allocation) are not table mutations
				if _, fresh := a.X.(*ssa.Alloc); fresh {
					return "", false
				}
				return "store NameRecord." + name, true
			}
		case *ssa.IndexAddr:
			// record.Owners[i] = x
			if ld, ok := a.X.(*ssa.UnOp); ok && ld.Op == token.MUL {
				if fa, ok := ld.X.(*ssa.FieldAddr); ok {
					if name, ok := c17RecordField(fa); ok {
						if _, fresh := fa.X.(*ssa.Alloc); !fresh {
							return "store NameRecord." + name + "[i]", true
						}
					}
				}
			}
		}
	case *ssa.Call:
		if bi, ok := x.Call.Value.(*ssa.Builtin); ok && len(x.Call.Args) > 0 && c17IsTableMap(x.Call.Args[0].Type()) {
			switch bi.Name() {
			case "delete":
				return "delete(names, …)", true
			case "clear":
				return "clear(names)", true
			}
		}
		if c17CalleeName(x.Call.StaticCallee()) == "maps.DeleteFunc" && len(x.Call.Args) > 0 && c17IsTableMap(x.Call.Args[0].Type()) {
			return "maps.DeleteFunc(names, …)", true
		}
	}
	return "", false
}

// ---------------------------------------------------------------------------
// conflict-unique

type c17Facts map[ssa.Value]constant.Value

// c17Eval evaluates v to a constant under facts; φ-nodes of block b are resolved
// through the edge from pred.
func c17Eval(v ssa.Value, facts c17Facts, b, pred *ssa.BasicBlock, d int) (constant.Value, bool) {
	if d > 8 {
		return nil, false
	}
	if c, ok := facts[v]; ok {
		return c, true
	}
	switch x := v.(type) {
	case *ssa.Const:
		if x.Value != nil {
			return x.Value, true
		}
		switch x.Type().Underlying().(type) {
		case *types.Interface, *types.Pointer, *types.Slice, *types.Map, *types.Chan, *types.Signature:
			return c17NilMark, true
		}
	case *ssa.MakeInterface, *ssa.Alloc, *ssa.MakeClosure:
		// an interface holding a value, a fresh allocation, a function literal: never nil
		return c17NonNilMark, true
	case *ssa.Call:
		switch c17CalleeName(x.Call.StaticCallee()) {
		case "fmt.Errorf", "errors.New":
			return c17NonNilMark, true
		}
	case *ssa.UnOp:
		if g, isG := x.X.(*ssa.Global); isG && x.Op == token.MUL {
			// return errConflict: a package-level sentinel error is a non-nil value
			if _, isI := x.Type().Underlying().(*types.Interface); isI && strings.HasPrefix(strings.ToLower(g.Name()), "err") {
				return c17NonNilMark, true
			}
		}
		if x.Op == token.NOT {
			if c, ok := c17Eval(x.X, facts, b, pred, d+1); ok && c.Kind() == constant.Bool {
				return constant.MakeBool(!constant.BoolVal(c)), true
			}
		}
	case *ssa.BinOp:
		if x.Op == token.EQL || x.Op == token.NEQ {
			l, lok := c17Eval(x.X, facts, b, pred, d+1)
			r, rok := c17Eval(x.Y, facts, b, pred, d+1)
			if lok && rok && l.Kind() == r.Kind() && l.Kind() != constant.Unknown {
				return constant.MakeBool(constant.Compare(l, x.Op, r)), true
			}
		}
	case *ssa.Phi:
		if b != nil && pred != nil && x.Block() == b {
			for i, p := range b.Preds {
				if p == pred && i < len(x.Edges) {
					return c17Eval(x.Edges[i], facts, nil, nil, d+1)
				}
			}
		}
	case *ssa.ChangeType:
		return c17Eval(x.X, facts, b, pred, d+1)
	case *ssa.Convert:
		return c17Eval(x.X, facts, b, pred, d+1)
	}
	return nil, false
}

// nil-ness of reference-typed values (err != nil after `return fmt.Errorf(…)` / `return nil`)
var (
	c17NilMark    = constant.MakeString("\x00nil")
	c17NonNilMark = constant.MakeString("\x00non-nil")
)

type c17RetVal struct {
	known bool
	val   constant.Value
	// multi-value returns (done bool, err error): the evaluated components, nil where the
	// value is not a constant under the facts
	multi []constant.Value
}

func (rv c17RetVal) key() string {
	if rv.multi != nil {
		var ks []string
		for _, c := range rv.multi {
			if c == nil {
				ks = append(ks, "?")
			} else {
				ks = append(ks, c.ExactString())
			}
		}
		return "(" + strings.Join(ks, ",") + ")"
	}
	if rv.known {
		return rv.val.ExactString()
	}
	return "?"
}

type c17Explorer struct {
	rel       func(token.Pos) string
	mutatesFn func(*ssa.Function) bool // a same-package declared callee that (transitively) modifies the table
}

// explore walks fn from `start` (instructions after `after` in the first block)
// under facts and returns the mutations reached and the evaluated first results
// of the returns reached.
func (e *c17Explorer) explore(fn *ssa.Function, start *ssa.BasicBlock, after ssa.Instruction, facts c17Facts) (hits []string, rets []c17RetVal) {
	type item struct{ b, pred *ssa.BasicBlock }
	seen := map[item]bool{}
	work := []item{{start, nil}}
	seen[work[0]] = true
	hitSeen := map[ssa.Instruction]bool{}
	push := func(b, pred *ssa.BasicBlock) {
		it := item{b, pred}
		if !seen[it] {
			seen[it] = true
			work = append(work, it)
		}
	}
	for len(work) > 0 {
		it := work[len(work)-1]
		work = work[:len(work)-1]
		skipping := it.b == start && it.pred == nil && after != nil
		for _, in := range it.b.Instrs {
			if skipping {
				if in == after {
					skipping = false
				}
				continue
			}
			if hitSeen[in] {
				continue
			}
			if w, ok := c17IsMutation(in); ok {
				hitSeen[in] = true
				hits = append(hits, w+" at "+e.rel(in.Pos()))
			} else if ci, ok := in.(ssa.CallInstruction); ok {
				if g := ci.Common().StaticCallee(); g != nil && e.mutatesFn(g) {
					hitSeen[in] = true
					hits = append(hits, "call of "+g.Name()+", which modifies the table, at "+e.rel(in.Pos()))
				}
			}
		}
		switch t := it.b.Instrs[len(it.b.Instrs)-1].(type) {
		case *ssa.If:
			if c, ok := c17Eval(t.Cond, facts, it.b, it.pred, 0); ok && c.Kind() == constant.Bool {
				if constant.BoolVal(c) {
					push(it.b.Succs[0], it.b)
				} else {
					push(it.b.Succs[1], it.b)
				}
			} else {
				push(it.b.Succs[0], it.b)
				push(it.b.Succs[1], it.b)
			}
		case *ssa.Return:
			rv := c17RetVal{}
			if len(t.Results) == 1 {
				if c, ok := c17Eval(t.Results[0], facts, it.b, it.pred, 0); ok {
					rv = c17RetVal{known: true, val: c}
				}
			} else if len(t.Results) > 1 {
				rv.multi = make([]constant.Value, len(t.Results))
				for k, res := range t.Results {
					if c, ok := c17Eval(res, facts, it.b, it.pred, 0); ok {
						rv.multi[k] = c
					}
				}
			}
			rets = append(rets, rv)
		default:
			for _, s := range it.b.Succs {
				push(s, it.b)
			}
		}
	}
	return hits, rets
}

func c17ConflictUnique(c *Ctx) {
	const rule = "conflict-unique"
	const rel = "network/netbios/nbtns"
	p, r := c.P, c.R
	fn := p.Func(rel, "NetBIOSNameServer", "RegisterName")
	pk := p.Pkg(rel)
	if fn == nil || fn.Blocks == nil || pk == nil {
		r.Undecided(rule, "RegisterName", "", "not found")
		return
	}
	uq, _ := pk.Types.Scope().Lookup("Unique").(*types.Const)
	if uq == nil {
		r.Undecided(rule, "constant Unique", "", "not found")
		return
	}
	isUnique := func(v ssa.Value) bool {
		k, ok := v.(*ssa.Const)
		return ok && k.Value != nil && types.Identical(k.Type(), uq.Type()) && k.Value.ExactString() == uq.Val().ExactString()
	}
	// the functions RegisterName can reach in its package (literals and helpers)
	w := c17NewWalker(p, fn.Pkg, func(*ssa.CallCommon, *ssa.Function, any) any { return nil })
	w.walk(fn, nil, nil, nil, 0)
	var scope []*ssa.Function
	for g := range w.reached {
		scope = append(scope, g)
	}
	sort.Slice(scope, func(i, j int) bool { return scope[i].Pos() < scope[j].Pos() })
	mutMemo := map[*ssa.Function]bool{}
	mutates := func(g *ssa.Function) bool {
		if g.Blocks == nil || !p.InModule(g) || g.Pkg != fn.Pkg || g.Parent() != nil {
			return false
		}
		if v, ok := mutMemo[g]; ok {
			return v
		}
		mutMemo[g] = false
		w2 := c17NewWalker(p, fn.Pkg, func(*ssa.CallCommon, *ssa.Function, any) any { return nil })
		w2.walk(g, nil, nil, nil, 0)
		mutMemo[g] = len(w2.muts) > 0
		return mutMemo[g]
	}
	ex := &c17Explorer{rel: p.Rel, mutatesFn: mutates}
	// call sites of the helpers, inside the scope
	callers := map[*ssa.Function][]*ssa.Call{}
	for _, g := range scope {
		for _, b := range g.Blocks {
			for _, in := range b.Instrs {
				if call, ok := in.(*ssa.Call); ok {
					if h := call.Call.StaticCallee(); h != nil && w.reached[h] && h.Parent() == nil {
						callers[h] = append(callers[h], call)
					}
				}
			}
		}
	}
	// which operand of the property a compared value is: the stored record's type or the requested type
	var operand func(v ssa.Value, g *ssa.Function, d int) string
	operand = func(v ssa.Value, g *ssa.Function, d int) string {
		switch x := v.(type) {
		case *ssa.Parameter:
			if x.Parent() == fn {
				return "requested type"
			}
			if d < 3 {
				kinds := map[string]bool{}
				for i, prm := range x.Parent().Params {
					if prm != x {
						continue
					}
					for _, call := range callers[x.Parent()] {
						if i < len(call.Call.Args) {
							kinds[operand(call.Call.Args[i], call.Parent(), d+1)] = true
						}
					}
				}
				if len(kinds) == 1 {
					for k := range kinds {
						return k
					}
				}
			}
		case *ssa.UnOp:
			if x.Op == token.MUL {
				if fa, ok := x.X.(*ssa.FieldAddr); ok {
					if name, ok := c17RecordField(fa); ok && name == "Type" {
						return "stored record type"
					}
				}
				// a captured variable holding one value
				if al, ok := c17UnitOf(g).resolve(x.X).(*ssa.Alloc); ok && d < 3 {
					if sts := c17UnitOf(g).stores[al]; len(sts) == 1 {
						return operand(sts[0].Val, g, d+1)
					}
				}
			}
		case *ssa.Field:
			if c17IsRecordType(x.X.Type()) {
				if st, ok := x.X.Type().Underlying().(*types.Struct); ok && st.Field(x.Field).Name() == "Type" {
					return "stored record type"
				}
			}
		case *ssa.ChangeType:
			return operand(x.X, g, d+1)
		}
		return "a value"
	}

	n := 0
	ord := 0
	judged := map[string]bool{}
	for _, g := range scope {
		for _, b := range g.Blocks {
			for _, in := range b.Instrs {
				bo, ok := in.(*ssa.BinOp)
				if !ok || (bo.Op != token.EQL && bo.Op != token.NEQ) || !(isUnique(bo.X) || isUnique(bo.Y)) {
					continue
				}
				n++
				ord++
				other := bo.X
				if isUnique(bo.X) {
					other = bo.Y
				}
				what := operand(other, g, 0)
				judged[what] = true
				where := ""
				if c17TopOf(g) != fn {
					where = " (in " + c17TopOf(g).Name() + ")"
				}
				construct := fmt.Sprintf("%s: after %s == Unique (#%d)%s the table is not modified", p.FuncName(fn), what, ord, where)
				facts := c17Facts{bo: constant.MakeBool(bo.Op == token.EQL)}
				allHits := c17ExploreUp(ex, g, b, bo, facts, callers, fn, 0)
				var hits, unread []string
				for _, h := range allHits {
					if strings.HasPrefix(h, c17UnknownResume) {
						unread = append(unread, strings.TrimPrefix(h, c17UnknownResume))
					} else {
						hits = append(hits, h)
					}
				}
				if len(hits) == 0 && len(unread) > 0 {
					r.OK(rule, construct, p.Rel(bo.Pos()), "NOT DECIDED — the outcome leaves its helper with a result the walk cannot evaluate, so the caller's test of that result was not read: "+strings.Join(uniqStrings(unread), "; "))
					r.Note("C17 conflict-unique: %s NOT DECIDED — %s", construct, strings.Join(uniqStrings(unread), "; "))
				} else if len(hits) == 0 {
					r.OK(rule, construct, p.Rel(bo.Pos()), "every path from the is-Unique outcome returns without touching the table")
				} else {
					r.Fail(rule, construct, p.Rel(bo.Pos()), "a registration that conflicts with a unique name can still reach "+strings.Join(uniqStrings(hits), ", ")+": an existing registration (a whole group, or another node's unique name) is overwritten")
				}
			}
		}
	}
	// both operands of the conflict matrix must be tested (however the test is written)
	for _, k := range []string{"stored record type", "requested type"} {
		construct := fmt.Sprintf("%s: the %s is compared with Unique", p.FuncName(fn), k)
		if judged[k] {
			r.OK(rule, construct, p.Rel(fn.Pos()), "a comparison of this operand with Unique was found and judged")
		} else {
			r.Fail(rule, construct, p.Rel(fn.Pos()), "no comparison of the "+k+" with the constant Unique was recognised in RegisterName or the helpers it calls: a unique name is not protected against this side of the conflict matrix (or the rule no longer matches the shape of the test)")
		}
	}
	// one instance per operand of the conflict matrix (stored type, requested type) plus the
	// comparisons found; how many comparison expressions there are is an artefact of the code
	r.Floor(rule, 2)
	r.Extra["conflict_unique_tests"] = n
}

// c17ExploreUp explores from an instruction under facts; when the function is a
// helper, the walk resumes after every call site with the returned constant.
// c17UnknownResume prefixes the hits that were reached only after the walk resumed behind a
// call site WITHOUT knowing what the helper returned (the is-Unique outcome left the helper
// with a value the walk cannot evaluate): on those paths the caller's own test of the result
// was not read, so they are no evidence of a violation.
const c17UnknownResume = "\x00unknown-resume:"

func c17ExploreUp(ex *c17Explorer, g *ssa.Function, b *ssa.BasicBlock, after ssa.Instruction, facts c17Facts, callers map[*ssa.Function][]*ssa.Call, entry *ssa.Function, depth int) []string {
	hits, rets := ex.explore(g, b, after, facts)
	top := c17TopOf(g)
	if top == entry {
		return hits
	}
	if depth >= 3 {
		if len(callers[top]) > 0 {
			hits = append(hits, c17UnknownResume+"helper chain deeper than 3 calls above "+top.Name())
		}
		return hits
	}
	if g != top {
		// a literal inside a helper: its result is not followed
		rets = []c17RetVal{{}}
	}
	sites := callers[top]
	if len(sites) == 0 {
		return hits
	}
	// distinct outcomes of the helper under the fact
	outcomes := map[string]c17RetVal{}
	for _, rv := range rets {
		outcomes[rv.key()] = rv
	}
	for _, call := range sites {
		for _, rv := range outcomes {
			f2 := c17Facts{}
			if rv.known {
				f2[call] = rv.val
			}
			if rv.multi != nil {
				// done, err := helper(…): each extracted component that is a constant is a fact
				if refs := call.Referrers(); refs != nil {
					for _, ref := range *refs {
						if ex, isEx := ref.(*ssa.Extract); isEx && ex.Index < len(rv.multi) && rv.multi[ex.Index] != nil {
							f2[ex] = rv.multi[ex.Index]
						}
					}
				}
			}
			sub := c17ExploreUp(ex, call.Parent(), call.Block(), call, f2, callers, entry, depth+1)
			// A boolean / enum result that the fact does not determine can really take either
			// value (conflicts(a, b) = a == Unique && b == Unique under "a is Unique"): both
			// continuations are genuine paths. Only a reference-typed result whose nil-ness the
			// walk cannot evaluate (an error value built somewhere else) leaves the caller's
			// `!= nil` test unread.
			if len(f2) == 0 && c17OpaqueResults(top) {
				for i, h := range sub {
					if !strings.HasPrefix(h, c17UnknownResume) {
						sub[i] = c17UnknownResume + h + " (after " + top.Name() + " returned a value the walk could not evaluate)"
					}
				}
			}
			hits = append(hits, sub...)
		}
	}
	return hits
}

// ---------------------------------------------------------------------------
// expiry-gate

func c17IsTTL(v ssa.Value, base ssa.Value) bool {
	switch x := v.(type) {
	case *ssa.UnOp:
		if x.Op != token.MUL {
			return false
		}
		if fa, ok := x.X.(*ssa.FieldAddr); ok {
			if name, ok := c17RecordField(fa); ok && name == "TTL" {
				return base == nil || fa.X == base
			}
		}
	case *ssa.Field:
		if c17IsRecordType(x.X.Type()) {
			if st, ok := x.X.Type().Underlying().(*types.Struct); ok && st.Field(x.Field).Name() == "TTL" {
				if base == nil {
					return true
				}
				if ld, ok := x.X.(*ssa.UnOp); ok && ld.Op == token.MUL {
					return ld.X == base
				}
			}
		}
	}
	return false
}

// c17TTLAtom: +1 when v being true means "the record's TTL has passed", -1 when
// it means "the TTL has not passed", 0 otherwise. base restricts the record.
func c17TTLAtom(v ssa.Value, base ssa.Value) int {
	ttl := func(x ssa.Value) bool { return c17IsTTL(x, base) }
	// sign of q = now − TTL that a call result carries: +1 the result grows with q, -1 it shrinks
	signOf := func(call *ssa.Call) (int, bool) {
		a := call.Call.Args
		switch c17CalleeName(call.Call.StaticCallee()) {
		case "time.Since":
			if len(a) == 1 && ttl(a[0]) {
				return +1, false
			}
		case "time.Until":
			if len(a) == 1 && ttl(a[0]) {
				return -1, false
			}
		case "(time.Time).Sub":
			if len(a) == 2 && ttl(a[1]) && !ttl(a[0]) {
				return +1, false
			}
			if len(a) == 2 && ttl(a[0]) && !ttl(a[1]) {
				return -1, false
			}
		case "(time.Time).Compare":
			if len(a) == 2 && ttl(a[1]) && !ttl(a[0]) {
				return +1, true
			}
			if len(a) == 2 && ttl(a[0]) && !ttl(a[1]) {
				return -1, true
			}
		}
		return 0, false
	}
	switch x := v.(type) {
	case *ssa.Call:
		a := x.Call.Args
		switch c17CalleeName(x.Call.StaticCallee()) {
		case "(time.Time).After":
			if len(a) == 2 && ttl(a[1]) && !ttl(a[0]) {
				return +1 // now.After(TTL)
			}
			if len(a) == 2 && ttl(a[0]) && !ttl(a[1]) {
				return -1 // TTL.After(now)
			}
		case "(time.Time).Before":
			if len(a) == 2 && ttl(a[0]) && !ttl(a[1]) {
				return +1 // TTL.Before(now)
			}
			if len(a) == 2 && ttl(a[1]) && !ttl(a[0]) {
				return -1 // now.Before(TTL)
			}
		}
	case *ssa.BinOp:
		if _, isCmp := c17Mirror[x.Op]; !isCmp {
			return 0
		}
		q, kv := x.X, x.Y
		op := x.Op
		if _, isK := c17IntConst(kv); !isK {
			q, kv = x.Y, x.X
			op = c17Mirror[x.Op]
		}
		k, isK := c17IntConst(kv)
		call, isCall := q.(*ssa.Call)
		if !isK || !isCall {
			return 0
		}
		s, isCompare := signOf(call)
		if s == 0 {
			return 0
		}
		dir := 0
		switch {
		case k == 0 && (op == token.GTR || op == token.GEQ):
			dir = +1
		case k == 0 && (op == token.LSS || op == token.LEQ):
			dir = -1
		case isCompare && k == 1 && (op == token.EQL || op == token.GEQ):
			dir = +1
		case isCompare && k == -1 && (op == token.EQL || op == token.LEQ):
			dir = -1
		}
		return dir * s
	}
	return 0
}

type c17ExpiryTest struct {
	p interface{ InModule(*ssa.Function) bool }
}

// expiredTrue: v is true only under a positive expiry test.
func (t *c17ExpiryTest) expiredTrue(v ssa.Value, base ssa.Value, seen map[ssa.Value]bool, depth int) bool {
	if seen[v] {
		return true
	}
	seen[v] = true
	if c17TTLAtom(v, base) > 0 {
		return true
	}
	switch x := v.(type) {
	case *ssa.UnOp:
		if x.Op == token.NOT {
			return c17TTLAtom(x.X, base) < 0
		}
	case *ssa.Phi:
		for i, e := range x.Edges {
			if val, isK := c17BoolConst(e); isK && !val {
				continue
			}
			if t.blockGated(x.Block().Preds[i], base, depth) != nil {
				continue
			}
			if _, isK := c17BoolConst(e); isK {
				return false
			}
			if !t.expiredTrue(e, base, seen, depth) {
				return false
			}
		}
		return true
	case *ssa.BinOp:
		if x.Op == token.LAND || x.Op == token.AND {
			return t.expiredTrue(x.X, base, seen, depth) || t.expiredTrue(x.Y, base, seen, depth)
		}
	case *ssa.Call:
		// record.expired(now) / isExpired(record, now): a same-module boolean helper
		f := x.Call.StaticCallee()
		if f != nil && f.Blocks != nil && t.p.InModule(f) && depth < c17HelperDepth {
			var cbase ssa.Value
			if base != nil {
				for k, a := range x.Call.Args {
					if a == base && k < len(f.Params) {
						cbase = f.Params[k]
					}
				}
				if cbase == nil {
					return false
				}
			}
			return t.returnsExpiredTrue(f, cbase, depth+1)
		}
	}
	return false
}

func (t *c17ExpiryTest) returnsExpiredTrue(g *ssa.Function, base ssa.Value, depth int) bool {
	n := 0
	for _, b := range g.Blocks {
		ret, ok := b.Instrs[len(b.Instrs)-1].(*ssa.Return)
		if !ok {
			continue
		}
		if len(ret.Results) != 1 {
			return false
		}
		n++
		rv := ret.Results[0]
		if val, isK := c17BoolConst(rv); isK && !val {
			continue
		}
		if t.blockGated(b, base, depth) != nil {
			continue
		}
		if _, isK := c17BoolConst(rv); isK {
			return false
		}
		if !t.expiredTrue(rv, base, map[ssa.Value]bool{}, depth) {
			return false
		}
	}
	return n > 0
}

// blockGated returns the block whose branch decides "expired" on the way to b, or nil.
func (t *c17ExpiryTest) blockGated(b *ssa.BasicBlock, base ssa.Value, depth int) *ssa.BasicBlock {
	for x := b; x != nil; x = x.Idom() {
		d := x.Idom()
		if d == nil {
			break
		}
		if len(x.Preds) != 1 || x.Preds[0] != d {
			continue
		}
		iff, ok := d.Instrs[len(d.Instrs)-1].(*ssa.If)
		if !ok || d.Succs[0] == d.Succs[1] {
			continue
		}
		cond, neg := c17NormCond(iff.Cond)
		positive := (d.Succs[0] == x) != neg
		if positive && t.expiredTrue(cond, base, map[ssa.Value]bool{}, depth) {
			return d
		}
		if !positive && c17TTLAtom(cond, base) < 0 {
			return d
		}
	}
	return nil
}

// c17CollectedDelete recognises
//
//	var expired []string
//	for name, record := range n.names { if now.After(record.TTL) { expired = append(expired, name) } }
//	for _, name := range expired { delete(n.names, name) }
//
// inside one critical section. ok: decided positively; why != "": decided negatively (an
// unlock separates the scan from the delete); both zero: the shape is not this one.
func c17CollectedDelete(t *c17ExpiryTest, in ssa.Instruction, rel func(token.Pos) string) (ok bool, why string) {
	call, isCall := in.(*ssa.Call)
	if !isCall || len(call.Call.Args) != 2 {
		return false, ""
	}
	// key = S[i] of a ranged local slice
	key := call.Call.Args[1]
	ld, isLd := key.(*ssa.UnOp)
	if !isLd || ld.Op != token.MUL {
		return false, ""
	}
	ia, isIA := ld.X.(*ssa.IndexAddr)
	if !isIA {
		return false, ""
	}
	if _, isSlice := ia.X.Type().Underlying().(*types.Slice); !isSlice {
		return false, ""
	}
	// every version of the slice: nil / make / φ / append(version, …)
	var appends []*ssa.Call
	seen := map[ssa.Value]bool{}
	var visit func(v ssa.Value) bool
	visit = func(v ssa.Value) bool {
		if seen[v] {
			return true
		}
		seen[v] = true
		switch x := v.(type) {
		case *ssa.Const:
			return x.Value == nil
		case *ssa.MakeSlice:
			if n, isK := c17IntConst(x.Len); isK && n == 0 {
				return true
			}
			return false
		case *ssa.Phi:
			for _, e := range x.Edges {
				if !visit(e) {
					return false
				}
			}
			return true
		case *ssa.Call:
			if bi, isB := x.Call.Value.(*ssa.Builtin); isB && bi.Name() == "append" && len(x.Call.Args) >= 1 {
				appends = append(appends, x)
				return visit(x.Call.Args[0])
			}
		}
		return false
	}
	if !visit(ia.X) || len(appends) == 0 {
		return false, ""
	}
	fn := call.Parent()
	for _, ap := range appends {
		if ap.Parent() != fn {
			return false, ""
		}
		tb := t.blockGated(ap.Block(), nil, 0)
		if tb == nil {
			return false, "the delete takes its keys from a list that is also extended at " + rel(ap.Pos()) + " without a positive time comparison on the record's TTL: a record is removed on a decision that is not its expiry"
		}
		if u := c17UnlockBetween(fn, tb, call.Block(), rel); u != "" {
			return false, "the delete takes its keys from a list filled under an expiry test, but the mutex can be released at " + u + " between that test and the delete: a registration or refresh that lands in the gap is wiped (the delete is not dominated by a positive time comparison of its own)"
		}
	}
	return true, ""
}

func c17IsUnlock(in ssa.Instruction) bool {
	cc, ok := in.(*ssa.Call)
	if !ok {
		return false
	}
	f := cc.Call.StaticCallee()
	if f == nil {
		return false
	}
	switch f.String() {
	case "(*sync.RWMutex).Unlock", "(*sync.RWMutex).RUnlock", "(*sync.Mutex).Unlock":
		return true
	}
	return false
}

func c17ReachFrom(from *ssa.BasicBlock) map[*ssa.BasicBlock]bool {
	seen := map[*ssa.BasicBlock]bool{from: true}
	work := []*ssa.BasicBlock{from}
	for len(work) > 0 {
		x := work[len(work)-1]
		work = work[:len(work)-1]
		for _, s := range x.Succs {
			if !seen[s] {
				seen[s] = true
				work = append(work, s)
			}
		}
	}
	return seen
}

// c17UnlockBetween: an unlock in a block that lies on a path from `from` to `to` (both inclusive).
func c17UnlockBetween(fn *ssa.Function, from, to *ssa.BasicBlock, rel func(token.Pos) string) string {
	fromSet := c17ReachFrom(from)
	for _, x := range fn.Blocks {
		if !fromSet[x] || !c17ReachFrom(x)[to] {
			continue
		}
		for _, y := range x.Instrs {
			if c17IsUnlock(y) {
				return rel(y.Pos())
			}
		}
	}
	return ""
}

func c17ExpiryGate(c *Ctx) {
	const rule = "expiry-gate"
	const rel = "network/netbios/nbtns"
	p, r := c.P, c.R
	pk := p.Pkg(rel)
	if pk == nil {
		r.Undecided(rule, "package", "", "not found")
		return
	}
	tn, _ := pk.Types.Scope().Lookup("NetBIOSNameServer").(*types.TypeName)
	if tn == nil {
		r.Undecided(rule, "NetBIOSNameServer", "", "type not found")
		return
	}
	test := &c17ExpiryTest{p: p}
	noCtx := func(*ssa.CallCommon, *ssa.Function, any) any { return nil }
	ms := types.NewMethodSet(types.NewPointer(tn.Type()))
	hasOwner := func(fn *ssa.Function) bool {
		for _, prm := range fn.Params[1:] {
			if isIPType(prm.Type()) {
				return true
			}
		}
		return false
	}
	// entries: exported methods without an owner argument; then the unexported ones no
	// exported method reaches (a helper is judged on the way from the methods that call it)
	var entries, unexp []*ssa.Function
	reachedAny := map[*ssa.Function]bool{}
	for i := 0; i < ms.Len(); i++ {
		fn := p.Func(rel, "NetBIOSNameServer", ms.At(i).Obj().Name())
		if fn == nil || fn.Blocks == nil {
			continue
		}
		if ms.At(i).Obj().Exported() {
			w := c17NewWalker(p, fn.Pkg, noCtx)
			w.walk(fn, nil, nil, nil, 0)
			for g := range w.reached {
				if g != fn {
					reachedAny[g] = true
				}
			}
			if !hasOwner(fn) {
				entries = append(entries, fn)
			}
		} else if !hasOwner(fn) {
			unexp = append(unexp, fn)
		}
	}
	for _, fn := range unexp {
		if !reachedAny[fn] {
			entries = append(entries, fn)
		}
	}
	n := 0
	for _, method := range entries {
		w := c17NewWalker(p, method.Pkg, noCtx)
		w.walk(method, nil, nil, nil, 0)
		sort.SliceStable(w.muts, func(i, j int) bool { return w.muts[i].in.Pos() < w.muts[j].in.Pos() })
		ord := 0
		for _, m := range w.muts {
			removal := strings.HasPrefix(m.what, "delete(") || strings.HasPrefix(m.what, "clear(") || strings.HasPrefix(m.what, "maps.DeleteFunc(")
			if !removal {
				continue
			}
			n++
			ord++
			via := ""
			if m.via != "" {
				via = " (via " + m.via + ")"
			}
			construct := fmt.Sprintf("%s: delete #%d%s decided and executed in one critical section", p.FuncName(method), ord, via)
			pos := p.Rel(m.in.Pos())
			if strings.HasPrefix(m.what, "maps.DeleteFunc(") {
				call := m.in.(*ssa.Call)
				var pred *ssa.Function
				if len(call.Call.Args) == 2 {
					if mc, ok := c17UnitOf(call.Parent()).resolve(call.Call.Args[1]).(*ssa.MakeClosure); ok {
						pred, _ = mc.Fn.(*ssa.Function)
					}
				}
				switch {
				case pred == nil || pred.Blocks == nil || len(pred.Params) != 2:
					r.Fail(rule, construct, pos, "maps.DeleteFunc removes the records its predicate selects, and the predicate is not a function literal whose decision can be read: the removal is not shown to be decided by an expiry test")
				case !test.returnsExpiredTrue(pred, pred.Params[1], 0):
					r.Fail(rule, construct, pos, "the predicate given to maps.DeleteFunc can return true without a positive time comparison on the TTL of the record it was given: a record is removed on a decision that is not its expiry")
				default:
					unlock := ""
					for _, b := range pred.Blocks {
						for _, in := range b.Instrs {
							if c17IsUnlock(in) {
								unlock = p.Rel(in.Pos())
							}
						}
					}
					if unlock != "" {
						r.Fail(rule, construct, pos, "the predicate releases the mutex at "+unlock+" between its expiry test and the removal")
					} else {
						r.OK(rule, construct, pos, "maps.DeleteFunc with a predicate that is true only under a positive TTL comparison on the record it is given; test and removal happen inside one call")
					}
				}
				continue
			}
			// the innermost frame whose block is decided by an expiry test
			gate := -1
			var testBlock *ssa.BasicBlock
			for i := len(m.frames) - 1; i >= 0; i-- {
				if tb := test.blockGated(m.frames[i].b, nil, 0); tb != nil {
					gate, testBlock = i, tb
					break
				}
			}
			if gate < 0 {
				// collect-then-delete under one lock: the keys come from a local slice that only
				// grows under a positive expiry test, and the mutex is not released in between
				if ok, why := c17CollectedDelete(test, m.in, p.Rel); ok {
					r.OK(rule, construct, pos, "the deleted keys range over a local slice that is appended to only under a positive TTL comparison; no unlock between those comparisons and the delete")
					continue
				} else if why != "" {
					r.Fail(rule, construct, pos, why)
					continue
				}
				r.Fail(rule, construct, pos, "the delete is not dominated by the positive outcome of a time comparison on the record's TTL: a record is removed on a decision that was not taken at this point (stale scan result, or no expiry test at all)")
				continue
			}
			unlock := c17UnlockBetween(m.frames[gate].fn, testBlock, m.frames[gate].b, p.Rel)
			for i := gate + 1; i < len(m.frames) && unlock == ""; i++ {
				f := m.frames[i]
				if len(f.fn.Blocks) > 0 {
					unlock = c17UnlockBetween(f.fn, f.fn.Blocks[0], f.b, p.Rel)
				}
			}
			if unlock != "" {
				r.Fail(rule, construct, pos, "the mutex can be released at "+unlock+" between the expiry test and the delete: a registration or refresh that lands in the gap is wiped")
			} else {
				r.OK(rule, construct, pos, "dominated by a positive TTL comparison; no unlock between the comparison and the delete")
			}
		}
	}
	// CleanExpiredNames is the sweeping operation the property names: it must still remove something
	if fn := p.Func(rel, "NetBIOSNameServer", "CleanExpiredNames"); fn != nil {
		found := false
		for _, o := range r.Obls {
			if o.Rule == rule && strings.HasPrefix(o.Construct, p.FuncName(fn)+":") {
				found = true
			}
		}
		if !found {
			r.Undecided(rule, p.FuncName(fn)+": removals of expired records", p.Rel(fn.Pos()), "no removal from the table was recognised in or under the sweeping method: the rule no longer matches its shape")
		}
	}
	r.Floor(rule, 1)
	r.Extra["expiry_gated_deletes"] = n
}

func withClosures(fn *ssa.Function) []*ssa.Function {
	out := []*ssa.Function{fn}
	for _, a := range fn.AnonFuncs {
		out = append(out, withClosures(a)...)
	}
	return out
}

// c17OpaqueResults: every result of fn is reference-typed (error, pointer, …): the walk has
// no way to enumerate its values.
func c17OpaqueResults(fn *ssa.Function) bool {
	res := fn.Signature.Results()
	if res.Len() == 0 {
		return false
	}
	for i := 0; i < res.Len(); i++ {
		if _, isBasic := res.At(i).Type().Underlying().(*types.Basic); isBasic {
			return false
		}
	}
	return true
}
