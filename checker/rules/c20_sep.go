package rules

import (
	"fmt"
	"go/token"
	"go/types"
	"sort"
	"strings"

	"golang.org/x/tools/go/ssa"

	"manticheck/internal/strtmpl"
)

// R2: printer ⇄ parser tables of network/ip, by evaluating the parser's access
// path of every field on the printer's format template. Tables (an array / slice
// filled by a loop, here or in a helper) are resolved in c20_table.go.
//
// Completeness before verdict: an access path that runs into a construct this
// code does not read yields a reason prefixed with c20ND and the obligation is
// recorded NOT DECIDED (discharged + note). Reports of ABSENCE — "never sets
// this field", "never splits on this literal", "element never assigned" — are
// only made when every use of the struct / table / text was read.

const c20IPPkg = "network/ip"

type c20Verb struct {
	verb  byte
	field *types.Var // field of T printed by this verb (nil: not a plain field)
	owner *types.Named
}

type c20Printer struct {
	fn     *ssa.Function
	format string
	lits   []string // len(verbs)+1 literal segments
	verbs  []c20Verb
	plain  bool // every verb prints a field of the receiver's type
}

type c20TypeTable struct {
	T        *types.Named
	methods  map[string]*ssa.Function // no-argument methods returning a string
	printND  map[*ssa.Function]string // such methods whose text construction is not modelled
	printers []*c20Printer
	parsers  []*ssa.Function
	ctors    []*ssa.Function
}

// parseFormat splits a fmt format into literal segments and verbs.
func c20ParseFormat(f string) (lits []string, verbs []byte, ok bool) {
	cur := ""
	for i := 0; i < len(f); i++ {
		if f[i] != '%' {
			cur += string(f[i])
			continue
		}
		i++
		if i >= len(f) {
			return nil, nil, false
		}
		if f[i] == '%' {
			cur += "%"
			continue
		}
		for i < len(f) && strings.IndexByte("+-# 0123456789.", f[i]) >= 0 {
			i++
		}
		if i >= len(f) || f[i] == '*' || f[i] == '[' {
			return nil, nil, false
		}
		lits = append(lits, cur)
		cur = ""
		verbs = append(verbs, f[i])
	}
	lits = append(lits, cur)
	return lits, verbs, true
}

// c20Varargs returns the values stored into the `varargs` array a slice views, by index.
func c20Varargs(v ssa.Value) ([]ssa.Value, bool) {
	if k, ok := v.(*ssa.Const); ok && k.Value == nil {
		return nil, true
	}
	sl, ok := v.(*ssa.Slice)
	if !ok {
		return nil, false
	}
	al, ok := sl.X.(*ssa.Alloc)
	if !ok || al.Referrers() == nil {
		return nil, false
	}
	at, ok := al.Type().Underlying().(*types.Pointer).Elem().Underlying().(*types.Array)
	if !ok {
		return nil, false
	}
	out := make([]ssa.Value, at.Len())
	for _, r := range *al.Referrers() {
		ia, ok := r.(*ssa.IndexAddr)
		if !ok {
			continue
		}
		i, ok := c20ConstInt(ia.Index)
		if !ok || i < 0 || i >= int64(len(out)) || ia.Referrers() == nil {
			return nil, false
		}
		for _, rr := range *ia.Referrers() {
			if st, ok := rr.(*ssa.Store); ok && st.Addr == ia {
				if out[i] != nil {
					return nil, false
				}
				out[i] = st.Val
			}
		}
	}
	for _, x := range out {
		if x == nil {
			return nil, false
		}
	}
	return out, true
}

func c20Peel(v ssa.Value) ssa.Value {
	for {
		switch x := v.(type) {
		case *ssa.MakeInterface:
			v = x.X
		case *ssa.Convert:
			v = x.X
		case *ssa.ChangeType:
			v = x.X
		default:
			return v
		}
	}
}

func c20NamedStruct(t types.Type) *types.Named {
	if p, ok := t.Underlying().(*types.Pointer); ok {
		t = p.Elem()
	}
	n, ok := types.Unalias(t).(*types.Named)
	if !ok {
		return nil
	}
	if _, ok := n.Underlying().(*types.Struct); !ok {
		return nil
	}
	return n
}

// c20FieldLoad: v is a load of a struct field; returns the field and the struct's named type.
func c20FieldLoad(v ssa.Value) (*types.Var, *types.Named, ssa.Value) {
	switch x := v.(type) {
	case *ssa.UnOp:
		if x.Op != token.MUL {
			return nil, nil, nil
		}
		fa, ok := x.X.(*ssa.FieldAddr)
		if !ok {
			return nil, nil, nil
		}
		n := c20NamedStruct(fa.X.Type())
		if n == nil {
			return nil, nil, nil
		}
		return n.Underlying().(*types.Struct).Field(fa.Field), n, fa.X
	case *ssa.Field:
		n := c20NamedStruct(x.X.Type())
		if n == nil {
			return nil, nil, nil
		}
		return n.Underlying().(*types.Struct).Field(x.Field), n, x.X
	}
	return nil, nil, nil
}

// c20PrintersOf: fn returns texts made of constant literals and printed
// values — fmt.Sprintf with a constant format, or any construction internal/strtmpl
// models without loops (concatenation with strconv.Itoa/FormatUint, strconv.Append*
// into a byte buffer, a strings.Builder written to in sequence).
//
// A printer may have several returns (a nil guard answering a constant, a short
// form for a special case): every return that prints at least one value is one
// FORM of the text and is checked against the parser on its own; a return of a
// constant prints no field and has nothing to parse back.
//
// The second result is non-empty when a return builds its text in a way that is
// not modelled (a loop, a helper outside the module …): the method is then a
// printer this rule cannot read — NOT DECIDED, never "no printer".
func (c *Ctx) c20PrintersOf(fn *ssa.Function, T *types.Named) ([]*c20Printer, string) {
	var out []*c20Printer
	for _, b := range fn.Blocks {
		ret, ok := b.Instrs[len(b.Instrs)-1].(*ssa.Return)
		if !ok {
			continue
		}
		if _, isK := ret.Results[0].(*ssa.Const); isK {
			continue
		}
		var pr *c20Printer
		var lits []string
		var verbs []byte
		var args []ssa.Value
		format := ""
		direct := false
		if call, ok := ret.Results[0].(*ssa.Call); ok {
			if pkg, _, name := c20CalleeName(call.Common()); pkg == "fmt" && name == "Sprintf" {
				f, ok := c20ConstString(call.Common().Args[0])
				if !ok {
					return nil, "the format of its Sprintf is not a constant"
				}
				a, ok := c20Varargs(call.Common().Args[1])
				if !ok {
					return nil, "the arguments of its Sprintf are not a plain list"
				}
				l, v, ok := c20ParseFormat(f)
				if !ok || len(v) != len(a) {
					return nil, fmt.Sprintf("its format %q does not match its arguments", f)
				}
				format, lits, verbs, args, direct = f, l, v, a, true
			}
		}
		if !direct {
			ev := strtmpl.New()
			ev.InModule = c.P.InModule // a printer that delegates to another method / an in-module helper is read through it
			items, err := ev.String(ret.Results[0])
			if err != nil {
				return nil, "the construction of its text is not modelled: " + err.Error()
			}
			cur := ""
			for _, it := range items {
				switch it.Kind {
				case strtmpl.Lit:
					cur += it.Lit
					format += strings.ReplaceAll(it.Lit, "%", "%%")
				case strtmpl.Val:
					lits = append(lits, cur)
					cur = ""
					verbs = append(verbs, it.Verb)
					args = append(args, it.Val)
					format += "%" + string(it.Verb)
				default:
					return nil, "its text contains a repetition or an optional part: " + strtmpl.Describe(items)
				}
			}
			lits = append(lits, cur)
		}
		if len(verbs) == 0 {
			continue
		}
		pr = &c20Printer{fn: fn, format: format, lits: lits, plain: true}
		for i, vb := range verbs {
			f, owner, _ := c20FieldLoad(c20Peel(args[i]))
			if f == nil || owner.Obj() != T.Obj() {
				pr.plain = false
			}
			pr.verbs = append(pr.verbs, c20Verb{verb: vb, field: f, owner: owner})
		}
		for _, q := range out {
			if q.format == pr.format {
				pr = nil
				break
			}
		}
		if pr != nil {
			out = append(out, pr)
		}
	}
	return out, ""
}

func c20Tables(c *Ctx) []*c20TypeTable {
	p := c.P
	pk := p.Pkg(c20IPPkg)
	if pk == nil || pk.Types == nil {
		return nil
	}
	var out []*c20TypeTable
	byType := map[*types.TypeName]*c20TypeTable{}
	scope := pk.Types.Scope()
	names := scope.Names()
	sort.Strings(names)
	for _, nm := range names {
		tn, ok := scope.Lookup(nm).(*types.TypeName)
		if !ok {
			continue
		}
		n, ok := tn.Type().(*types.Named)
		if !ok {
			continue
		}
		if _, ok := n.Underlying().(*types.Struct); !ok {
			continue
		}
		t := &c20TypeTable{T: n, methods: map[string]*ssa.Function{}, printND: map[*ssa.Function]string{}}
		byType[tn] = t
		out = append(out, t)
		ms := p.SSA.MethodSets.MethodSet(types.NewPointer(n))
		for i := 0; i < ms.Len(); i++ {
			fn := p.SSA.MethodValue(ms.At(i))
			if fn == nil {
				continue
			}
			if fn.Synthetic != "" {
				if obj, ok := ms.At(i).Obj().(*types.Func); ok {
					fn = p.SSA.FuncValue(obj)
				}
			}
			if fn == nil || fn.Blocks == nil {
				continue
			}
			sig := fn.Signature
			if sig.Params().Len() == 0 && sig.Results().Len() == 1 && c20IsString(sig.Results().At(0).Type()) {
				t.methods[fn.Name()] = fn
				prs, nd := c.c20PrintersOf(fn, n)
				if nd != "" {
					t.printND[fn] = nd
				}
				t.printers = append(t.printers, prs...)
			}
		}
	}
	for _, nm := range names {
		fo, ok := scope.Lookup(nm).(*types.Func)
		if !ok {
			continue
		}
		fn := p.SSA.FuncValue(fo)
		if fn == nil || fn.Blocks == nil {
			continue
		}
		sig := fn.Signature
		if sig.Results().Len() == 0 {
			continue
		}
		n := c20NamedStruct(sig.Results().At(0).Type())
		if n == nil || byType[n.Obj()] == nil {
			continue
		}
		if sig.Params().Len() == 1 && c20IsString(sig.Params().At(0).Type()) {
			byType[n.Obj()].parsers = append(byType[n.Obj()].parsers, fn)
		} else {
			byType[n.Obj()].ctors = append(byType[n.Obj()].ctors, fn)
		}
	}
	return out
}

// ---- parser side

type c20Step struct {
	sep   string
	idx   int
	n     int  // SplitN limit (0: unlimited)
	last  bool // cut at the LAST occurrence of sep (strings.LastIndex + slicing)
	split ssa.Value
}

// c20ND prefixes the reason of a binding whose extraction is INCOMPLETE: the
// value (or the table / the text it is read from) flows into a construct the
// extractor does not analyse. Such a binding is reported NOT DECIDED
// (discharged with a note), never as a violation: nothing offending was
// observed, the code merely has a shape this rule cannot read.
const c20ND = "NOT DECIDED — "

func c20IsND(s string) bool { return strings.HasPrefix(s, c20ND) }

type c20Binding struct {
	field *types.Var
	steps []c20Step
	trim  bool
	base  int64
	bits  int64
	fn    string
	err   string
	pos   token.Pos
}

// c20AllocFields: the values stored into the fields of a struct allocation
// (single store each). escaped is non-empty when the struct is used in a way
// that may set fields out of sight (handed to a function or method, its
// address or a field's address stored or passed on): a field that is not in the
// map is then NOT KNOWN to be unset.
func c20AllocFields(alloc *ssa.Alloc) (fields map[*types.Var]ssa.Value, ok bool, escaped string) {
	n := c20NamedStruct(alloc.Type())
	if n == nil || alloc.Referrers() == nil {
		return nil, false, ""
	}
	st := n.Underlying().(*types.Struct)
	out := map[*types.Var]ssa.Value{}
	note := func(s string) {
		if escaped == "" {
			escaped = s
		}
	}
	for _, r := range *alloc.Referrers() {
		switch x := r.(type) {
		case *ssa.DebugRef, *ssa.Return, *ssa.Phi, *ssa.UnOp:
		case *ssa.FieldAddr:
			if x.Referrers() == nil {
				continue
			}
			for _, rr := range *x.Referrers() {
				switch y := rr.(type) {
				case *ssa.DebugRef, *ssa.UnOp:
				case *ssa.Store:
					if y.Addr != ssa.Value(x) {
						note("the address of field " + st.Field(x.Field).Name() + " is stored")
						continue
					}
					f := st.Field(x.Field)
					if _, dup := out[f]; dup {
						return nil, false, ""
					}
					out[f] = y.Val
				default:
					note(fmt.Sprintf("the address of field %s is used by %T", st.Field(x.Field).Name(), rr))
				}
			}
		case *ssa.Store:
			if x.Addr == ssa.Value(alloc) {
				if k, isK := x.Val.(*ssa.Const); isK && k.Value == nil {
					continue
				}
				note("the struct is assigned as a whole")
			} else {
				note("the struct's address is stored")
			}
		case *ssa.Call:
			_, _, name := c20CalleeName(x.Common())
			if name == "" {
				name = "a dynamic call"
			}
			note("the struct is handed to " + name)
		default:
			note(fmt.Sprintf("the struct is used by %T", r))
		}
	}
	return out, true, escaped
}

// c20Res is the context an access path is resolved in: the parser's string
// parameter, the arguments bound to the parameters of in-module helpers that
// were entered (bind), and the constant a loop counter stands for while one
// element of a table filled by that loop is being resolved (idx).
type c20Res struct {
	c    *Ctx
	prm  *ssa.Parameter
	bind map[*ssa.Parameter]ssa.Value
	idx  map[ssa.Value]int64
	ev   *strtmpl.Eval
}

func (rs *c20Res) withBind(g *ssa.Function, args []ssa.Value) *c20Res {
	out := *rs
	out.bind = map[*ssa.Parameter]ssa.Value{}
	for k, v := range rs.bind {
		out.bind[k] = v
	}
	for i, q := range g.Params {
		if i < len(args) {
			out.bind[q] = args[i]
		}
	}
	return &out
}

func (rs *c20Res) withIdx(k ssa.Value, j int64) *c20Res {
	out := *rs
	out.idx = map[ssa.Value]int64{}
	for a, b := range rs.idx {
		out.idx[a] = b
	}
	out.idx[k] = j
	return &out
}

// resolve follows helper parameters to the caller's values, and a variable that
// lives in a cell because a function literal captures it — read inside the
// literal (`*fv`) or outside (`*cell`) — to the one value ever stored into it.
func (rs *c20Res) resolve(v ssa.Value) ssa.Value {
	for i := 0; i < 8; i++ {
		switch x := v.(type) {
		case *ssa.Parameter:
			if x == rs.prm {
				return v
			}
			b, ok := rs.bind[x]
			if !ok {
				return v
			}
			v = b
			continue
		case *ssa.UnOp:
			if x.Op != token.MUL {
				return v
			}
			cell := x.X
			if fv, ok := cell.(*ssa.FreeVar); ok {
				cell = c20Captured(fv)
			}
			al, ok := cell.(*ssa.Alloc)
			if !ok || al.Referrers() == nil {
				return v
			}
			var val ssa.Value
			n := 0
			for _, r := range *al.Referrers() {
				switch y := r.(type) {
				case *ssa.Store:
					if y.Addr != ssa.Value(al) {
						return v
					}
					val = y.Val
					n++
				case *ssa.UnOp, *ssa.MakeClosure, *ssa.DebugRef:
				default:
					return v // address used in some other way: not a plain captured variable
				}
			}
			if n != 1 {
				return v
			}
			v = val
			continue
		}
		return v
	}
	return v
}

// c20Captured: the cell of the enclosing function a free variable stands for
// (nil when the literal is made in several places).
func c20Captured(fv *ssa.FreeVar) ssa.Value {
	fn := fv.Parent()
	if fn == nil || fn.Parent() == nil {
		return nil
	}
	var found ssa.Value
	n := 0
	for _, b := range fn.Parent().Blocks {
		for _, in := range b.Instrs {
			mc, ok := in.(*ssa.MakeClosure)
			if !ok || mc.Fn != ssa.Value(fn) {
				continue
			}
			for i, f := range fn.FreeVars {
				if f == fv && i < len(mc.Bindings) {
					found = mc.Bindings[i]
					n++
				}
			}
		}
	}
	if n != 1 {
		return nil
	}
	if inner, ok := found.(*ssa.FreeVar); ok {
		return c20Captured(inner)
	}
	return found
}

func (rs *c20Res) constIndex(v ssa.Value) (int64, bool) {
	v = rs.resolve(v)
	if k, ok := c20ConstInt(v); ok {
		return k, true
	}
	k, ok := rs.idx[v]
	return k, ok
}

func (rs *c20Res) isConst(v ssa.Value) bool {
	_, ok := rs.resolve(c20Peel(v)).(*ssa.Const)
	return ok
}

type c20Result struct {
	fields  map[*types.Var]ssa.Value
	rs      *c20Res
	escaped string // the struct may get fields set out of sight (c20AllocFields)
}

const c20NeverReturns = "the parser never returns a value"

// c20ResultFields: field → value for every non-nil *T result of the parser.
// The struct may be built by a literal, by a field-by-field constructor, or by
// an in-module helper that returns one of those (entered with its parameters
// bound to the arguments).
func (c *Ctx) c20ResultFields(fn *ssa.Function, T *types.Named, rs *c20Res) ([]c20Result, string) {
	var out []c20Result
	var visitFn func(fn *ssa.Function, rs *c20Res, d int) string
	var visit func(v ssa.Value, rs *c20Res, d int) string
	visit = func(v ssa.Value, rs *c20Res, d int) string {
		if d > 6 {
			return "result too deep"
		}
		v = rs.resolve(v)
		switch x := v.(type) {
		case *ssa.Const:
			if x.Value == nil {
				return "" // nil result: rejection
			}
		case *ssa.Phi:
			for _, e := range x.Edges {
				if s := visit(e, rs, d+1); s != "" {
					return s
				}
			}
			return ""
		case *ssa.Alloc:
			m, ok, esc := c20AllocFields(x)
			if !ok {
				return "struct literal with fields stored more than once"
			}
			out = append(out, c20Result{m, rs, esc})
			return ""
		case *ssa.Extract:
			if call, ok := x.Tuple.(*ssa.Call); ok && x.Index == 0 {
				return visit(call, rs, d+1)
			}
		case *ssa.Call:
			g := x.Common().StaticCallee()
			if g != nil && g.Blocks != nil && c.P.InModule(g) {
				// a constructor / a helper that builds the struct: its returns are visited
				// with its parameters bound to the arguments of this call
				if g.Signature.Results().Len() > 0 && len(g.Params) == len(x.Common().Args) {
					if n := c20NamedStruct(g.Signature.Results().At(0).Type()); n != nil && n.Obj() == T.Obj() && d < 3 {
						return visitFn(g, rs.withBind(g, x.Common().Args), d+1)
					}
				}
			}
			return "result is built by a call that is not a field-by-field constructor"
		}
		return fmt.Sprintf("result of shape %T is not modelled", v)
	}
	visitFn = func(fn *ssa.Function, rs *c20Res, d int) string {
		for _, b := range fn.Blocks {
			ret, ok := b.Instrs[len(b.Instrs)-1].(*ssa.Return)
			if !ok {
				continue
			}
			if s := visit(ret.Results[0], rs, d); s != "" {
				return s
			}
		}
		return ""
	}
	if s := visitFn(fn, rs, 0); s != "" {
		return nil, s
	}
	if len(out) == 0 {
		return nil, c20NeverReturns
	}
	return out, ""
}

// c20IndexCut: v is text[:i] or text[i+len(sep):] with i = strings.Index/IndexByte/LastIndex(text, sep).
func c20IndexCut(x *ssa.Slice, rs *c20Res) (text ssa.Value, st c20Step, ok bool) {
	if !c20IsString(x.X.Type()) || (x.Low == nil) == (x.High == nil) {
		return nil, st, false
	}
	bound, part := x.High, 0
	if x.Low != nil {
		bound, part = x.Low, 1
	}
	extra := int64(0)
	if bo, isB := bound.(*ssa.BinOp); isB && bo.Op == token.ADD {
		if k, isK := c20ConstInt(bo.Y); isK {
			bound, extra = bo.X, k
		} else if k, isK := c20ConstInt(bo.X); isK {
			bound, extra = bo.Y, k
		}
	}
	call, isCall := bound.(*ssa.Call)
	if !isCall {
		return nil, st, false
	}
	pkg, _, name := c20CalleeName(call.Common())
	if pkg != "strings" || len(call.Common().Args) != 2 || rs.resolve(call.Common().Args[0]) != rs.resolve(x.X) {
		return nil, st, false
	}
	sep := ""
	switch name {
	case "Index", "LastIndex":
		sep, ok = c20ConstString(call.Common().Args[1])
	case "IndexByte", "LastIndexByte", "IndexRune":
		var k int64
		k, ok = c20ConstInt(call.Common().Args[1])
		if ok && k > 0 && k < 0x80 {
			sep = string(rune(k))
		} else {
			ok = false
		}
	}
	if !ok || sep == "" {
		return nil, st, false
	}
	if (part == 0 && extra != 0) || (part == 1 && extra != int64(len(sep))) {
		return nil, st, false
	}
	return x.X, c20Step{sep: sep, idx: part, n: 2, last: strings.HasPrefix(name, "Last"), split: call}, true
}

// c20Chunk resolves the text a numeric parse is applied to, back to the parameter.
func c20Chunk(v ssa.Value, rs *c20Res, d int) (steps []c20Step, trim bool, err string) {
	if d > 10 {
		return nil, false, c20ND + "access path too deep"
	}
	v = rs.resolve(v)
	switch x := v.(type) {
	case *ssa.Parameter:
		if x == rs.prm {
			return nil, false, ""
		}
		return nil, false, "text does not come from the string parameter"
	case *ssa.UnOp:
		if x.Op == token.MUL {
			if ia, ok := x.X.(*ssa.IndexAddr); ok {
				idx, ok := rs.constIndex(ia.Index)
				if !ok {
					return nil, false, c20ND + "part selected with a non-constant index"
				}
				call, ok := rs.resolve(ia.X).(*ssa.Call)
				if !ok {
					return nil, false, c20ND + "indexed slice is not the result of a split"
				}
				pkg, _, name := c20CalleeName(call.Common())
				if pkg != "strings" || (name != "Split" && name != "SplitN") {
					return nil, false, c20ND + "indexed slice comes from " + name + ", not strings.Split"
				}
				sep, ok := c20ConstString(call.Common().Args[1])
				if !ok {
					return nil, false, c20ND + "split separator is not a constant"
				}
				n := int64(0)
				if name == "SplitN" {
					n, ok = c20ConstInt(call.Common().Args[2])
					if !ok {
						return nil, false, c20ND + "SplitN count is not a constant"
					}
				}
				pre, tr, e := c20Chunk(call.Common().Args[0], rs, d+1)
				if e != "" {
					return nil, false, e
				}
				return append(pre, c20Step{sep: sep, idx: int(idx), n: int(n), split: call}), tr, ""
			}
		}
	case *ssa.Extract:
		if call, ok := x.Tuple.(*ssa.Call); ok {
			if g := call.Common().StaticCallee(); g != nil && g.Blocks != nil && rs.c.P.InModule(g) {
				return c20ChunkInline(call, g, x.Index, rs, d)
			}
			pkg, _, name := c20CalleeName(call.Common())
			if pkg == "strings" && name == "Cut" && x.Index < 2 {
				sep, ok := c20ConstString(call.Common().Args[1])
				if !ok {
					return nil, false, c20ND + "Cut separator is not a constant"
				}
				pre, tr, e := c20Chunk(call.Common().Args[0], rs, d+1)
				if e != "" {
					return nil, false, e
				}
				return append(pre, c20Step{sep: sep, idx: x.Index, n: 2, split: call}), tr, ""
			}
		}
	case *ssa.Slice:
		if text, st, ok := c20IndexCut(x, rs); ok {
			pre, tr, e := c20Chunk(text, rs, d+1)
			if e != "" {
				return nil, false, e
			}
			return append(pre, st), tr, ""
		}
	case *ssa.Call:
		if g := x.Common().StaticCallee(); g != nil && g.Blocks != nil && rs.c.P.InModule(g) && g.Signature.Results().Len() == 1 {
			return c20ChunkInline(x, g, 0, rs, d)
		}
		pkg, _, name := c20CalleeName(x.Common())
		if pkg == "strings" && name == "TrimSpace" {
			pre, _, e := c20Chunk(x.Common().Args[0], rs, d+1)
			return pre, true, e
		}
	case *ssa.Phi:
		var first []c20Step
		set := false
		for _, e := range x.Edges {
			st, tr, er := c20Chunk(e, rs, d+1)
			if er != "" {
				return nil, false, er
			}
			if set && !c20SameSteps(first, st) {
				return nil, false, "text comes from different parts on different paths"
			}
			first, trim, set = st, trim || tr, true
		}
		return first, trim, ""
	}
	return nil, false, c20ND + fmt.Sprintf("text of shape %T is not modelled", v)
}

// c20ChunkInline: result #ri of an in-module helper that cuts the text (a
// splitCIDR(s) (address, prefix string, ok bool)): every return whose value is
// not a constant must be the same piece, seen with the helper's parameters
// bound to the arguments.
func c20ChunkInline(call *ssa.Call, g *ssa.Function, ri int, rs *c20Res, d int) (steps []c20Step, trim bool, err string) {
	in := rs.withBind(g, call.Common().Args)
	set := false
	for _, blk := range g.Blocks {
		ret, ok := blk.Instrs[len(blk.Instrs)-1].(*ssa.Return)
		if !ok || ri >= len(ret.Results) {
			continue
		}
		if in.isConst(ret.Results[ri]) {
			continue
		}
		st, tr, e := c20Chunk(ret.Results[ri], in, d+1)
		if e != "" {
			return nil, false, e
		}
		if set && !c20SameSteps(steps, st) {
			return nil, false, "helper " + g.Name() + " returns different parts on different paths"
		}
		steps, trim, set = st, trim || tr, true
	}
	if !set {
		return nil, false, "helper " + g.Name() + " returns no piece of the text"
	}
	return steps, trim, ""
}

func c20SameSteps(a, b []c20Step) bool {
	if len(a) != len(b) {
		return false
	}
	for i := range a {
		if a[i].sep != b[i].sep || a[i].idx != b[i].idx || a[i].n != b[i].n || a[i].last != b[i].last {
			return false
		}
	}
	return true
}

// c20LoopCovers, c20Element and the table walk live in c20_table.go.

// c20Inline resolves result #ri of a call of an in-module helper: every return
// whose value is not a constant (a default / the zero of a rejection) must be
// the same numeric parse, seen with the helper's parameters bound to the
// arguments.
func c20Inline(call *ssa.Call, g *ssa.Function, ri int, rs *c20Res, d int) (b c20Binding) {
	in := rs.withBind(g, call.Common().Args)
	set := false
	for _, blk := range g.Blocks {
		ret, ok := blk.Instrs[len(blk.Instrs)-1].(*ssa.Return)
		if !ok || ri >= len(ret.Results) {
			continue
		}
		v := ret.Results[ri]
		if in.isConst(v) {
			continue
		}
		nb := c20Numeric(v, in, d+1)
		if nb.err != "" {
			if nb.err == c20AllConst {
				continue
			}
			return nb
		}
		if set && (!c20SameSteps(b.steps, nb.steps) || b.base != nb.base) {
			b.err = "helper " + g.Name() + " returns different parts on different paths"
			return
		}
		b, set = nb, true
	}
	if !set {
		b.err = c20AllConst
	}
	return
}

const c20AllConst = "field is a constant on every path"

// c20Numeric resolves a field value to the numeric parse that produced it.
func c20Numeric(v ssa.Value, rs *c20Res, d int) (b c20Binding) {
	if d > 10 {
		b.err = c20ND + "value too deep"
		return
	}
	v = rs.resolve(c20Peel(v))
	v = rs.resolve(c20Peel(v))
	switch x := v.(type) {
	case *ssa.Const:
		b.err = c20AllConst
		return
	case *ssa.Phi:
		set := false
		for _, e := range x.Edges {
			if rs.isConst(e) {
				continue // default value on a path that does not parse
			}
			nb := c20Numeric(e, rs, d+1)
			if nb.err == c20AllConst {
				continue
			}
			if nb.err != "" {
				return nb
			}
			if set && (!c20SameSteps(b.steps, nb.steps) || b.base != nb.base) {
				b.err = "field comes from different parts on different paths"
				return
			}
			b, set = nb, true
		}
		if !set {
			b.err = c20AllConst
		}
		return
	case *ssa.UnOp:
		if x.Op == token.MUL {
			if _, ok := x.X.(*ssa.IndexAddr); ok {
				return c20Element(x, rs, d)
			}
		}
	case *ssa.Call:
		if g := x.Common().StaticCallee(); g != nil && g.Blocks != nil && rs.c.P.InModule(g) && g.Signature.Results().Len() == 1 {
			return c20Inline(x, g, 0, rs, d)
		}
	case *ssa.Extract:
		call, ok := x.Tuple.(*ssa.Call)
		if !ok {
			b.err = "field is not the value result of a numeric parse"
			return
		}
		if g := call.Common().StaticCallee(); g != nil && g.Blocks != nil && rs.c.P.InModule(g) {
			return c20Inline(call, g, x.Index, rs, d)
		}
		if x.Index != 0 {
			b.err = "field is not the value result of a numeric parse"
			return
		}
		pkg, _, name := c20CalleeName(call.Common())
		if pkg != "strconv" {
			b.err = c20ND + "field comes from " + name + ", not a strconv parse"
			return
		}
		args := call.Common().Args
		b.fn, b.pos = name, call.Pos()
		switch name {
		case "ParseUint", "ParseInt":
			var ok1, ok2 bool
			b.base, ok1 = c20ConstInt(rs.resolve(args[1]))
			b.bits, ok2 = c20ConstInt(rs.resolve(args[2]))
			if !ok1 || !ok2 {
				b.err = c20ND + "base or bit size is not a constant"
				return
			}
		case "Atoi":
			b.base, b.bits = 10, 64
		default:
			b.err = c20ND + "strconv." + name + " is not modelled"
			return
		}
		b.steps, b.trim, b.err = c20Chunk(args[0], rs, 0)
		return
	}
	b.err = c20ND + fmt.Sprintf("field value of shape %T is not a numeric parse of the text", v)
	return
}

func c20Token(i int) string { return fmt.Sprintf("\x00%d\x00", i) }

func c20Template(pr *c20Printer) string {
	var sb strings.Builder
	for i := range pr.verbs {
		sb.WriteString(pr.lits[i])
		sb.WriteString(c20Token(i))
	}
	sb.WriteString(pr.lits[len(pr.verbs)])
	return sb.String()
}

func c20ShowTemplate(pr *c20Printer, s string) string {
	for i, v := range pr.verbs {
		s = strings.ReplaceAll(s, c20Token(i), "%"+string(v.verb))
	}
	return s
}

var c20VerbBase = map[byte]int64{'d': 10, 'x': 16, 'X': 16, 'o': 8, 'b': 2}

func c20FieldBits(f *types.Var) int64 {
	b, ok := f.Type().Underlying().(*types.Basic)
	if !ok {
		return 0
	}
	switch b.Kind() {
	case types.Uint8, types.Int8:
		return 8
	case types.Uint16, types.Int16:
		return 16
	case types.Uint32, types.Int32:
		return 32
	case types.Uint64, types.Int64, types.Int, types.Uint:
		return 64
	}
	return 0
}

// c20ExpectedPrinters: the exported text forms of network/ip that have a parser
// (confirmed by reading, 2026-09): printer → number of fields it prints and
// number of distinct separators between them. These are the ENTITIES the
// floors of R2 stand for (5+5+5+8+2 = 25 fields, 2+2+2+1+1 = 8 separators): a
// printer of this list must resolve; when it resolves but its text (or the
// parser's result) is built in a way this rule does not read, its obligations
// are reported NOT DECIDED — and counted — instead of silently missing.
var c20ExpectedPrinters = map[string]map[string][2]int{
	"IPv4":         {"String": {5, 2}, "CIDRAddress": {5, 2}, "CIDRMask": {5, 2}},
	"IPv6":         {"String": {8, 1}},
	"TCPPortRange": {"String": {2, 1}},
}

func c20RunR2(c *Ctx) []*c20TypeTable {
	r, p := c.R, c.P
	tbls := c20Tables(c)
	if tbls == nil {
		r.Undecided(c20RPair, "package "+c20IPPkg, "-", "package does not resolve")
		return nil
	}
	// NOT DECIDED obligations standing for nf fields / ns separators of one printer
	placeholders := func(pname, prname, pos string, nf, ns int, why string) {
		for k := 0; k < nf; k++ {
			r.OK(c20RField, fmt.Sprintf("%s ⇄ %s: printed field #%d", pname, prname, k+1), pos, c20ND+why)
		}
		for k := 0; k < ns; k++ {
			r.OK(c20RSep, fmt.Sprintf("%s ⇄ %s: separator #%d", pname, prname, k+1), pos, c20ND+why)
			r.OK(c20RArity, fmt.Sprintf("%s ⇄ %s: number of parts on separator #%d", pname, prname, k+1), pos, c20ND+why)
		}
		r.Note("C20 R2 %s ⇄ %s: NOT DECIDED — %s", pname, prname, why)
	}
	distinctLits := func(pr *c20Printer) int {
		seen := map[string]bool{}
		for _, l := range pr.lits {
			if l != "" {
				seen[l] = true
			}
		}
		return len(seen)
	}
	seenType := map[string]bool{}
	noted := map[string]bool{}
	noteOnce := func(key, f string, a ...any) {
		if !noted[key] {
			noted[key] = true
			r.Note(f, a...)
		}
	}
	var pairs, unpaired []string
	for _, t := range tbls {
		tname := t.T.Obj().Name()
		seenType[tname] = true
		var plain []*c20Printer
		for _, pr := range t.printers {
			if pr.plain {
				plain = append(plain, pr)
			}
		}
		// expected printers that resolve but yield no readable form
		type unread struct {
			fn  *ssa.Function
			why string
			n   [2]int
		}
		var unreadPr []unread
		var expNames []string
		for m := range c20ExpectedPrinters[tname] {
			expNames = append(expNames, m)
		}
		sort.Strings(expNames)
		for _, m := range expNames {
			fn := t.methods[m]
			if fn == nil {
				r.Undecided("anchor", fmt.Sprintf("(*%s.%s).%s", c20IPPkg, tname, m), "-", "anchored printer (a no-argument method returning a string) does not resolve")
				continue
			}
			has := false
			for _, pr := range plain {
				if pr.fn == fn {
					has = true
				}
			}
			if has {
				continue
			}
			why := t.printND[fn]
			if why == "" {
				why = "it prints values that are not plain fields of " + tname + " (or only constants)"
			}
			unreadPr = append(unreadPr, unread{fn, "the printer is not read: " + why, c20ExpectedPrinters[tname][m]})
		}
		if len(t.parsers) == 0 || (len(plain) == 0 && len(unreadPr) == 0) {
			if len(t.printers) > 0 {
				unpaired = append(unpaired, fmt.Sprintf("%s: %d printer(s), %d parser(s) — no round trip to check", tname, len(t.printers), len(t.parsers)))
			}
			continue
		}
		for _, ps := range t.parsers {
			prm := ps.Params[0]
			pname := p.FuncName(ps)
			for _, u := range unreadPr {
				placeholders(pname, p.FuncName(u.fn), p.Rel(u.fn.Pos()), u.n[0], u.n[1], u.why)
			}
			if len(plain) == 0 {
				r.OK(c20RPair, pname+" ⇄ "+tname, p.Rel(ps.Pos()), c20ND+"no printer of "+tname+" is read (see the notes)")
				continue
			}
			rs := &c20Res{c: c, prm: prm, ev: strtmpl.New()}
			results, rerr := c.c20ResultFields(ps, t.T, rs)
			if rerr != "" && rerr != c20NeverReturns {
				// the parser's result is assembled in a way that is not read: nothing was observed
				r.OK(c20RPair, pname+" ⇄ "+tname, p.Rel(ps.Pos()), c20ND+rerr)
				for _, pr := range plain {
					placeholders(pname, p.FuncName(pr.fn), p.Rel(ps.Pos()), len(pr.verbs), distinctLits(pr), "the parser's result is not read: "+rerr)
				}
				continue
			}
			if rerr != "" {
				r.Undecided(c20RPair, pname+" ⇄ "+tname, p.Rel(ps.Pos()), rerr)
				continue
			}
			r.OK(c20RPair, pname+" ⇄ "+tname, p.Rel(ps.Pos()), fmt.Sprintf("%d printer(s) of %s paired with this parser by signature (string → *%s)", len(plain), tname, tname))
			pairs = append(pairs, pname+" ⇄ "+tname)
			for _, pr := range plain {
				prname := p.FuncName(pr.fn)
				tmpl := c20Template(pr)
				consumed := map[string]bool{}
				trimmed := false
				incomplete := "" // some field's access path was not read: absence of a split is then no evidence
				type arityOf struct {
					parts  int
					splits []ssa.Value
				}
				arity := map[string]*arityOf{}
				for vi, vb := range pr.verbs {
					construct := fmt.Sprintf("%s ⇄ %s %q: field %s", pname, prname, pr.format, vb.field.Name())
					c.guard(c20RField, construct, p.Rel(ps.Pos()), func() {
						var fails, unds, nds []string
						bound := 0
						for _, res := range results {
							val, has := res.fields[vb.field]
							if !has && res.escaped != "" {
								nds = append(nds, "no assignment of this field was seen, but "+res.escaped+", which may set it")
								continue
							}
							if !has {
								fails = append(fails, "the printer emits this field but the parser never sets it")
								continue
							}
							b := c20Numeric(val, res.rs, 0)
							if c20IsND(b.err) {
								nds = append(nds, strings.TrimPrefix(b.err, c20ND))
								continue
							}
							if b.err != "" {
								unds = append(unds, b.err)
								continue
							}
							bound++
							chunk := tmpl
							okPath := true
							for _, st := range b.steps {
								consumed[st.sep] = true
								var parts []string
								switch {
								case st.last:
									if i := strings.LastIndex(chunk, st.sep); i >= 0 {
										parts = []string{chunk[:i], chunk[i+len(st.sep):]}
									} else {
										parts = []string{chunk}
									}
								case st.n > 0:
									parts = strings.SplitN(chunk, st.sep, st.n)
								default:
									parts = strings.Split(chunk, st.sep)
								}
								a := arity[st.sep]
								if a == nil {
									a = &arityOf{parts: len(parts)}
									arity[st.sep] = a
								}
								dup := false
								for _, sp := range a.splits {
									if sp == st.split {
										dup = true
									}
								}
								if !dup {
									a.splits = append(a.splits, st.split)
								}
								if st.idx >= len(parts) {
									fails = append(fails, fmt.Sprintf("the parser takes part [%d] after splitting %q on %q, but the printed text has only %d such part(s)",
										st.idx, c20ShowTemplate(pr, chunk), st.sep, len(parts)))
									okPath = false
									break
								}
								chunk = parts[st.idx]
							}
							if !okPath {
								continue
							}
							if b.trim {
								trimmed = true
								chunk = strings.TrimSpace(chunk)
							}
							if chunk != c20Token(vi) {
								what := "a different field"
								if strings.Count(chunk, "\x00") > 2 || strings.Trim(chunk, "\x000123456789") != "" {
									what = "several fields and the literal text between them, which the parser never splits on"
								}
								fails = append(fails, fmt.Sprintf("the parser reads field %s from the part %q of the printed text %q — %s",
									vb.field.Name(), c20ShowTemplate(pr, chunk), pr.format, what))
								continue
							}
							if want, ok := c20VerbBase[vb.verb]; !ok {
								unds = append(unds, fmt.Sprintf("verb %%%c is not modelled", vb.verb))
							} else if b.base != want {
								fails = append(fails, fmt.Sprintf("printed with %%%c (base %d) but parsed by strconv.%s in base %d", vb.verb, want, b.fn, b.base))
							}
							if fb := c20FieldBits(vb.field); b.bits != 0 && fb != 0 && b.bits < fb {
								fails = append(fails, fmt.Sprintf("parsed with bit size %d but the field has %d bits: printed values ≥ 2^%d do not parse back", b.bits, fb, b.bits))
							}
						}
						switch {
						case len(fails) > 0:
							r.Fail(c20RField, construct, p.Rel(ps.Pos()), strings.Join(c20Dedup(fails), " | "))
						case len(unds) > 0:
							r.Undecided(c20RField, construct, p.Rel(ps.Pos()), strings.Join(c20Dedup(unds), " | "))
						case len(nds) > 0:
							why := strings.Join(c20Dedup(nds), " | ")
							incomplete = why
							r.OK(c20RField, construct, p.Rel(ps.Pos()), c20ND+why)
							noteOnce(pname+"|"+why, "C20 R2 %s (and the other fields / printers with the same access path): NOT DECIDED — %s", construct, why)
						default:
							r.OK(c20RField, construct, p.Rel(ps.Pos()), fmt.Sprintf("the parser's access path selects exactly the %%%c that prints %s; base and bit size agree", vb.verb, vb.field.Name()))
						}
					})
				}
				// separators
				seen := map[string]bool{}
				for li, lit := range pr.lits {
					if lit == "" || seen[lit] {
						continue
					}
					seen[lit] = true
					where := "between fields"
					if li == 0 {
						where = "before the first field"
					} else if li == len(pr.verbs) {
						where = "after the last field"
					}
					construct := fmt.Sprintf("%s ⇄ %s %q: separator %q", pname, prname, pr.format, lit)
					key := lit
					if trimmed {
						key = strings.TrimSpace(lit)
					}
					if consumed[key] {
						r.OK(c20RSep, construct, p.Rel(pr.fn.Pos()), "the parser splits on this literal ("+where+")")
					} else if incomplete != "" {
						r.OK(c20RSep, construct, p.Rel(pr.fn.Pos()), c20ND+"no split on this literal was seen, but the access path of a field was not read ("+incomplete+")")
						if arity[key] == nil {
							r.OK(c20RArity, fmt.Sprintf("%s ⇄ %s %q: number of parts on %q", pname, prname, pr.format, lit), p.Rel(pr.fn.Pos()), c20ND+"no split on this literal was seen, but the access path of a field was not read")
						}
					} else {
						var cs []string
						for s := range consumed {
							cs = append(cs, fmt.Sprintf("%q", s))
						}
						sort.Strings(cs)
						r.Fail(c20RSep, construct, p.Rel(pr.fn.Pos()), fmt.Sprintf("the printer emits %q %s but the parser never splits on it (it consumes only %s): printed text cannot parse back",
							lit, where, strings.Join(cs, ", ")))
					}
				}
				// arity: one obligation per separator the parser cuts on (not per split call:
				// whether the cuts are made by one Split, a Cut or a helper is the code's business)
				var seps []string
				for s := range arity {
					seps = append(seps, s)
				}
				sort.Strings(seps)
				for _, sp := range seps {
					a := arity[sp]
					construct := fmt.Sprintf("%s ⇄ %s %q: number of parts on %q", pname, prname, pr.format, sp)
					var ks []int64
					pos := p.Rel(ps.Pos())
					for _, sv := range a.splits {
						ks = append(ks, c.c20LenConstants(sv)...)
						pos = p.Rel(sv.Pos())
					}
					if len(ks) == 0 {
						r.OK(c20RArity, construct, pos, "the parser does not compare the number of parts with a constant (nothing to contradict)")
						continue
					}
					ok := false
					for _, k := range ks {
						if int(k) == a.parts {
							ok = true
						}
					}
					if ok {
						r.OK(c20RArity, construct, pos, fmt.Sprintf("the printed text has %d part(s) and the parser tests for %d", a.parts, a.parts))
					} else {
						r.Fail(c20RArity, construct, pos, fmt.Sprintf("the printed text splits into %d part(s) on %q but the parser only accepts %v", a.parts, sp, ks))
					}
				}
			}
		}
	}
	// confirmed by reading (2026-09): IPv4 (String, CIDRAddress, CIDRMask × 5 fields), IPv6 (String × 8), TCPPortRange (String × 2)
	for tname := range c20ExpectedPrinters {
		if !seenType[tname] {
			r.Undecided("anchor", c20IPPkg+"."+tname, "-", "anchored type (a struct with a printer and a parser) does not resolve")
		}
	}
	r.Floor(c20RPair, 3)
	r.Floor(c20RField, 25)
	r.Floor(c20RSep, 8)
	r.Floor(c20RArity, 8)
	r.Extra["R2_pairs"] = pairs
	r.Extra["R2_printers_without_parser"] = unpaired
	return tbls
}

func c20Dedup(in []string) []string {
	seen := map[string]bool{}
	var out []string
	for _, s := range in {
		if !seen[s] {
			seen[s] = true
			out = append(out, s)
		}
	}
	return out
}
