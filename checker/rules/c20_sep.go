package rules

import (
	"fmt"
	"go/token"
	"go/types"
	"sort"
	"strings"

	"golang.org/x/tools/go/ssa"

	"manticheck/internal/strtmpl"
)

// R2: printer ⇄ parser tables of network/ip, by evaluating the parser's access
// path of every field on the printer's format template.

const c20IPPkg = "network/ip"

type c20Verb struct {
	verb  byte
	field *types.Var // field of T printed by this verb (nil: not a plain field)
	owner *types.Named
}

type c20Printer struct {
	fn     *ssa.Function
	format string
	lits   []string // len(verbs)+1 literal segments
	verbs  []c20Verb
	plain  bool // every verb prints a field of the receiver's type
}

type c20TypeTable struct {
	T        *types.Named
	printers []*c20Printer
	parsers  []*ssa.Function
	ctors    []*ssa.Function
}

// parseFormat splits a fmt format into literal segments and verbs.
func c20ParseFormat(f string) (lits []string, verbs []byte, ok bool) {
	cur := ""
	for i := 0; i < len(f); i++ {
		if f[i] != '%' {
			cur += string(f[i])
			continue
		}
		i++
		if i >= len(f) {
			return nil, nil, false
		}
		if f[i] == '%' {
			cur += "%"
			continue
		}
		for i < len(f) && strings.IndexByte("+-# 0123456789.", f[i]) >= 0 {
			i++
		}
		if i >= len(f) || f[i] == '*' || f[i] == '[' {
			return nil, nil, false
		}
		lits = append(lits, cur)
		cur = ""
		verbs = append(verbs, f[i])
	}
	lits = append(lits, cur)
	return lits, verbs, true
}

// c20Varargs returns the values stored into the `varargs` array a slice views, by index.
func c20Varargs(v ssa.Value) ([]ssa.Value, bool) {
	if k, ok := v.(*ssa.Const); ok && k.Value == nil {
		return nil, true
	}
	sl, ok := v.(*ssa.Slice)
	if !ok {
		return nil, false
	}
	al, ok := sl.X.(*ssa.Alloc)
	if !ok || al.Referrers() == nil {
		return nil, false
	}
	at, ok := al.Type().Underlying().(*types.Pointer).Elem().Underlying().(*types.Array)
	if !ok {
		return nil, false
	}
	out := make([]ssa.Value, at.Len())
	for _, r := range *al.Referrers() {
		ia, ok := r.(*ssa.IndexAddr)
		if !ok {
			continue
		}
		i, ok := c20ConstInt(ia.Index)
		if !ok || i < 0 || i >= int64(len(out)) || ia.Referrers() == nil {
			return nil, false
		}
		for _, rr := range *ia.Referrers() {
			if st, ok := rr.(*ssa.Store); ok && st.Addr == ia {
				if out[i] != nil {
					return nil, false
				}
				out[i] = st.Val
			}
		}
	}
	for _, x := range out {
		if x == nil {
			return nil, false
		}
	}
	return out, true
}

func c20Peel(v ssa.Value) ssa.Value {
	for {
		switch x := v.(type) {
		case *ssa.MakeInterface:
			v = x.X
		case *ssa.Convert:
			v = x.X
		case *ssa.ChangeType:
			v = x.X
		default:
			return v
		}
	}
}

func c20NamedStruct(t types.Type) *types.Named {
	if p, ok := t.Underlying().(*types.Pointer); ok {
		t = p.Elem()
	}
	n, ok := types.Unalias(t).(*types.Named)
	if !ok {
		return nil
	}
	if _, ok := n.Underlying().(*types.Struct); !ok {
		return nil
	}
	return n
}

// c20FieldLoad: v is a load of a struct field; returns the field and the struct's named type.
func c20FieldLoad(v ssa.Value) (*types.Var, *types.Named, ssa.Value) {
	switch x := v.(type) {
	case *ssa.UnOp:
		if x.Op != token.MUL {
			return nil, nil, nil
		}
		fa, ok := x.X.(*ssa.FieldAddr)
		if !ok {
			return nil, nil, nil
		}
		n := c20NamedStruct(fa.X.Type())
		if n == nil {
			return nil, nil, nil
		}
		return n.Underlying().(*types.Struct).Field(fa.Field), n, fa.X
	case *ssa.Field:
		n := c20NamedStruct(x.X.Type())
		if n == nil {
			return nil, nil, nil
		}
		return n.Underlying().(*types.Struct).Field(x.Field), n, x.X
	}
	return nil, nil, nil
}

// c20PrintersOf: fn returns texts made of constant literals and printed
// values — fmt.Sprintf with a constant format, or any construction internal/strtmpl
// models without loops (concatenation with strconv.Itoa/FormatUint, strconv.Append*
// into a byte buffer, a strings.Builder written to in sequence).
//
// A printer may have several returns (a nil guard answering a constant, a short
// form for a special case): every return that prints at least one value is one
// FORM of the text and is checked against the parser on its own; a return of a
// constant prints no field and has nothing to parse back.
func (c *Ctx) c20PrintersOf(fn *ssa.Function, T *types.Named) []*c20Printer {
	var out []*c20Printer
	for _, b := range fn.Blocks {
		ret, ok := b.Instrs[len(b.Instrs)-1].(*ssa.Return)
		if !ok {
			continue
		}
		if _, isK := ret.Results[0].(*ssa.Const); isK {
			continue
		}
		var pr *c20Printer
		var lits []string
		var verbs []byte
		var args []ssa.Value
		format := ""
		direct := false
		if call, ok := ret.Results[0].(*ssa.Call); ok {
			if pkg, _, name := c20CalleeName(call.Common()); pkg == "fmt" && name == "Sprintf" {
				f, ok := c20ConstString(call.Common().Args[0])
				if !ok {
					return nil
				}
				a, ok := c20Varargs(call.Common().Args[1])
				if !ok {
					return nil
				}
				l, v, ok := c20ParseFormat(f)
				if !ok || len(v) != len(a) {
					return nil
				}
				format, lits, verbs, args, direct = f, l, v, a, true
			}
		}
		if !direct {
			items, err := strtmpl.New().String(ret.Results[0])
			if err != nil {
				return nil
			}
			cur := ""
			for _, it := range items {
				switch it.Kind {
				case strtmpl.Lit:
					cur += it.Lit
					format += strings.ReplaceAll(it.Lit, "%", "%%")
				case strtmpl.Val:
					lits = append(lits, cur)
					cur = ""
					verbs = append(verbs, it.Verb)
					args = append(args, it.Val)
					format += "%" + string(it.Verb)
				default:
					return nil
				}
			}
			lits = append(lits, cur)
		}
		if len(verbs) == 0 {
			continue
		}
		pr = &c20Printer{fn: fn, format: format, lits: lits, plain: true}
		for i, vb := range verbs {
			f, owner, _ := c20FieldLoad(c20Peel(args[i]))
			if f == nil || owner.Obj() != T.Obj() {
				pr.plain = false
			}
			pr.verbs = append(pr.verbs, c20Verb{verb: vb, field: f, owner: owner})
		}
		for _, q := range out {
			if q.format == pr.format {
				pr = nil
				break
			}
		}
		if pr != nil {
			out = append(out, pr)
		}
	}
	return out
}

func c20Tables(c *Ctx) []*c20TypeTable {
	p := c.P
	pk := p.Pkg(c20IPPkg)
	if pk == nil || pk.Types == nil {
		return nil
	}
	var out []*c20TypeTable
	byType := map[*types.TypeName]*c20TypeTable{}
	scope := pk.Types.Scope()
	names := scope.Names()
	sort.Strings(names)
	for _, nm := range names {
		tn, ok := scope.Lookup(nm).(*types.TypeName)
		if !ok {
			continue
		}
		n, ok := tn.Type().(*types.Named)
		if !ok {
			continue
		}
		if _, ok := n.Underlying().(*types.Struct); !ok {
			continue
		}
		t := &c20TypeTable{T: n}
		byType[tn] = t
		out = append(out, t)
		ms := p.SSA.MethodSets.MethodSet(types.NewPointer(n))
		for i := 0; i < ms.Len(); i++ {
			fn := p.SSA.MethodValue(ms.At(i))
			if fn == nil {
				continue
			}
			if fn.Synthetic != "" {
				if obj, ok := ms.At(i).Obj().(*types.Func); ok {
					fn = p.SSA.FuncValue(obj)
				}
			}
			if fn == nil || fn.Blocks == nil {
				continue
			}
			sig := fn.Signature
			if sig.Params().Len() == 0 && sig.Results().Len() == 1 && c20IsString(sig.Results().At(0).Type()) {
				t.printers = append(t.printers, c.c20PrintersOf(fn, n)...)
			}
		}
	}
	for _, nm := range names {
		fo, ok := scope.Lookup(nm).(*types.Func)
		if !ok {
			continue
		}
		fn := p.SSA.FuncValue(fo)
		if fn == nil || fn.Blocks == nil {
			continue
		}
		sig := fn.Signature
		if sig.Results().Len() == 0 {
			continue
		}
		n := c20NamedStruct(sig.Results().At(0).Type())
		if n == nil || byType[n.Obj()] == nil {
			continue
		}
		if sig.Params().Len() == 1 && c20IsString(sig.Params().At(0).Type()) {
			byType[n.Obj()].parsers = append(byType[n.Obj()].parsers, fn)
		} else {
			byType[n.Obj()].ctors = append(byType[n.Obj()].ctors, fn)
		}
	}
	return out
}

// ---- parser side

type c20Step struct {
	sep   string
	idx   int
	n     int  // SplitN limit (0: unlimited)
	last  bool // cut at the LAST occurrence of sep (strings.LastIndex + slicing)
	split ssa.Value
}

type c20Binding struct {
	field *types.Var
	steps []c20Step
	trim  bool
	base  int64
	bits  int64
	fn    string
	err   string
	pos   token.Pos
}

// ctorSummary: parameter index → field, for `return &T{F: p, ...}` style constructors.
func c20CtorSummary(fn *ssa.Function, T *types.Named) (map[int]*types.Var, bool) {
	var alloc *ssa.Alloc
	for _, b := range fn.Blocks {
		ret, ok := b.Instrs[len(b.Instrs)-1].(*ssa.Return)
		if !ok {
			continue
		}
		a, ok := ret.Results[0].(*ssa.Alloc)
		if !ok || (alloc != nil && a != alloc) {
			return nil, false
		}
		alloc = a
	}
	if alloc == nil || c20NamedStruct(alloc.Type()) == nil || c20NamedStruct(alloc.Type()).Obj() != T.Obj() {
		return nil, false
	}
	out := map[int]*types.Var{}
	fields, ok := c20AllocFields(alloc)
	if !ok {
		return nil, false
	}
	for f, v := range fields {
		prm, ok := c20Peel(v).(*ssa.Parameter)
		if !ok {
			continue
		}
		for i, q := range fn.Params {
			if q == prm {
				out[i] = f
			}
		}
	}
	return out, true
}

// c20AllocFields: the values stored into the fields of a struct allocation (single store each).
func c20AllocFields(alloc *ssa.Alloc) (map[*types.Var]ssa.Value, bool) {
	n := c20NamedStruct(alloc.Type())
	if n == nil || alloc.Referrers() == nil {
		return nil, false
	}
	st := n.Underlying().(*types.Struct)
	out := map[*types.Var]ssa.Value{}
	for _, r := range *alloc.Referrers() {
		fa, ok := r.(*ssa.FieldAddr)
		if !ok || fa.Referrers() == nil {
			continue
		}
		for _, rr := range *fa.Referrers() {
			if s, ok := rr.(*ssa.Store); ok && s.Addr == fa {
				f := st.Field(fa.Field)
				if _, dup := out[f]; dup {
					return nil, false
				}
				out[f] = s.Val
			}
		}
	}
	return out, true
}

// c20Res is the context an access path is resolved in: the parser's string
// parameter, the arguments bound to the parameters of in-module helpers that
// were entered (bind), and the constant a loop counter stands for while one
// element of a table filled by that loop is being resolved (idx).
type c20Res struct {
	c    *Ctx
	prm  *ssa.Parameter
	bind map[*ssa.Parameter]ssa.Value
	idx  map[ssa.Value]int64
	ev   *strtmpl.Eval
}

func (rs *c20Res) withBind(g *ssa.Function, args []ssa.Value) *c20Res {
	out := *rs
	out.bind = map[*ssa.Parameter]ssa.Value{}
	for k, v := range rs.bind {
		out.bind[k] = v
	}
	for i, q := range g.Params {
		if i < len(args) {
			out.bind[q] = args[i]
		}
	}
	return &out
}

func (rs *c20Res) withIdx(k ssa.Value, j int64) *c20Res {
	out := *rs
	out.idx = map[ssa.Value]int64{}
	for a, b := range rs.idx {
		out.idx[a] = b
	}
	out.idx[k] = j
	return &out
}

// resolve follows helper parameters to the caller's values.
func (rs *c20Res) resolve(v ssa.Value) ssa.Value {
	for i := 0; i < 6; i++ {
		q, ok := v.(*ssa.Parameter)
		if !ok || q == rs.prm {
			return v
		}
		b, ok := rs.bind[q]
		if !ok {
			return v
		}
		v = b
	}
	return v
}

func (rs *c20Res) constIndex(v ssa.Value) (int64, bool) {
	v = rs.resolve(v)
	if k, ok := c20ConstInt(v); ok {
		return k, true
	}
	k, ok := rs.idx[v]
	return k, ok
}

func (rs *c20Res) isConst(v ssa.Value) bool {
	_, ok := rs.resolve(c20Peel(v)).(*ssa.Const)
	return ok
}

type c20Result struct {
	fields map[*types.Var]ssa.Value
	rs     *c20Res
}

// c20ResultFields: field → value for every non-nil *T result of the parser.
// The struct may be built by a literal, by a field-by-field constructor, or by
// an in-module helper that returns one of those (entered with its parameters
// bound to the arguments).
func (c *Ctx) c20ResultFields(fn *ssa.Function, T *types.Named, rs *c20Res) ([]c20Result, string) {
	var out []c20Result
	var visitFn func(fn *ssa.Function, rs *c20Res, d int) string
	var visit func(v ssa.Value, rs *c20Res, d int) string
	visit = func(v ssa.Value, rs *c20Res, d int) string {
		if d > 6 {
			return "result too deep"
		}
		v = rs.resolve(v)
		switch x := v.(type) {
		case *ssa.Const:
			if x.Value == nil {
				return "" // nil result: rejection
			}
		case *ssa.Phi:
			for _, e := range x.Edges {
				if s := visit(e, rs, d+1); s != "" {
					return s
				}
			}
			return ""
		case *ssa.Alloc:
			m, ok := c20AllocFields(x)
			if !ok {
				return "struct literal with fields stored more than once"
			}
			out = append(out, c20Result{m, rs})
			return ""
		case *ssa.Extract:
			if call, ok := x.Tuple.(*ssa.Call); ok && x.Index == 0 {
				return visit(call, rs, d+1)
			}
		case *ssa.Call:
			g := x.Common().StaticCallee()
			if g != nil && g.Blocks != nil && c.P.InModule(g) {
				sum, ok := c20CtorSummary(g, T)
				if ok {
					m := map[*types.Var]ssa.Value{}
					for i, f := range sum {
						if i < len(x.Common().Args) {
							m[f] = x.Common().Args[i]
						}
					}
					out = append(out, c20Result{m, rs})
					return ""
				}
				if g.Signature.Results().Len() > 0 {
					if n := c20NamedStruct(g.Signature.Results().At(0).Type()); n != nil && n.Obj() == T.Obj() && d < 3 {
						return visitFn(g, rs.withBind(g, x.Common().Args), d+1)
					}
				}
			}
			return "result is built by a call that is not a field-by-field constructor"
		}
		return fmt.Sprintf("result of shape %T is not modelled", v)
	}
	visitFn = func(fn *ssa.Function, rs *c20Res, d int) string {
		for _, b := range fn.Blocks {
			ret, ok := b.Instrs[len(b.Instrs)-1].(*ssa.Return)
			if !ok {
				continue
			}
			if s := visit(ret.Results[0], rs, d); s != "" {
				return s
			}
		}
		return ""
	}
	if s := visitFn(fn, rs, 0); s != "" {
		return nil, s
	}
	if len(out) == 0 {
		return nil, "the parser never returns a value"
	}
	return out, ""
}

// c20IndexCut: v is text[:i] or text[i+len(sep):] with i = strings.Index/IndexByte/LastIndex(text, sep).
func c20IndexCut(x *ssa.Slice, rs *c20Res) (text ssa.Value, st c20Step, ok bool) {
	if !c20IsString(x.X.Type()) || (x.Low == nil) == (x.High == nil) {
		return nil, st, false
	}
	bound, part := x.High, 0
	if x.Low != nil {
		bound, part = x.Low, 1
	}
	extra := int64(0)
	if bo, isB := bound.(*ssa.BinOp); isB && bo.Op == token.ADD {
		if k, isK := c20ConstInt(bo.Y); isK {
			bound, extra = bo.X, k
		} else if k, isK := c20ConstInt(bo.X); isK {
			bound, extra = bo.Y, k
		}
	}
	call, isCall := bound.(*ssa.Call)
	if !isCall {
		return nil, st, false
	}
	pkg, _, name := c20CalleeName(call.Common())
	if pkg != "strings" || len(call.Common().Args) != 2 || rs.resolve(call.Common().Args[0]) != rs.resolve(x.X) {
		return nil, st, false
	}
	sep := ""
	switch name {
	case "Index", "LastIndex":
		sep, ok = c20ConstString(call.Common().Args[1])
	case "IndexByte", "LastIndexByte", "IndexRune":
		var k int64
		k, ok = c20ConstInt(call.Common().Args[1])
		if ok && k > 0 && k < 0x80 {
			sep = string(rune(k))
		} else {
			ok = false
		}
	}
	if !ok || sep == "" {
		return nil, st, false
	}
	if (part == 0 && extra != 0) || (part == 1 && extra != int64(len(sep))) {
		return nil, st, false
	}
	return x.X, c20Step{sep: sep, idx: part, n: 2, last: strings.HasPrefix(name, "Last"), split: call}, true
}

// c20Chunk resolves the text a numeric parse is applied to, back to the parameter.
func c20Chunk(v ssa.Value, rs *c20Res, d int) (steps []c20Step, trim bool, err string) {
	if d > 10 {
		return nil, false, "access path too deep"
	}
	v = rs.resolve(v)
	switch x := v.(type) {
	case *ssa.Parameter:
		if x == rs.prm {
			return nil, false, ""
		}
		return nil, false, "text does not come from the string parameter"
	case *ssa.UnOp:
		if x.Op == token.MUL {
			if ia, ok := x.X.(*ssa.IndexAddr); ok {
				idx, ok := rs.constIndex(ia.Index)
				if !ok {
					return nil, false, "part selected with a non-constant index"
				}
				call, ok := rs.resolve(ia.X).(*ssa.Call)
				if !ok {
					return nil, false, "indexed slice is not the result of a split"
				}
				pkg, _, name := c20CalleeName(call.Common())
				if pkg != "strings" || (name != "Split" && name != "SplitN") {
					return nil, false, "indexed slice comes from " + name + ", not strings.Split"
				}
				sep, ok := c20ConstString(call.Common().Args[1])
				if !ok {
					return nil, false, "split separator is not a constant"
				}
				n := int64(0)
				if name == "SplitN" {
					n, ok = c20ConstInt(call.Common().Args[2])
					if !ok {
						return nil, false, "SplitN count is not a constant"
					}
				}
				pre, tr, e := c20Chunk(call.Common().Args[0], rs, d+1)
				if e != "" {
					return nil, false, e
				}
				return append(pre, c20Step{sep: sep, idx: int(idx), n: int(n), split: call}), tr, ""
			}
		}
	case *ssa.Extract:
		if call, ok := x.Tuple.(*ssa.Call); ok {
			if g := call.Common().StaticCallee(); g != nil && g.Blocks != nil && rs.c.P.InModule(g) {
				return c20ChunkInline(call, g, x.Index, rs, d)
			}
			pkg, _, name := c20CalleeName(call.Common())
			if pkg == "strings" && name == "Cut" && x.Index < 2 {
				sep, ok := c20ConstString(call.Common().Args[1])
				if !ok {
					return nil, false, "Cut separator is not a constant"
				}
				pre, tr, e := c20Chunk(call.Common().Args[0], rs, d+1)
				if e != "" {
					return nil, false, e
				}
				return append(pre, c20Step{sep: sep, idx: x.Index, n: 2, split: call}), tr, ""
			}
		}
	case *ssa.Slice:
		if text, st, ok := c20IndexCut(x, rs); ok {
			pre, tr, e := c20Chunk(text, rs, d+1)
			if e != "" {
				return nil, false, e
			}
			return append(pre, st), tr, ""
		}
	case *ssa.Call:
		if g := x.Common().StaticCallee(); g != nil && g.Blocks != nil && rs.c.P.InModule(g) && g.Signature.Results().Len() == 1 {
			return c20ChunkInline(x, g, 0, rs, d)
		}
		pkg, _, name := c20CalleeName(x.Common())
		if pkg == "strings" && name == "TrimSpace" {
			pre, _, e := c20Chunk(x.Common().Args[0], rs, d+1)
			return pre, true, e
		}
	case *ssa.Phi:
		var first []c20Step
		set := false
		for _, e := range x.Edges {
			st, tr, er := c20Chunk(e, rs, d+1)
			if er != "" {
				return nil, false, er
			}
			if set && !c20SameSteps(first, st) {
				return nil, false, "text comes from different parts on different paths"
			}
			first, trim, set = st, trim || tr, true
		}
		return first, trim, ""
	}
	return nil, false, fmt.Sprintf("text of shape %T is not modelled", v)
}

// c20ChunkInline: result #ri of an in-module helper that cuts the text (a
// splitCIDR(s) (address, prefix string, ok bool)): every return whose value is
// not a constant must be the same piece, seen with the helper's parameters
// bound to the arguments.
func c20ChunkInline(call *ssa.Call, g *ssa.Function, ri int, rs *c20Res, d int) (steps []c20Step, trim bool, err string) {
	in := rs.withBind(g, call.Common().Args)
	set := false
	for _, blk := range g.Blocks {
		ret, ok := blk.Instrs[len(blk.Instrs)-1].(*ssa.Return)
		if !ok || ri >= len(ret.Results) {
			continue
		}
		if in.isConst(ret.Results[ri]) {
			continue
		}
		st, tr, e := c20Chunk(ret.Results[ri], in, d+1)
		if e != "" {
			return nil, false, e
		}
		if set && !c20SameSteps(steps, st) {
			return nil, false, "helper " + g.Name() + " returns different parts on different paths"
		}
		steps, trim, set = st, trim || tr, true
	}
	if !set {
		return nil, false, "helper " + g.Name() + " returns no piece of the text"
	}
	return steps, trim, ""
}

func c20SameSteps(a, b []c20Step) bool {
	if len(a) != len(b) {
		return false
	}
	for i := range a {
		if a[i].sep != b[i].sep || a[i].idx != b[i].idx || a[i].n != b[i].n || a[i].last != b[i].last {
			return false
		}
	}
	return true
}

// c20LoopCovers: the instruction at (a store, an append) runs in every iteration
// of a counted loop whose counter is k, the loop starts at 0, reaches j, and is
// left early only towards a return (a rejection). "" = yes.
func c20LoopCovers(rs *c20Res, k ssa.Value, at ssa.Instruction, j int64) string {
	var phi *ssa.Phi
	switch x := k.(type) {
	case *ssa.Phi:
		phi = x
	case *ssa.BinOp:
		phi, _ = x.X.(*ssa.Phi)
	}
	if phi == nil {
		return "the element index is not a loop counter"
	}
	l, err := rs.ev.LoopOf(phi.Block())
	if err != nil {
		return "the table is filled by a loop that is not a counted loop: " + err.Error()
	}
	if l.Counter != k {
		return "the element index is not the counter of the enclosing loop"
	}
	first := l.Start
	if l.Range {
		first++
	}
	if first != 0 {
		return fmt.Sprintf("the filling loop starts at %d", first)
	}
	if kb, ok := c20ConstInt(l.Bound); ok {
		if (l.Op == token.LSS && j >= kb) || (l.Op == token.LEQ && j > kb) {
			return fmt.Sprintf("element %d is read but the filling loop stops before it (bound %d)", j, kb)
		}
	} else if call, ok := l.Bound.(*ssa.Call); ok {
		if _, _, name := c20CalleeName(call.Common()); name != "len" {
			return "the bound of the filling loop is not a constant or a length"
		}
	} else {
		return "the bound of the filling loop is not a constant or a length"
	}
	body := strtmpl.LoopBlocks(l.Header)
	if !body[at.Block()] {
		return "the element is assigned outside the loop its index counts"
	}
	for _, pr := range l.Header.Preds {
		if l.Header.Dominates(pr) && !at.Block().Dominates(pr) {
			return "the element is not assigned in every iteration"
		}
	}
	for b := range body {
		if b == l.Header {
			continue
		}
		for _, sc := range b.Succs {
			if body[sc] {
				continue
			}
			ret, isRet := sc.Instrs[len(sc.Instrs)-1].(*ssa.Return)
			if isRet && len(ret.Results) > 0 {
				if k, isK := ret.Results[0].(*ssa.Const); isK && k.Value == nil {
					continue // leaves the loop to reject the input
				}
			}
			return "the filling loop can be left early (break) without rejecting the input"
		}
	}
	return ""
}

// c20Element resolves `table[j]` — an element of a local array / made slice
// that is filled by constant-index stores or by a counted loop, or of a slice
// grown by one append per iteration — to the value assigned to it.
func c20Element(load *ssa.UnOp, rs *c20Res, d int) (b c20Binding) {
	ia := load.X.(*ssa.IndexAddr)
	j, ok := rs.constIndex(ia.Index)
	if !ok {
		b.err = "table element selected with a non-constant index"
		return
	}
	type cand struct {
		v  ssa.Value
		rs *c20Res
	}
	var cands []cand
	base := rs.resolve(ia.X)
	if sl, ok := base.(*ssa.Slice); ok && sl.Low == nil && sl.High == nil {
		base = sl.X // table[:]
	}
	switch x := base.(type) {
	case *ssa.Alloc, *ssa.MakeSlice:
		refs := x.(ssa.Value).Referrers()
		if refs == nil {
			break
		}
		for _, r := range *refs {
			sa, ok := r.(*ssa.IndexAddr)
			if !ok || sa.Referrers() == nil {
				continue
			}
			for _, rr := range *sa.Referrers() {
				st, ok := rr.(*ssa.Store)
				if !ok || st.Addr != ssa.Value(sa) {
					continue
				}
				if k, isK := c20ConstInt(sa.Index); isK {
					if k == j {
						cands = append(cands, cand{st.Val, rs})
					}
					continue
				}
				if why := c20LoopCovers(rs, sa.Index, st, j); why != "" {
					b.err = why
					return
				}
				cands = append(cands, cand{st.Val, rs.withIdx(sa.Index, j)})
			}
		}
	case *ssa.Phi:
		// s = append(s, v) once per iteration: element j is the v of iteration j
		l, err := rs.ev.LoopOf(x.Block())
		if err != nil {
			b.err = "table of shape φ that is not the accumulator of a counted loop"
			return
		}
		for i, e := range x.Edges {
			if !x.Block().Dominates(x.Block().Preds[i]) {
				switch iv := e.(type) {
				case *ssa.MakeSlice:
					if n, ok := c20ConstInt(iv.Len); !ok || n != 0 {
						b.err = "appended table does not start empty"
						return
					}
				case *ssa.Slice: // make([]T, 0, constant) is lowered to new [n]T + [:0]
					_, fresh := iv.X.(*ssa.Alloc)
					if n, ok := c20ConstInt(iv.High); !fresh || iv.Low != nil || iv.High == nil || !ok || n != 0 {
						b.err = "appended table does not start empty"
						return
					}
				case *ssa.Const:
				default:
					b.err = "appended table does not start empty"
					return
				}
				continue
			}
			call, ok := e.(*ssa.Call)
			if !ok {
				b.err = "table is not grown by one append per iteration"
				return
			}
			if _, _, name := c20CalleeName(call.Common()); name != "append" || call.Common().Args[0] != ssa.Value(x) {
				b.err = "table is not grown by one append per iteration"
				return
			}
			vals, ok := c20Varargs(call.Common().Args[1])
			if !ok || len(vals) != 1 {
				b.err = "table is not grown by one append per iteration"
				return
			}
			if why := c20LoopCovers(rs, l.Counter, call, j); why != "" {
				b.err = why
				return
			}
			cands = append(cands, cand{vals[0], rs.withIdx(l.Counter, j)})
		}
	default:
		b.err = fmt.Sprintf("table of shape %T is not modelled", base)
		return
	}
	if len(cands) == 0 {
		b.err = fmt.Sprintf("element %d of the table is never assigned", j)
		return
	}
	set := false
	for _, cd := range cands {
		nb := c20Numeric(cd.v, cd.rs, d+1)
		if nb.err != "" {
			return nb
		}
		if set && (!c20SameSteps(b.steps, nb.steps) || b.base != nb.base) {
			b.err = fmt.Sprintf("element %d of the table is assigned from different parts", j)
			return
		}
		b, set = nb, true
	}
	return
}

// c20Inline resolves result #ri of a call of an in-module helper: every return
// whose value is not a constant (a default / the zero of a rejection) must be
// the same numeric parse, seen with the helper's parameters bound to the
// arguments.
func c20Inline(call *ssa.Call, g *ssa.Function, ri int, rs *c20Res, d int) (b c20Binding) {
	in := rs.withBind(g, call.Common().Args)
	set := false
	for _, blk := range g.Blocks {
		ret, ok := blk.Instrs[len(blk.Instrs)-1].(*ssa.Return)
		if !ok || ri >= len(ret.Results) {
			continue
		}
		v := ret.Results[ri]
		if in.isConst(v) {
			continue
		}
		nb := c20Numeric(v, in, d+1)
		if nb.err != "" {
			if nb.err == c20AllConst {
				continue
			}
			return nb
		}
		if set && (!c20SameSteps(b.steps, nb.steps) || b.base != nb.base) {
			b.err = "helper " + g.Name() + " returns different parts on different paths"
			return
		}
		b, set = nb, true
	}
	if !set {
		b.err = c20AllConst
	}
	return
}

const c20AllConst = "field is a constant on every path"

// c20Numeric resolves a field value to the numeric parse that produced it.
func c20Numeric(v ssa.Value, rs *c20Res, d int) (b c20Binding) {
	if d > 10 {
		b.err = "value too deep"
		return
	}
	v = rs.resolve(c20Peel(v))
	v = rs.resolve(c20Peel(v))
	switch x := v.(type) {
	case *ssa.Const:
		b.err = c20AllConst
		return
	case *ssa.Phi:
		set := false
		for _, e := range x.Edges {
			if rs.isConst(e) {
				continue // default value on a path that does not parse
			}
			nb := c20Numeric(e, rs, d+1)
			if nb.err == c20AllConst {
				continue
			}
			if nb.err != "" {
				return nb
			}
			if set && (!c20SameSteps(b.steps, nb.steps) || b.base != nb.base) {
				b.err = "field comes from different parts on different paths"
				return
			}
			b, set = nb, true
		}
		if !set {
			b.err = c20AllConst
		}
		return
	case *ssa.UnOp:
		if x.Op == token.MUL {
			if _, ok := x.X.(*ssa.IndexAddr); ok {
				return c20Element(x, rs, d)
			}
		}
	case *ssa.Call:
		if g := x.Common().StaticCallee(); g != nil && g.Blocks != nil && rs.c.P.InModule(g) && g.Signature.Results().Len() == 1 {
			return c20Inline(x, g, 0, rs, d)
		}
	case *ssa.Extract:
		call, ok := x.Tuple.(*ssa.Call)
		if !ok {
			b.err = "field is not the value result of a numeric parse"
			return
		}
		if g := call.Common().StaticCallee(); g != nil && g.Blocks != nil && rs.c.P.InModule(g) {
			return c20Inline(call, g, x.Index, rs, d)
		}
		if x.Index != 0 {
			b.err = "field is not the value result of a numeric parse"
			return
		}
		pkg, _, name := c20CalleeName(call.Common())
		if pkg != "strconv" {
			b.err = "field comes from " + name + ", not a strconv parse"
			return
		}
		args := call.Common().Args
		b.fn, b.pos = name, call.Pos()
		switch name {
		case "ParseUint", "ParseInt":
			var ok1, ok2 bool
			b.base, ok1 = c20ConstInt(rs.resolve(args[1]))
			b.bits, ok2 = c20ConstInt(rs.resolve(args[2]))
			if !ok1 || !ok2 {
				b.err = "base or bit size is not a constant"
				return
			}
		case "Atoi":
			b.base, b.bits = 10, 64
		default:
			b.err = "strconv." + name + " is not modelled"
			return
		}
		b.steps, b.trim, b.err = c20Chunk(args[0], rs, 0)
		return
	}
	b.err = fmt.Sprintf("field value of shape %T is not a numeric parse of the text", v)
	return
}

func c20Token(i int) string { return fmt.Sprintf("\x00%d\x00", i) }

func c20Template(pr *c20Printer) string {
	var sb strings.Builder
	for i := range pr.verbs {
		sb.WriteString(pr.lits[i])
		sb.WriteString(c20Token(i))
	}
	sb.WriteString(pr.lits[len(pr.verbs)])
	return sb.String()
}

func c20ShowTemplate(pr *c20Printer, s string) string {
	for i, v := range pr.verbs {
		s = strings.ReplaceAll(s, c20Token(i), "%"+string(v.verb))
	}
	return s
}

var c20VerbBase = map[byte]int64{'d': 10, 'x': 16, 'X': 16, 'o': 8, 'b': 2}

func c20FieldBits(f *types.Var) int64 {
	b, ok := f.Type().Underlying().(*types.Basic)
	if !ok {
		return 0
	}
	switch b.Kind() {
	case types.Uint8, types.Int8:
		return 8
	case types.Uint16, types.Int16:
		return 16
	case types.Uint32, types.Int32:
		return 32
	case types.Uint64, types.Int64, types.Int, types.Uint:
		return 64
	}
	return 0
}

// lenConstants: the constants len(split result) is compared with.
func c20LenConstants(split ssa.Value) []int64 {
	var out []int64
	if split.Referrers() == nil {
		return nil
	}
	for _, r := range *split.Referrers() {
		call, ok := r.(*ssa.Call)
		if !ok {
			continue
		}
		if _, _, name := c20CalleeName(call.Common()); name != "len" || call.Referrers() == nil {
			continue
		}
		for _, rr := range *call.Referrers() {
			if bo, ok := rr.(*ssa.BinOp); ok && (bo.Op == token.EQL || bo.Op == token.NEQ) {
				other := bo.Y
				if other == ssa.Value(call) {
					other = bo.X
				}
				if k, ok := c20ConstInt(other); ok {
					out = append(out, k)
				}
			}
		}
	}
	return out
}

func c20RunR2(c *Ctx) []*c20TypeTable {
	r, p := c.R, c.P
	tbls := c20Tables(c)
	if tbls == nil {
		r.Undecided(c20RPair, "package "+c20IPPkg, "-", "package does not resolve")
		return nil
	}
	var pairs, unpaired []string
	for _, t := range tbls {
		tname := t.T.Obj().Name()
		var plain []*c20Printer
		for _, pr := range t.printers {
			if pr.plain {
				plain = append(plain, pr)
			}
		}
		if len(t.parsers) == 0 || len(plain) == 0 {
			if len(t.printers) > 0 {
				unpaired = append(unpaired, fmt.Sprintf("%s: %d printer(s), %d parser(s) — no round trip to check", tname, len(t.printers), len(t.parsers)))
			}
			continue
		}
		for _, ps := range t.parsers {
			prm := ps.Params[0]
			pname := p.FuncName(ps)
			rs := &c20Res{c: c, prm: prm, ev: strtmpl.New()}
			results, rerr := c.c20ResultFields(ps, t.T, rs)
			if rerr != "" {
				r.Undecided(c20RPair, pname+" ⇄ "+tname, p.Rel(ps.Pos()), rerr)
				continue
			}
			r.OK(c20RPair, pname+" ⇄ "+tname, p.Rel(ps.Pos()), fmt.Sprintf("%d printer(s) of %s paired with this parser by signature (string → *%s)", len(plain), tname, tname))
			pairs = append(pairs, pname+" ⇄ "+tname)
			for _, pr := range plain {
				prname := p.FuncName(pr.fn)
				tmpl := c20Template(pr)
				consumed := map[string]bool{}
				trimmed := false
				type arityOf struct {
					parts  int
					splits []ssa.Value
				}
				arity := map[string]*arityOf{}
				for vi, vb := range pr.verbs {
					construct := fmt.Sprintf("%s ⇄ %s %q: field %s", pname, prname, pr.format, vb.field.Name())
					c.guard(c20RField, construct, p.Rel(ps.Pos()), func() {
						var fails, unds []string
						bound := 0
						for _, res := range results {
							val, has := res.fields[vb.field]
							if !has {
								fails = append(fails, "the printer emits this field but the parser never sets it")
								continue
							}
							b := c20Numeric(val, res.rs, 0)
							if b.err != "" {
								unds = append(unds, b.err)
								continue
							}
							bound++
							chunk := tmpl
							okPath := true
							for _, st := range b.steps {
								consumed[st.sep] = true
								var parts []string
								switch {
								case st.last:
									if i := strings.LastIndex(chunk, st.sep); i >= 0 {
										parts = []string{chunk[:i], chunk[i+len(st.sep):]}
									} else {
										parts = []string{chunk}
									}
								case st.n > 0:
									parts = strings.SplitN(chunk, st.sep, st.n)
								default:
									parts = strings.Split(chunk, st.sep)
								}
								a := arity[st.sep]
								if a == nil {
									a = &arityOf{parts: len(parts)}
									arity[st.sep] = a
								}
								dup := false
								for _, sp := range a.splits {
									if sp == st.split {
										dup = true
									}
								}
								if !dup {
									a.splits = append(a.splits, st.split)
								}
								if st.idx >= len(parts) {
									fails = append(fails, fmt.Sprintf("the parser takes part [%d] after splitting %q on %q, but the printed text has only %d such part(s)",
										st.idx, c20ShowTemplate(pr, chunk), st.sep, len(parts)))
									okPath = false
									break
								}
								chunk = parts[st.idx]
							}
							if !okPath {
								continue
							}
							if b.trim {
								trimmed = true
								chunk = strings.TrimSpace(chunk)
							}
							if chunk != c20Token(vi) {
								what := "a different field"
								if strings.Count(chunk, "\x00") > 2 || strings.Trim(chunk, "\x000123456789") != "" {
									what = "several fields and the literal text between them, which the parser never splits on"
								}
								fails = append(fails, fmt.Sprintf("the parser reads field %s from the part %q of the printed text %q — %s",
									vb.field.Name(), c20ShowTemplate(pr, chunk), pr.format, what))
								continue
							}
							if want, ok := c20VerbBase[vb.verb]; !ok {
								unds = append(unds, fmt.Sprintf("verb %%%c is not modelled", vb.verb))
							} else if b.base != want {
								fails = append(fails, fmt.Sprintf("printed with %%%c (base %d) but parsed by strconv.%s in base %d", vb.verb, want, b.fn, b.base))
							}
							if fb := c20FieldBits(vb.field); b.bits != 0 && fb != 0 && b.bits < fb {
								fails = append(fails, fmt.Sprintf("parsed with bit size %d but the field has %d bits: printed values ≥ 2^%d do not parse back", b.bits, fb, b.bits))
							}
						}
						switch {
						case len(fails) > 0:
							r.Fail(c20RField, construct, p.Rel(ps.Pos()), strings.Join(c20Dedup(fails), " | "))
						case len(unds) > 0:
							r.Undecided(c20RField, construct, p.Rel(ps.Pos()), strings.Join(c20Dedup(unds), " | "))
						default:
							r.OK(c20RField, construct, p.Rel(ps.Pos()), fmt.Sprintf("the parser's access path selects exactly the %%%c that prints %s; base and bit size agree", vb.verb, vb.field.Name()))
						}
					})
				}
				// separators
				seen := map[string]bool{}
				for li, lit := range pr.lits {
					if lit == "" || seen[lit] {
						continue
					}
					seen[lit] = true
					where := "between fields"
					if li == 0 {
						where = "before the first field"
					} else if li == len(pr.verbs) {
						where = "after the last field"
					}
					construct := fmt.Sprintf("%s ⇄ %s %q: separator %q", pname, prname, pr.format, lit)
					key := lit
					if trimmed {
						key = strings.TrimSpace(lit)
					}
					if consumed[key] {
						r.OK(c20RSep, construct, p.Rel(pr.fn.Pos()), "the parser splits on this literal ("+where+")")
					} else {
						var cs []string
						for s := range consumed {
							cs = append(cs, fmt.Sprintf("%q", s))
						}
						sort.Strings(cs)
						r.Fail(c20RSep, construct, p.Rel(pr.fn.Pos()), fmt.Sprintf("the printer emits %q %s but the parser never splits on it (it consumes only %s): printed text cannot parse back",
							lit, where, strings.Join(cs, ", ")))
					}
				}
				// arity: one obligation per separator the parser cuts on (not per split call:
				// whether the cuts are made by one Split, a Cut or a helper is the code's business)
				var seps []string
				for s := range arity {
					seps = append(seps, s)
				}
				sort.Strings(seps)
				for _, sp := range seps {
					a := arity[sp]
					construct := fmt.Sprintf("%s ⇄ %s %q: number of parts on %q", pname, prname, pr.format, sp)
					var ks []int64
					pos := p.Rel(ps.Pos())
					for _, sv := range a.splits {
						ks = append(ks, c20LenConstants(sv)...)
						pos = p.Rel(sv.Pos())
					}
					if len(ks) == 0 {
						r.OK(c20RArity, construct, pos, "the parser does not compare the number of parts with a constant (nothing to contradict)")
						continue
					}
					ok := false
					for _, k := range ks {
						if int(k) == a.parts {
							ok = true
						}
					}
					if ok {
						r.OK(c20RArity, construct, pos, fmt.Sprintf("the printed text has %d part(s) and the parser tests for %d", a.parts, a.parts))
					} else {
						r.Fail(c20RArity, construct, pos, fmt.Sprintf("the printed text splits into %d part(s) on %q but the parser only accepts %v", a.parts, sp, ks))
					}
				}
			}
		}
	}
	// confirmed by reading (2026-09): IPv4 (String, CIDRAddress, CIDRMask × 5 fields), IPv6 (String × 8), TCPPortRange (String × 2)
	r.Floor(c20RPair, 3)
	r.Floor(c20RField, 25)
	r.Floor(c20RSep, 8)
	r.Floor(c20RArity, 8)
	r.Extra["R2_pairs"] = pairs
	r.Extra["R2_printers_without_parser"] = unpaired
	return tbls
}

func c20Dedup(in []string) []string {
	seen := map[string]bool{}
	var out []string
	for _, s := range in {
		if !seen[s] {
			seen[s] = true
			out = append(out, s)
		}
	}
	return out
}
