package rules

import (
	"fmt"
	"go/token"
	"go/types"
	"sort"
	"strings"

	"golang.org/x/tools/go/ssa"
)

// R2: printer ⇄ parser tables of network/ip, by evaluating the parser's access
// path of every field on the printer's format template.

const c20IPPkg = "network/ip"

type c20Verb struct {
	verb  byte
	field *types.Var // field of T printed by this verb (nil: not a plain field)
	owner *types.Named
}

type c20Printer struct {
	fn     *ssa.Function
	format string
	lits   []string // len(verbs)+1 literal segments
	verbs  []c20Verb
	plain  bool // every verb prints a field of the receiver's type
}

type c20TypeTable struct {
	T        *types.Named
	printers []*c20Printer
	parsers  []*ssa.Function
	ctors    []*ssa.Function
}

// parseFormat splits a fmt format into literal segments and verbs.
func c20ParseFormat(f string) (lits []string, verbs []byte, ok bool) {
	cur := ""
	for i := 0; i < len(f); i++ {
		if f[i] != '%' {
			cur += string(f[i])
			continue
		}
		i++
		if i >= len(f) {
			return nil, nil, false
		}
		if f[i] == '%' {
			cur += "%"
			continue
		}
		for i < len(f) && strings.IndexByte("+-# 0123456789.", f[i]) >= 0 {
			i++
		}
		if i >= len(f) || f[i] == '*' || f[i] == '[' {
			return nil, nil, false
		}
		lits = append(lits, cur)
		cur = ""
		verbs = append(verbs, f[i])
	}
	lits = append(lits, cur)
	return lits, verbs, true
}

// c20Varargs returns the values stored into the `varargs` array a slice views, by index.
func c20Varargs(v ssa.Value) ([]ssa.Value, bool) {
	if k, ok := v.(*ssa.Const); ok && k.Value == nil {
		return nil, true
	}
	sl, ok := v.(*ssa.Slice)
	if !ok {
		return nil, false
	}
	al, ok := sl.X.(*ssa.Alloc)
	if !ok || al.Referrers() == nil {
		return nil, false
	}
	at, ok := al.Type().Underlying().(*types.Pointer).Elem().Underlying().(*types.Array)
	if !ok {
		return nil, false
	}
	out := make([]ssa.Value, at.Len())
	for _, r := range *al.Referrers() {
		ia, ok := r.(*ssa.IndexAddr)
		if !ok {
			continue
		}
		i, ok := c20ConstInt(ia.Index)
		if !ok || i < 0 || i >= int64(len(out)) || ia.Referrers() == nil {
			return nil, false
		}
		for _, rr := range *ia.Referrers() {
			if st, ok := rr.(*ssa.Store); ok && st.Addr == ia {
				if out[i] != nil {
					return nil, false
				}
				out[i] = st.Val
			}
		}
	}
	for _, x := range out {
		if x == nil {
			return nil, false
		}
	}
	return out, true
}

func c20Peel(v ssa.Value) ssa.Value {
	for {
		switch x := v.(type) {
		case *ssa.MakeInterface:
			v = x.X
		case *ssa.Convert:
			v = x.X
		case *ssa.ChangeType:
			v = x.X
		default:
			return v
		}
	}
}

func c20NamedStruct(t types.Type) *types.Named {
	if p, ok := t.Underlying().(*types.Pointer); ok {
		t = p.Elem()
	}
	n, ok := types.Unalias(t).(*types.Named)
	if !ok {
		return nil
	}
	if _, ok := n.Underlying().(*types.Struct); !ok {
		return nil
	}
	return n
}

// c20FieldLoad: v is a load of a struct field; returns the field and the struct's named type.
func c20FieldLoad(v ssa.Value) (*types.Var, *types.Named, ssa.Value) {
	switch x := v.(type) {
	case *ssa.UnOp:
		if x.Op != token.MUL {
			return nil, nil, nil
		}
		fa, ok := x.X.(*ssa.FieldAddr)
		if !ok {
			return nil, nil, nil
		}
		n := c20NamedStruct(fa.X.Type())
		if n == nil {
			return nil, nil, nil
		}
		return n.Underlying().(*types.Struct).Field(fa.Field), n, fa.X
	case *ssa.Field:
		n := c20NamedStruct(x.X.Type())
		if n == nil {
			return nil, nil, nil
		}
		return n.Underlying().(*types.Struct).Field(x.Field), n, x.X
	}
	return nil, nil, nil
}

func (c *Ctx) c20PrinterOf(fn *ssa.Function, T *types.Named) *c20Printer {
	var pr *c20Printer
	for _, b := range fn.Blocks {
		ret, ok := b.Instrs[len(b.Instrs)-1].(*ssa.Return)
		if !ok {
			continue
		}
		call, ok := ret.Results[0].(*ssa.Call)
		if !ok {
			return nil
		}
		pkg, _, name := c20CalleeName(call.Common())
		if pkg != "fmt" || name != "Sprintf" {
			return nil
		}
		format, ok := c20ConstString(call.Common().Args[0])
		if !ok {
			return nil
		}
		args, ok := c20Varargs(call.Common().Args[1])
		if !ok {
			return nil
		}
		lits, verbs, ok := c20ParseFormat(format)
		if !ok || len(verbs) != len(args) {
			return nil
		}
		if pr != nil {
			return nil // more than one formatting return: not a simple printer
		}
		pr = &c20Printer{fn: fn, format: format, lits: lits, plain: true}
		for i, vb := range verbs {
			f, owner, _ := c20FieldLoad(c20Peel(args[i]))
			if f == nil || owner.Obj() != T.Obj() {
				pr.plain = false
			}
			pr.verbs = append(pr.verbs, c20Verb{verb: vb, field: f, owner: owner})
		}
	}
	return pr
}

func c20Tables(c *Ctx) []*c20TypeTable {
	p := c.P
	pk := p.Pkg(c20IPPkg)
	if pk == nil || pk.Types == nil {
		return nil
	}
	var out []*c20TypeTable
	byType := map[*types.TypeName]*c20TypeTable{}
	scope := pk.Types.Scope()
	names := scope.Names()
	sort.Strings(names)
	for _, nm := range names {
		tn, ok := scope.Lookup(nm).(*types.TypeName)
		if !ok {
			continue
		}
		n, ok := tn.Type().(*types.Named)
		if !ok {
			continue
		}
		if _, ok := n.Underlying().(*types.Struct); !ok {
			continue
		}
		t := &c20TypeTable{T: n}
		byType[tn] = t
		out = append(out, t)
		ms := p.SSA.MethodSets.MethodSet(types.NewPointer(n))
		for i := 0; i < ms.Len(); i++ {
			fn := p.SSA.MethodValue(ms.At(i))
			if fn == nil {
				continue
			}
			if fn.Synthetic != "" {
				if obj, ok := ms.At(i).Obj().(*types.Func); ok {
					fn = p.SSA.FuncValue(obj)
				}
			}
			if fn == nil || fn.Blocks == nil {
				continue
			}
			sig := fn.Signature
			if sig.Params().Len() == 0 && sig.Results().Len() == 1 && c20IsString(sig.Results().At(0).Type()) {
				if pr := c.c20PrinterOf(fn, n); pr != nil {
					t.printers = append(t.printers, pr)
				}
			}
		}
	}
	for _, nm := range names {
		fo, ok := scope.Lookup(nm).(*types.Func)
		if !ok {
			continue
		}
		fn := p.SSA.FuncValue(fo)
		if fn == nil || fn.Blocks == nil {
			continue
		}
		sig := fn.Signature
		if sig.Results().Len() == 0 {
			continue
		}
		n := c20NamedStruct(sig.Results().At(0).Type())
		if n == nil || byType[n.Obj()] == nil {
			continue
		}
		if sig.Params().Len() == 1 && c20IsString(sig.Params().At(0).Type()) {
			byType[n.Obj()].parsers = append(byType[n.Obj()].parsers, fn)
		} else {
			byType[n.Obj()].ctors = append(byType[n.Obj()].ctors, fn)
		}
	}
	return out
}

// ---- parser side

type c20Step struct {
	sep   string
	idx   int
	n     int // SplitN limit (0: unlimited)
	split ssa.Value
}

type c20Binding struct {
	field *types.Var
	steps []c20Step
	trim  bool
	base  int64
	bits  int64
	fn    string
	err   string
	pos   token.Pos
}

// ctorSummary: parameter index → field, for `return &T{F: p, ...}` style constructors.
func c20CtorSummary(fn *ssa.Function, T *types.Named) (map[int]*types.Var, bool) {
	var alloc *ssa.Alloc
	for _, b := range fn.Blocks {
		ret, ok := b.Instrs[len(b.Instrs)-1].(*ssa.Return)
		if !ok {
			continue
		}
		a, ok := ret.Results[0].(*ssa.Alloc)
		if !ok || (alloc != nil && a != alloc) {
			return nil, false
		}
		alloc = a
	}
	if alloc == nil || c20NamedStruct(alloc.Type()) == nil || c20NamedStruct(alloc.Type()).Obj() != T.Obj() {
		return nil, false
	}
	out := map[int]*types.Var{}
	fields, ok := c20AllocFields(alloc)
	if !ok {
		return nil, false
	}
	for f, v := range fields {
		prm, ok := c20Peel(v).(*ssa.Parameter)
		if !ok {
			continue
		}
		for i, q := range fn.Params {
			if q == prm {
				out[i] = f
			}
		}
	}
	return out, true
}

// c20AllocFields: the values stored into the fields of a struct allocation (single store each).
func c20AllocFields(alloc *ssa.Alloc) (map[*types.Var]ssa.Value, bool) {
	n := c20NamedStruct(alloc.Type())
	if n == nil || alloc.Referrers() == nil {
		return nil, false
	}
	st := n.Underlying().(*types.Struct)
	out := map[*types.Var]ssa.Value{}
	for _, r := range *alloc.Referrers() {
		fa, ok := r.(*ssa.FieldAddr)
		if !ok || fa.Referrers() == nil {
			continue
		}
		for _, rr := range *fa.Referrers() {
			if s, ok := rr.(*ssa.Store); ok && s.Addr == fa {
				f := st.Field(fa.Field)
				if _, dup := out[f]; dup {
					return nil, false
				}
				out[f] = s.Val
			}
		}
	}
	return out, true
}

// c20ResultFields: field → value for every non-nil *T result of the parser.
func (c *Ctx) c20ResultFields(fn *ssa.Function, T *types.Named) ([]map[*types.Var]ssa.Value, string) {
	var out []map[*types.Var]ssa.Value
	var visit func(v ssa.Value, d int) string
	visit = func(v ssa.Value, d int) string {
		if d > 4 {
			return "result too deep"
		}
		switch x := v.(type) {
		case *ssa.Const:
			if x.Value == nil {
				return "" // nil result: rejection
			}
		case *ssa.Phi:
			for _, e := range x.Edges {
				if s := visit(e, d+1); s != "" {
					return s
				}
			}
			return ""
		case *ssa.Alloc:
			m, ok := c20AllocFields(x)
			if !ok {
				return "struct literal with fields stored more than once"
			}
			out = append(out, m)
			return ""
		case *ssa.Call:
			g := x.Common().StaticCallee()
			if g != nil && g.Blocks != nil && c.P.InModule(g) {
				sum, ok := c20CtorSummary(g, T)
				if ok {
					m := map[*types.Var]ssa.Value{}
					for i, f := range sum {
						if i < len(x.Common().Args) {
							m[f] = x.Common().Args[i]
						}
					}
					out = append(out, m)
					return ""
				}
			}
			return "result is built by a call that is not a field-by-field constructor"
		}
		return fmt.Sprintf("result of shape %T is not modelled", v)
	}
	for _, b := range fn.Blocks {
		ret, ok := b.Instrs[len(b.Instrs)-1].(*ssa.Return)
		if !ok {
			continue
		}
		if s := visit(ret.Results[0], 0); s != "" {
			return nil, s
		}
	}
	if len(out) == 0 {
		return nil, "the parser never returns a value"
	}
	return out, ""
}

// c20Chunk resolves the text a numeric parse is applied to, back to the parameter.
func c20Chunk(v ssa.Value, prm *ssa.Parameter, d int) (steps []c20Step, trim bool, err string) {
	if d > 8 {
		return nil, false, "access path too deep"
	}
	switch x := v.(type) {
	case *ssa.Parameter:
		if x == prm {
			return nil, false, ""
		}
		return nil, false, "text does not come from the string parameter"
	case *ssa.UnOp:
		if x.Op == token.MUL {
			if ia, ok := x.X.(*ssa.IndexAddr); ok {
				idx, ok := c20ConstInt(ia.Index)
				if !ok {
					return nil, false, "part selected with a non-constant index"
				}
				call, ok := ia.X.(*ssa.Call)
				if !ok {
					return nil, false, "indexed slice is not the result of a split"
				}
				pkg, _, name := c20CalleeName(call.Common())
				if pkg != "strings" || (name != "Split" && name != "SplitN") {
					return nil, false, "indexed slice comes from " + name + ", not strings.Split"
				}
				sep, ok := c20ConstString(call.Common().Args[1])
				if !ok {
					return nil, false, "split separator is not a constant"
				}
				n := int64(0)
				if name == "SplitN" {
					n, ok = c20ConstInt(call.Common().Args[2])
					if !ok {
						return nil, false, "SplitN count is not a constant"
					}
				}
				pre, tr, e := c20Chunk(call.Common().Args[0], prm, d+1)
				if e != "" {
					return nil, false, e
				}
				return append(pre, c20Step{sep: sep, idx: int(idx), n: int(n), split: call}), tr, ""
			}
		}
	case *ssa.Extract:
		if call, ok := x.Tuple.(*ssa.Call); ok {
			pkg, _, name := c20CalleeName(call.Common())
			if pkg == "strings" && name == "Cut" && x.Index < 2 {
				sep, ok := c20ConstString(call.Common().Args[1])
				if !ok {
					return nil, false, "Cut separator is not a constant"
				}
				pre, tr, e := c20Chunk(call.Common().Args[0], prm, d+1)
				if e != "" {
					return nil, false, e
				}
				return append(pre, c20Step{sep: sep, idx: x.Index, n: 2, split: call}), tr, ""
			}
		}
	case *ssa.Call:
		pkg, _, name := c20CalleeName(x.Common())
		if pkg == "strings" && name == "TrimSpace" {
			pre, _, e := c20Chunk(x.Common().Args[0], prm, d+1)
			return pre, true, e
		}
	case *ssa.Phi:
		var first []c20Step
		set := false
		for _, e := range x.Edges {
			st, tr, er := c20Chunk(e, prm, d+1)
			if er != "" {
				return nil, false, er
			}
			if set && !c20SameSteps(first, st) {
				return nil, false, "text comes from different parts on different paths"
			}
			first, trim, set = st, trim || tr, true
		}
		return first, trim, ""
	}
	return nil, false, fmt.Sprintf("text of shape %T is not modelled", v)
}

func c20SameSteps(a, b []c20Step) bool {
	if len(a) != len(b) {
		return false
	}
	for i := range a {
		if a[i].sep != b[i].sep || a[i].idx != b[i].idx || a[i].n != b[i].n {
			return false
		}
	}
	return true
}

// c20Numeric resolves a field value to the numeric parse that produced it.
func c20Numeric(v ssa.Value, prm *ssa.Parameter, d int) (b c20Binding) {
	if d > 6 {
		b.err = "value too deep"
		return
	}
	v = c20Peel(v)
	switch x := v.(type) {
	case *ssa.Phi:
		set := false
		for _, e := range x.Edges {
			if _, isK := c20Peel(e).(*ssa.Const); isK {
				continue // default value on a path that does not parse
			}
			nb := c20Numeric(e, prm, d+1)
			if nb.err != "" {
				return nb
			}
			if set && (!c20SameSteps(b.steps, nb.steps) || b.base != nb.base) {
				b.err = "field comes from different parts on different paths"
				return
			}
			b, set = nb, true
		}
		if !set {
			b.err = "field is a constant on every path"
		}
		return
	case *ssa.Extract:
		call, ok := x.Tuple.(*ssa.Call)
		if !ok || x.Index != 0 {
			b.err = "field is not the value result of a numeric parse"
			return
		}
		pkg, _, name := c20CalleeName(call.Common())
		if pkg != "strconv" {
			b.err = "field comes from " + name + ", not a strconv parse"
			return
		}
		args := call.Common().Args
		b.fn, b.pos = name, call.Pos()
		switch name {
		case "ParseUint", "ParseInt":
			var ok1, ok2 bool
			b.base, ok1 = c20ConstInt(args[1])
			b.bits, ok2 = c20ConstInt(args[2])
			if !ok1 || !ok2 {
				b.err = "base or bit size is not a constant"
				return
			}
		case "Atoi":
			b.base, b.bits = 10, 64
		default:
			b.err = "strconv." + name + " is not modelled"
			return
		}
		b.steps, b.trim, b.err = c20Chunk(args[0], prm, 0)
		return
	}
	b.err = fmt.Sprintf("field value of shape %T is not a numeric parse of the text", v)
	return
}

func c20Token(i int) string { return fmt.Sprintf("\x00%d\x00", i) }

func c20Template(pr *c20Printer) string {
	var sb strings.Builder
	for i := range pr.verbs {
		sb.WriteString(pr.lits[i])
		sb.WriteString(c20Token(i))
	}
	sb.WriteString(pr.lits[len(pr.verbs)])
	return sb.String()
}

func c20ShowTemplate(pr *c20Printer, s string) string {
	for i, v := range pr.verbs {
		s = strings.ReplaceAll(s, c20Token(i), "%"+string(v.verb))
	}
	return s
}

var c20VerbBase = map[byte]int64{'d': 10, 'x': 16, 'X': 16, 'o': 8, 'b': 2}

func c20FieldBits(f *types.Var) int64 {
	b, ok := f.Type().Underlying().(*types.Basic)
	if !ok {
		return 0
	}
	switch b.Kind() {
	case types.Uint8, types.Int8:
		return 8
	case types.Uint16, types.Int16:
		return 16
	case types.Uint32, types.Int32:
		return 32
	case types.Uint64, types.Int64, types.Int, types.Uint:
		return 64
	}
	return 0
}

// lenConstants: the constants len(split result) is compared with.
func c20LenConstants(split ssa.Value) []int64 {
	var out []int64
	if split.Referrers() == nil {
		return nil
	}
	for _, r := range *split.Referrers() {
		call, ok := r.(*ssa.Call)
		if !ok {
			continue
		}
		if _, _, name := c20CalleeName(call.Common()); name != "len" || call.Referrers() == nil {
			continue
		}
		for _, rr := range *call.Referrers() {
			if bo, ok := rr.(*ssa.BinOp); ok && (bo.Op == token.EQL || bo.Op == token.NEQ) {
				other := bo.Y
				if other == ssa.Value(call) {
					other = bo.X
				}
				if k, ok := c20ConstInt(other); ok {
					out = append(out, k)
				}
			}
		}
	}
	return out
}

func c20RunR2(c *Ctx) []*c20TypeTable {
	r, p := c.R, c.P
	tbls := c20Tables(c)
	if tbls == nil {
		r.Undecided(c20RPair, "package "+c20IPPkg, "-", "package does not resolve")
		return nil
	}
	var pairs, unpaired []string
	for _, t := range tbls {
		tname := t.T.Obj().Name()
		var plain []*c20Printer
		for _, pr := range t.printers {
			if pr.plain {
				plain = append(plain, pr)
			}
		}
		if len(t.parsers) == 0 || len(plain) == 0 {
			if len(t.printers) > 0 {
				unpaired = append(unpaired, fmt.Sprintf("%s: %d printer(s), %d parser(s) — no round trip to check", tname, len(t.printers), len(t.parsers)))
			}
			continue
		}
		for _, ps := range t.parsers {
			prm := ps.Params[0]
			pname := p.FuncName(ps)
			results, rerr := c.c20ResultFields(ps, t.T)
			if rerr != "" {
				r.Undecided(c20RPair, pname+" ⇄ "+tname, p.Rel(ps.Pos()), rerr)
				continue
			}
			r.OK(c20RPair, pname+" ⇄ "+tname, p.Rel(ps.Pos()), fmt.Sprintf("%d printer(s) of %s paired with this parser by signature (string → *%s)", len(plain), tname, tname))
			pairs = append(pairs, pname+" ⇄ "+tname)
			for _, pr := range plain {
				prname := p.FuncName(pr.fn)
				tmpl := c20Template(pr)
				consumed := map[string]bool{}
				trimmed := false
				arity := map[ssa.Value]struct {
					sep   string
					parts int
				}{}
				for vi, vb := range pr.verbs {
					construct := fmt.Sprintf("%s ⇄ %s %q: field %s", pname, prname, pr.format, vb.field.Name())
					c.guard(c20RField, construct, p.Rel(ps.Pos()), func() {
						var fails, unds []string
						bound := 0
						for _, res := range results {
							val, has := res[vb.field]
							if !has {
								fails = append(fails, "the printer emits this field but the parser never sets it")
								continue
							}
							b := c20Numeric(val, prm, 0)
							if b.err != "" {
								unds = append(unds, b.err)
								continue
							}
							bound++
							chunk := tmpl
							okPath := true
							for _, st := range b.steps {
								consumed[st.sep] = true
								var parts []string
								if st.n > 0 {
									parts = strings.SplitN(chunk, st.sep, st.n)
								} else {
									parts = strings.Split(chunk, st.sep)
								}
								if _, seen := arity[st.split]; !seen {
									arity[st.split] = struct {
										sep   string
										parts int
									}{st.sep, len(parts)}
								}
								if st.idx >= len(parts) {
									fails = append(fails, fmt.Sprintf("the parser takes part [%d] after splitting %q on %q, but the printed text has only %d such part(s)",
										st.idx, c20ShowTemplate(pr, chunk), st.sep, len(parts)))
									okPath = false
									break
								}
								chunk = parts[st.idx]
							}
							if !okPath {
								continue
							}
							if b.trim {
								trimmed = true
								chunk = strings.TrimSpace(chunk)
							}
							if chunk != c20Token(vi) {
								what := "a different field"
								if strings.Count(chunk, "\x00") > 2 || strings.Trim(chunk, "\x000123456789") != "" {
									what = "several fields and the literal text between them, which the parser never splits on"
								}
								fails = append(fails, fmt.Sprintf("the parser reads field %s from the part %q of the printed text %q — %s",
									vb.field.Name(), c20ShowTemplate(pr, chunk), pr.format, what))
								continue
							}
							if want, ok := c20VerbBase[vb.verb]; !ok {
								unds = append(unds, fmt.Sprintf("verb %%%c is not modelled", vb.verb))
							} else if b.base != want {
								fails = append(fails, fmt.Sprintf("printed with %%%c (base %d) but parsed by strconv.%s in base %d", vb.verb, want, b.fn, b.base))
							}
							if fb := c20FieldBits(vb.field); b.bits != 0 && fb != 0 && b.bits < fb {
								fails = append(fails, fmt.Sprintf("parsed with bit size %d but the field has %d bits: printed values ≥ 2^%d do not parse back", b.bits, fb, b.bits))
							}
						}
						switch {
						case len(fails) > 0:
							r.Fail(c20RField, construct, p.Rel(ps.Pos()), strings.Join(c20Dedup(fails), " | "))
						case len(unds) > 0:
							r.Undecided(c20RField, construct, p.Rel(ps.Pos()), strings.Join(c20Dedup(unds), " | "))
						default:
							r.OK(c20RField, construct, p.Rel(ps.Pos()), fmt.Sprintf("the parser's access path selects exactly the %%%c that prints %s; base and bit size agree", vb.verb, vb.field.Name()))
						}
					})
				}
				// separators
				seen := map[string]bool{}
				for li, lit := range pr.lits {
					if lit == "" || seen[lit] {
						continue
					}
					seen[lit] = true
					where := "between fields"
					if li == 0 {
						where = "before the first field"
					} else if li == len(pr.verbs) {
						where = "after the last field"
					}
					construct := fmt.Sprintf("%s ⇄ %s %q: separator %q", pname, prname, pr.format, lit)
					key := lit
					if trimmed {
						key = strings.TrimSpace(lit)
					}
					if consumed[key] {
						r.OK(c20RSep, construct, p.Rel(pr.fn.Pos()), "the parser splits on this literal ("+where+")")
					} else {
						var cs []string
						for s := range consumed {
							cs = append(cs, fmt.Sprintf("%q", s))
						}
						sort.Strings(cs)
						r.Fail(c20RSep, construct, p.Rel(pr.fn.Pos()), fmt.Sprintf("the printer emits %q %s but the parser never splits on it (it consumes only %s): printed text cannot parse back",
							lit, where, strings.Join(cs, ", ")))
					}
				}
				// arity
				var splits []ssa.Value
				for s := range arity {
					splits = append(splits, s)
				}
				sort.Slice(splits, func(i, j int) bool { return splits[i].Pos() < splits[j].Pos() })
				for _, s := range splits {
					a := arity[s]
					construct := fmt.Sprintf("%s ⇄ %s %q: number of parts on %q", pname, prname, pr.format, a.sep)
					ks := c20LenConstants(s)
					if len(ks) == 0 {
						r.OK(c20RArity, construct, p.Rel(s.Pos()), "the parser does not compare the number of parts with a constant (nothing to contradict)")
						continue
					}
					ok := false
					for _, k := range ks {
						if int(k) == a.parts {
							ok = true
						}
					}
					if ok {
						r.OK(c20RArity, construct, p.Rel(s.Pos()), fmt.Sprintf("the printed text has %d part(s) and the parser tests for %d", a.parts, a.parts))
					} else {
						r.Fail(c20RArity, construct, p.Rel(s.Pos()), fmt.Sprintf("the printed text splits into %d part(s) on %q but the parser only accepts %v", a.parts, a.sep, ks))
					}
				}
			}
		}
	}
	// confirmed by reading (2026-09): IPv4 (String, CIDRAddress, CIDRMask × 5 fields), IPv6 (String × 8), TCPPortRange (String × 2)
	r.Floor(c20RPair, 3)
	r.Floor(c20RField, 25)
	r.Floor(c20RSep, 8)
	r.Floor(c20RArity, 8)
	r.Extra["R2_pairs"] = pairs
	r.Extra["R2_printers_without_parser"] = unpaired
	return tbls
}

func c20Dedup(in []string) []string {
	seen := map[string]bool{}
	var out []string
	for _, s := range in {
		if !seen[s] {
			seen[s] = true
			out = append(out, s)
		}
	}
	return out
}
