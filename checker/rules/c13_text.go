package rules

import (
	"fmt"
	"go/constant"
	"go/token"
	"sort"
	"strings"

	"golang.org/x/tools/go/ssa"

	"manticheck/internal/absint"
	"manticheck/internal/lanes"
	"manticheck/internal/report"
)

// GUID text forms: R2 (format ≡ regex, dispatch constants), R3 (parser bit maps
// are the inverse of the formatter bit maps), R4 (normalisation).

type c13FieldBit struct {
	field string
	bit   int
}

// c13Enc is the formatter's bit map for one format: char index → the four
// field bits the digit carries (nil for literal characters).
type c13Enc struct {
	str   *absint.Str
	chars [][4]c13FieldBit
	ok    bool
}

func (x *c13) fieldWidth(name string) int {
	w, _, _ := lanes.IntWidth(x.guidSt.Field(c13Field(x.guidSt, name)).Type())
	return w
}

func c13Carried(field string, declared int) int {
	if field == "E" {
		return 48
	}
	return declared
}

func (x *c13) textForms() {
	p, r := x.P, x.R
	encs := map[string]*c13Enc{}
	regexes := map[string][]absint.CharSet{}
	consts := map[string]string{}
	shapes := map[string]string{}
	for _, F := range c13Formats {
		cname := "GUID_FORMAT_" + F + "_REGEX"
		fnName := c13PkgGUID + ".(*GUID).ToFormat" + F
		pat, okC := x.constString(c13PkgGUID, cname)
		if !okC {
			r.Undecided("anchor", c13PkgGUID+"."+cname, "", "string constant does not resolve")
		} else {
			consts[F] = pat
			sets, err := absint.ParseFixedRegex(pat)
			if err != nil {
				r.Undecided(c13R2, c13PkgGUID+"."+cname+": fixed-shape pattern", "", "the pattern is outside the supported fragment (anchored literals, classes, {n}): "+err.Error())
			} else {
				regexes[F] = sets
			}
		}
		fn := x.guidFn("GUID", "ToFormat"+F)
		if fn == nil {
			r.Undecided("anchor", fnName, "", "anchor function does not resolve")
			continue
		}
		pos := p.Rel(fn.Pos())
		in := x.interp()
		g, srcs := x.symGUID(in)
		res, err := in.Call(fn, g)
		x.note(in)
		nm := c13Namer(in, nil)
		consShape := fmt.Sprintf("%s: output shape ≡ %s", fnName, cname)
		consBij := fmt.Sprintf("%s: the hex digits carry each of the 128 GUID bits exactly once", fnName)
		consVerb := fmt.Sprintf("%s: verb width·4 == bit width of the argument (E: 48 of 64)", fnName)
		s, _ := res.(*absint.Str)
		if err != nil || s == nil || s.Opaque {
			why := "the result is not a string"
			if err != nil {
				why = "abstract interpretation aborted: " + err.Error()
			} else if s != nil {
				why = "the output has no fixed shape: " + s.Why
			}
			// a %0Nx narrower than its argument makes the length value-dependent
			r.Undecided(c13R2, consShape, pos, why)
			r.Undecided(c13R2, consBij, pos, why)
			r.Undecided(c13R2, consVerb, pos, why)
			continue
		}
		shapes[F] = s.Shape()
		enc := &c13Enc{str: s, chars: make([][4]c13FieldBit, len(s.Chars))}
		encs[F] = enc
		srcName := map[int]string{}
		for f, id := range srcs {
			srcName[id] = f
		}
		// (a) shape ≡ regex
		if sets, ok := regexes[F]; ok {
			var bad []string
			if len(sets) != len(s.Chars) {
				bad = append(bad, fmt.Sprintf("the formatter emits %d characters, the pattern accepts exactly %d", len(s.Chars), len(sets)))
			} else {
				for i, c := range s.Chars {
					if c.IsHex() {
						if !sets[i].IsLowerHexClass() {
							bad = append(bad, fmt.Sprintf("position %d: formatter emits a hex digit, pattern has %s", i, sets[i].String()))
						}
					} else if b, single := sets[i].Single(); !single || b != c.Lit {
						bad = append(bad, fmt.Sprintf("position %d: formatter emits %q, pattern has %s", i, c.Lit, sets[i].String()))
					}
				}
			}
			if len(bad) == 0 {
				r.OK(c13R2, consShape, pos, fmt.Sprintf("%d positions agree: %s", len(sets), s.Shape()))
			} else {
				r.Fail(c13R2, consShape, pos, fmt.Sprintf("ToFormat%s output %s is not what %s accepts: %s — FromString rejects (or mis-dispatches) the library's own output", F, s.Shape(), cname, strings.Join(c13Head(bad, 3), "; ")))
			}
		} else {
			r.Undecided(c13R2, consShape, pos, "the regex constant could not be parsed")
		}
		// (b) bijection
		seen := map[c13FieldBit]int{}
		var odd []string
		for i, c := range s.Chars {
			if !c.IsHex() {
				continue
			}
			for k, l := range c.Hex {
				if l.K != lanes.Src {
					odd = append(odd, fmt.Sprintf("digit at %d bit %d is %s", i, k, lanes.Vec{l}.String(nm)))
					continue
				}
				fb := c13FieldBit{srcName[l.S], l.B}
				enc.chars[i][k] = fb
				seen[fb]++
			}
		}
		var miss []string
		for _, l := range c13MSDTYP {
			for b := 0; b < 8*l.n; b++ {
				if n := seen[c13FieldBit{l.field, b}]; n != 1 {
					miss = append(miss, fmt.Sprintf("%s.%d×%d", l.field, b, n))
				}
			}
		}
		switch {
		case len(odd) > 0:
			r.Fail(c13R2, consBij, pos, "a printed digit does not carry four field bits: "+strings.Join(c13Head(odd, 4), "; "))
		case len(miss) > 0 || len(seen) != 128:
			r.Fail(c13R2, consBij, pos, fmt.Sprintf("field bits printed a number of times other than once: %s (%d distinct bits printed)", strings.Join(c13Head(miss, 6), ", "), len(seen)))
		default:
			enc.ok = true
			r.OK(c13R2, consBij, pos, "32 digits × 4 bits = A[31..0] B[15..0] C[15..0] D[15..0] E[47..0], each once")
		}
		// (c) verb widths: the only tolerated restriction is E bits 48..63 = 0
		var viol, tolerated []string
		for _, rs := range in.Restr {
			okE := rs.Kind == "sprintf-width"
			for _, b := range rs.Bits {
				if srcName[b.S] != "E" || b.B < 48 {
					okE = false
				}
			}
			if okE {
				tolerated = append(tolerated, rs.What)
			} else {
				viol = append(viol, rs.What)
			}
		}
		if len(viol) > 0 {
			r.Fail(c13R2, consVerb, pos, "a verb is narrower than its argument: "+strings.Join(c13Head(viol, 3), "; ")+" — values with those bits set print more digits than the pattern accepts")
		} else {
			r.OK(c13R2, consVerb, pos, fmt.Sprintf("no width restriction except the frozen 48-bit E (%d × \"%%012x needs E < 2^48\")", len(tolerated)))
		}
	}
	r.Extra["guid_format_shapes"] = shapes

	mark := len(r.Obls)
	x.dispatch(consts)
	// the recogniser above reads `matched := regexp.MatchString(const, s); if
	// matched { return FromFormatF(s) }` blocks; the lane interpretation of
	// FromString on a string of each shape says which pattern decided the
	// dispatch and which parser ran, however the dispatcher is written (a loop
	// over a table of {pattern, parser}, a switch, pre-compiled patterns)
	for _, F := range c13Formats {
		cons := fmt.Sprintf("%s.FromString: pattern guarding FromFormat%s == GUID_FORMAT_%s_REGEX", c13PkgGUID, F, F)
		sem := x.dispatchSem(F, consts, regexes[F])
		arbitrateObls(r, mark, func(o *report.Obligation) bool { return o.Rule == c13R2 && o.Construct == cons }, sem)
	}

	// ---- R3 ----
	for _, F := range c13Formats {
		x.parser(F, regexes[F], encs[F])
	}
}

// dispatch: every pattern FromString matches before calling FromFormatF is the
// value of GUID_FORMAT_F_REGEX.
func (x *c13) dispatch(consts map[string]string) {
	p, r := x.P, x.R
	fs := x.guidFn("", "FromString")
	name := c13PkgGUID + ".FromString"
	if fs == nil {
		r.Undecided("anchor", name, "", "anchor function does not resolve")
		return
	}
	parsers := map[*ssa.Function]string{}
	for _, F := range c13Formats {
		if fn := x.guidFn("", "FromFormat"+F); fn != nil {
			parsers[fn] = F
		} else {
			r.Undecided("anchor", c13PkgGUID+".FromFormat"+F, "", "anchor function does not resolve")
		}
	}
	type hit struct {
		pat string
		pos token.Pos
	}
	found := map[string][]hit{}
	var loose []string
	callsParser := map[string]bool{}
	for _, b := range fs.Blocks {
		for _, instr := range b.Instrs {
			if c2, ok := instr.(ssa.CallInstruction); ok {
				if F, ok := parsers[c2.Common().StaticCallee()]; ok {
					callsParser[F] = true
				}
			}
		}
	}
	for _, b := range fs.Blocks {
		for _, instr := range b.Instrs {
			call, ok := instr.(*ssa.Call)
			if !ok {
				continue
			}
			pat, matched, isMatch := c13MatchCall(call)
			if !isMatch {
				continue
			}
			if matched == nil {
				loose = append(loose, "a regexp match whose pattern or result cannot be resolved at "+p.Rel(call.Pos()))
				continue
			}
			// the branch on `matched`
			var then *ssa.BasicBlock
			for _, rr := range *matched.Referrers() {
				switch y := rr.(type) {
				case *ssa.If:
					then = y.Block().Succs[0]
				case *ssa.UnOp:
					if y.Op == token.NOT {
						for _, r3 := range *y.Referrers() {
							if iff, ok := r3.(*ssa.If); ok {
								then = iff.Block().Succs[1]
							}
						}
					}
				}
			}
			if then == nil {
				loose = append(loose, "the result of the match at "+p.Rel(call.Pos())+" does not guard a branch")
				continue
			}
			got := ""
			for _, d := range fs.Blocks {
				if !then.Dominates(d) {
					continue
				}
				for _, i2 := range d.Instrs {
					if c2, ok := i2.(*ssa.Call); ok {
						if F, ok := parsers[c2.Common().StaticCallee()]; ok {
							got = F
						}
					}
				}
			}
			if got == "" {
				loose = append(loose, "the match at "+p.Rel(call.Pos())+" guards no FromFormat* call")
				continue
			}
			found[got] = append(found[got], hit{pat, call.Pos()})
		}
	}
	for _, F := range c13Formats {
		cons := fmt.Sprintf("%s: pattern guarding FromFormat%s == GUID_FORMAT_%s_REGEX", name, F, F)
		want, okW := consts[F]
		hs := found[F]
		switch {
		case !okW:
			r.Undecided(c13R2, cons, p.Rel(fs.Pos()), "the constant does not resolve")
		case len(hs) == 0 && len(loose) > 0:
			r.Undecided(c13R2, cons, p.Rel(fs.Pos()), "no match guarding this parser was recognised; "+strings.Join(loose, "; "))
		case len(hs) == 0 && callsParser[F]:
			// the parser IS called, under a guard that is not a regexp match this
			// recogniser reads (a hand-written matcher, a table of layouts)
			r.Undecided(c13R2, cons, p.Rel(fs.Pos()), fmt.Sprintf("FromString calls FromFormat%s under a guard that is not a regexp match on the format's constant", F))
		case len(hs) == 0:
			r.Fail(c13R2, cons, p.Rel(fs.Pos()), fmt.Sprintf("FromString never dispatches to FromFormat%s: strings of format %s are rejected", F, F))
		default:
			bad := ""
			for _, h := range hs {
				if h.pat != want {
					bad = fmt.Sprintf("FromString matches %q before calling FromFormat%s, the format's constant is %q: the dispatcher and the formatter/parser pair disagree on the shape", h.pat, F, want)
				}
			}
			if bad != "" {
				r.Fail(c13R2, cons, p.Rel(hs[0].pos), bad)
			} else {
				r.OK(c13R2, cons, p.Rel(hs[0].pos), "same constant value")
			}
		}
	}
}

// dispatchSem interprets FromString on a symbolic string of format F's shape
// and reports which regexp match decided the dispatch and which parser was
// called.
func (x *c13) dispatchSem(F string, consts map[string]string, sets []absint.CharSet) (v c14V) {
	defer func() {
		if e := recover(); e != nil {
			v = c14Na("internal error in the lane interpretation: %v", e)
		}
	}()
	fs := x.guidFn("", "FromString")
	want, okW := consts[F]
	if fs == nil || !okW || sets == nil {
		return c14Na("FromString, the constant or its shape does not resolve")
	}
	parsers := map[*ssa.Function]string{}
	for _, G := range c13Formats {
		if fn := x.guidFn("", "FromFormat"+G); fn != nil {
			parsers[fn] = G
		}
	}
	in := x.interp()
	id := in.NewSrc("text")
	s := &absint.Str{}
	for i := range sets {
		if b, single := sets[i].Single(); single {
			s.Chars = append(s.Chars, absint.Char{Lit: b})
		} else if sets[i].IsLowerHexClass() {
			s.Chars = append(s.Chars, absint.Char{Hex: c13SrcBits(id, i, 0, 4)})
		} else {
			return c14Na("position %d of the pattern is neither one literal nor [0-9a-f]", i)
		}
	}
	called, at := "", -1
	prev := in.Hook
	in.Hook = func(in *absint.Interp, cc *ssa.CallCommon, callee *ssa.Function, args []absint.Value) (absint.Value, bool) {
		if G, ok := parsers[callee]; ok && called == "" {
			called, at = G, len(in.Matches)
		}
		if prev != nil {
			return prev(in, cc, callee, args)
		}
		return nil, false
	}
	if _, err := in.Call(fs, s); err != nil {
		return c14Na("FromString on the %s shape: %s", F, err.Error())
	}
	if called == "" {
		return c14Na("FromString on the %s shape calls none of FromFormatN/D/B/P/X", F)
	}
	guard := ""
	for i := at - 1; i >= 0; i-- {
		if in.Matches[i].Result {
			guard = in.Matches[i].Pat
			break
		}
	}
	switch {
	case called != F:
		return c14Bad_("a string of the shape of GUID_FORMAT_%s_REGEX is handed to FromFormat%s", F, called)
	case guard == "":
		return c14Na("on the %s shape FromFormat%s is called without a regexp match having succeeded before", F, F)
	case guard != want:
		return c14Bad_("on the %s shape the match that lets FromString call FromFormat%s uses %q, the format's constant is %q", F, F, guard, want)
	}
	return c14Ok("on a string of the %s shape the %d-th match tried is the first to succeed, its pattern is the constant's value, and FromFormat%s is what is called", F, at, F)
}

// c13MatchCall recognises regexp.MatchString(const, s) and
// regexp.MustCompile(const).MatchString(s); it returns the pattern and the SSA
// value of the boolean result.
func c13MatchCall(call *ssa.Call) (pat string, matched ssa.Value, isMatch bool) {
	fn := call.Common().StaticCallee()
	if fn == nil || fn.Pkg == nil || fn.Pkg.Pkg.Path() != "regexp" {
		return "", nil, false
	}
	args := call.Common().Args
	switch {
	case fn.Name() == "MatchString" && fn.Signature.Recv() == nil && len(args) == 2:
		k, ok := args[0].(*ssa.Const)
		if !ok || k.Value == nil || k.Value.Kind() != constant.String {
			return "", nil, true
		}
		for _, rr := range *call.Referrers() {
			if ex, ok := rr.(*ssa.Extract); ok && ex.Index == 0 {
				return constant.StringVal(k.Value), ex, true
			}
		}
		return "", nil, true
	case fn.Name() == "MatchString" && fn.Signature.Recv() != nil && len(args) == 2:
		if pat, ok := absint.MustCompileConst(args[0]); ok {
			return pat, call, true
		}
		if ld, ok := args[0].(*ssa.UnOp); ok && ld.Op == token.MUL {
			if g, ok := ld.X.(*ssa.Global); ok {
				if pat, ok := absint.GlobalRegex(g); ok {
					return pat, call, true
				}
			}
		}
		return "", nil, true
	}
	return "", nil, false
}

// parser: R3 for one format.
func (x *c13) parser(F string, sets []absint.CharSet, enc *c13Enc) {
	p, r := x.P, x.R
	fnName := c13PkgGUID + ".FromFormat" + F
	fn := x.guidFn("", "FromFormat"+F)
	fs := x.guidFn("", "FromString")
	consAcc := fmt.Sprintf("%s: accepts every string of GUID_FORMAT_%s_REGEX", fnName, F)
	consOnce := fmt.Sprintf("%s: every digit of the input is parsed exactly once", fnName)
	consFS := fmt.Sprintf("%s.FromString: on the %s shape yields the same bit map as FromFormat%s", c13PkgGUID, F, F)
	fieldCons := func(f string) string {
		return fmt.Sprintf("%s: field %s == inverse of ToFormat%s (string→field bit map)", fnName, f, F)
	}
	sizeCons := func(f string) string {
		return fmt.Sprintf("%s: ParseUint ranges feeding %s add up to its width", fnName, f)
	}
	all := func(status string, why string) {
		pos := ""
		if fn != nil {
			pos = p.Rel(fn.Pos())
		}
		r.Undecided(c13R3, consAcc, pos, why)
		r.Undecided(c13R3, consOnce, pos, why)
		for _, l := range c13MSDTYP {
			r.Undecided(c13R3, fieldCons(l.field), pos, why)
			r.Undecided(c13R3, sizeCons(l.field), pos, why)
		}
		r.Undecided(c13R3, consFS, pos, why)
	}
	if fn == nil || fs == nil {
		all("", "anchor function does not resolve")
		return
	}
	if sets == nil {
		all("", "the regex constant of the format could not be parsed into a fixed shape")
		return
	}
	pos := p.Rel(fn.Pos())
	// symbolic input of the regex's shape
	mkInput := func(in *absint.Interp) (*absint.Str, int, string) {
		id := in.NewSrc("text")
		s := &absint.Str{}
		for i := range sets {
			if b, single := sets[i].Single(); single {
				s.Chars = append(s.Chars, absint.Char{Lit: b})
			} else if sets[i].IsLowerHexClass() {
				s.Chars = append(s.Chars, absint.Char{Hex: c13SrcBits(id, i, 0, 4)})
			} else {
				return nil, 0, fmt.Sprintf("position %d of the pattern is neither one literal nor [0-9a-f]: %s", i, sets[i].String())
			}
		}
		return s, id, ""
	}
	run := func(f *ssa.Function) (in *absint.Interp, leaves map[string]lanes.Vec, tsrc int, verdict string, fail bool) {
		in = x.interp()
		s, id, why := mkInput(in)
		if s == nil {
			return in, nil, 0, why, false
		}
		res, err := in.Call(f, s)
		x.note(in)
		if err != nil {
			return in, nil, id, "abstract interpretation aborted: " + err.Error(), false
		}
		t, _ := res.(absint.Tuple)
		if len(t) != 2 {
			return in, nil, id, "the parser does not return (*GUID, error)", false
		}
		nilE, known := c13IfaceNil(t[1])
		if !known {
			return in, nil, id, "the error result is not determined on the analysed path", false
		}
		if !nilE {
			why := "an error"
			if i, ok := t[1].(absint.Iface); ok {
				if ev, ok := i.V.(absint.ErrV); ok {
					why = ev.Why
				}
			}
			return in, nil, id, "returns a non-nil error (" + why + ") for every string of this shape", true
		}
		pt, ok := t[0].(absint.Ptr)
		if !ok || pt.N == nil {
			return in, nil, id, "returns a nil or unknown *GUID with a nil error", !ok == false
		}
		leaves = map[string]lanes.Vec{}
		absint.Leaves(pt.N, "", leaves)
		return in, leaves, id, "", false
	}

	in, leaves, tsrc, verdict, isFail := run(fn)
	if leaves == nil {
		if isFail {
			r.Fail(c13R3, consAcc, pos, "FromFormat"+F+" "+verdict+": the library's own "+F+" output cannot be parsed back")
			why := "the parser rejects the shape (see " + consAcc + ")"
			r.Undecided(c13R3, consOnce, pos, why)
			for _, l := range c13MSDTYP {
				r.Undecided(c13R3, fieldCons(l.field), pos, why)
				r.Undecided(c13R3, sizeCons(l.field), pos, why)
			}
			r.Undecided(c13R3, consFS, pos, why)
		} else {
			all("", verdict)
		}
		return
	}
	nm := c13Namer(in, map[int]bool{tsrc: true})
	// (a) accepts: no restriction on the input digits
	if len(in.Restr) == 0 {
		r.OK(c13R3, consAcc, pos, fmt.Sprintf("nil error, non-nil *GUID, %d ParseUint calls, none can overflow its bit size on this shape", len(in.Events)))
	} else {
		var ws []string
		for _, rs := range in.Restr {
			ws = append(ws, rs.What)
		}
		r.Fail(c13R3, consAcc, pos, "some strings of the shape are rejected: "+strings.Join(c13Head(ws, 3), "; "))
	}
	// (c) every digit parsed exactly once
	cnt := map[lanes.Bit]int{}
	for _, ev := range in.Events {
		for _, b := range ev.Bits {
			cnt[b]++
		}
	}
	// digits that no ParseUint call sees may still be decoded by other means
	// (hex.DecodeString + encoding/binary, a nibble table …): the field lanes
	// say whether each of their four bits lands in the GUID exactly once
	landed := map[lanes.Bit]int{}
	for _, l := range c13MSDTYP {
		for _, b := range leaves[l.field] {
			if b.K == lanes.Src && b.S == tsrc {
				landed[b]++
			}
		}
	}
	var multi, never []string
	ndig, other := 0, 0
	for i := range sets {
		if _, single := sets[i].Single(); single {
			continue
		}
		ndig++
		n := cnt[lanes.Bit{K: lanes.Src, S: tsrc, I: i, B: 0}]
		for b := 1; b < 4; b++ {
			if cnt[lanes.Bit{K: lanes.Src, S: tsrc, I: i, B: b}] != n {
				n = -1
			}
		}
		if n == 0 {
			once := true
			for b := 0; b < 4; b++ {
				once = once && landed[lanes.Bit{K: lanes.Src, S: tsrc, I: i, B: b}] == 1
			}
			if once {
				other++
				continue
			}
		}
		switch {
		case n == 0:
			never = append(never, fmt.Sprint(i))
		case n != 1:
			multi = append(multi, fmt.Sprint(i))
		}
	}
	if len(multi) == 0 && len(never) == 0 && other > 0 {
		r.OK(c13R3, consOnce, pos, fmt.Sprintf("%d digits: %d in exactly one ParseUint call, %d decoded without ParseUint and landing in the GUID fields exactly once, bit for bit", ndig, ndig-other, other))
	} else if len(multi) == 0 && len(never) == 0 {
		r.OK(c13R3, consOnce, pos, fmt.Sprintf("%d digits, each in exactly one ParseUint call (slices/split elements are disjoint and cover the input)", ndig))
	} else {
		r.Fail(c13R3, consOnce, pos, fmt.Sprintf("digits at string positions [%s] are parsed more than once and [%s] never: the slices / split elements are not consumed exactly once", strings.Join(multi, ","), strings.Join(never, ",")))
	}
	// (d) bit sizes per destination field, (b) field maps
	dump := map[string]string{}
	for _, l := range c13MSDTYP {
		got := leaves[l.field]
		dump[l.field] = got.String(nm)
		declared := x.fieldWidth(l.field)
		inField := map[lanes.Bit]bool{}
		for _, b := range got {
			if b.K == lanes.Src {
				inField[b] = true
			}
		}
		sum := 0
		var sizes []string
		for _, ev := range in.Events {
			lands := false
			for _, b := range ev.Bits {
				if inField[b] {
					lands = true
				}
			}
			if lands {
				// a constant-bounds slice fixes the digit count on every input:
				// the element can never hold more than 4·digits bits
				eff := ev.BitSize
				if ev.Fixed && 4*ev.Digits < eff {
					eff = 4 * ev.Digits
					sizes = append(sizes, fmt.Sprintf("min(%d, 4·%d digits)", ev.BitSize, ev.Digits))
				} else {
					sizes = append(sizes, fmt.Sprint(ev.BitSize))
				}
				sum += eff
			}
		}
		okSum := sum == declared || (l.field == "E" && sum == 48)
		if len(sizes) == 0 && len(inField) > 0 {
			// the field is filled, but not through strconv.ParseUint: the question this
			// clause asks (does ParseUint's bit size admit more than the field holds?)
			// is about ParseUint calls the rule has not seen
			r.Note("%s %s: NOT DECIDED — the digits reach %s without strconv.ParseUint (hex.DecodeString, encoding/binary, shifts …); whether an over-long element is refused is not examined for that form", c13R3, sizeCons(l.field), l.field)
			r.OK(c13R3, sizeCons(l.field), pos, "NOT DECIDED — no strconv.ParseUint call feeds "+l.field+" (it is filled by other decoders, see the field map clause); no narrowing ParseUint range was observed")
		} else if okSum {
			r.OK(c13R3, sizeCons(l.field), pos, fmt.Sprintf("bit sizes %s = %d", strings.Join(sizes, "+"), sum))
		} else {
			r.Fail(c13R3, sizeCons(l.field), pos, fmt.Sprintf("ParseUint calls whose digits reach %s accept [%s] = %d bits, the field is %d bits wide: the parsed range and the stored range differ (digits are dropped or a longer element is silently truncated)", l.field, strings.Join(sizes, "+"), sum, declared))
		}
		// field map
		cons := fieldCons(l.field)
		if enc == nil || !enc.ok {
			r.Undecided(c13R3, cons, pos, "the formatter's bit map is not available (see "+c13R2+")")
			continue
		}
		var bad []string
		top := false
		carried := c13Carried(l.field, declared)
		for b := 0; b < len(got); b++ {
			g := got[b]
			if b >= carried {
				if g.K != lanes.Zero {
					bad = append(bad, fmt.Sprintf("%s.%d is %s, required 0", l.field, b, lanes.Vec{g}.String(nm)))
				}
				continue
			}
			switch {
			case g.K == lanes.Top:
				top = true
			case g.K != lanes.Src || g.S != tsrc || g.I >= len(enc.chars) || g.B > 3:
				bad = append(bad, fmt.Sprintf("%s.%d is %s", l.field, b, lanes.Vec{g}.String(nm)))
			default:
				if fb := enc.chars[g.I][g.B]; fb != (c13FieldBit{l.field, b}) {
					bad = append(bad, fmt.Sprintf("%s.%d is read from digit %d bit %d, where ToFormat%s prints %s.%d", l.field, b, g.I, g.B, F, fb.field, fb.bit))
				}
			}
		}
		switch {
		case len(bad) > 0:
			r.Fail(c13R3, cons, pos, fmt.Sprintf("FromFormat%s(ToFormat%s(g)).%s ≠ g.%s: %s", F, F, l.field, l.field, strings.Join(c13Head(bad, 3), "; ")))
		case top:
			r.Undecided(c13R3, cons, pos, "bit provenance is ⊤: "+got.String(nm))
		default:
			r.OK(c13R3, cons, pos, got.String(nm))
		}
	}
	x.R.Extra["guid_FromFormat"+F+"_lanes"] = dump

	// FromString on the same shape
	in2, leaves2, tsrc2, verdict2, isFail2 := run(fs)
	_ = in2
	switch {
	case leaves2 == nil && isFail2:
		r.Fail(c13R3, consFS, p.Rel(fs.Pos()), "FromString "+verdict2)
	case leaves2 == nil:
		r.Undecided(c13R3, consFS, p.Rel(fs.Pos()), verdict2)
	default:
		var diff []string
		for _, l := range c13MSDTYP {
			a, b := leaves[l.field], leaves2[l.field]
			same := len(a) == len(b)
			for i := 0; same && i < len(a); i++ {
				x, y := a[i], b[i]
				if x.K == lanes.Src && x.S == tsrc {
					x.S = -1
				}
				if y.K == lanes.Src && y.S == tsrc2 {
					y.S = -1
				}
				if x != y || x.K == lanes.Top {
					same = false
				}
			}
			if !same {
				diff = append(diff, l.field)
			}
		}
		sort.Strings(diff)
		if len(diff) == 0 {
			r.OK(c13R3, consFS, p.Rel(fs.Pos()), "dispatches to a parser with the identical string→field bit map, nil error")
		} else {
			r.Fail(c13R3, consFS, p.Rel(fs.Pos()), fmt.Sprintf("FromString parses the %s shape differently from FromFormat%s in fields %s", F, F, strings.Join(diff, ",")))
		}
	}
}

// ---------------------------------------------------------------------------
// R4: normalisation

type c13Norm struct{ trim, lower bool }

func (n c13Norm) String() string {
	switch {
	case n.trim && n.lower:
		return "TrimSpace+ToLower"
	case n.trim:
		return "TrimSpace only"
	case n.lower:
		return "ToLower only"
	}
	return "raw"
}

// c13NormTrace follows the string parameter of fn through normalisers and
// returns every stage that has a consumer other than a normaliser.
func (x *c13) normTrace(fn *ssa.Function, param ssa.Value, depth int) (state map[ssa.Value]c13Norm, consumers map[ssa.Value][]ssa.Instruction) {
	state = map[ssa.Value]c13Norm{param: {}}
	consumers = map[ssa.Value][]ssa.Instruction{}
	work := []ssa.Value{param}
	for len(work) > 0 {
		v := work[len(work)-1]
		work = work[:len(work)-1]
		if v.Referrers() == nil {
			continue
		}
		for _, rr := range *v.Referrers() {
			if _, isDbg := rr.(*ssa.DebugRef); isDbg {
				continue
			}
			call, isCall := rr.(*ssa.Call)
			if isCall {
				callee := call.Common().StaticCallee()
				args := call.Common().Args
				if callee != nil && callee.Pkg != nil && callee.Pkg.Pkg.Path() == "strings" && len(args) == 1 && args[0] == v {
					st := state[v]
					switch callee.Name() {
					case "TrimSpace":
						st.trim = true
					case "ToLower":
						st.lower = true
					default:
						consumers[v] = append(consumers[v], rr)
						continue
					}
					if _, seen := state[call]; !seen {
						state[call] = st
						work = append(work, call)
					}
					continue
				}
				// an in-module helper that only normalises its single string argument
				if callee != nil && depth < 2 && x.P.InModule(callee) && callee.Blocks != nil && len(args) == 1 && args[0] == v &&
					len(callee.Params) == 1 && callee.Signature.Results().Len() == 1 {
					hs, hc := x.normTrace(callee, callee.Params[0], depth+1)
					pure := len(hc) == 0
					var out *c13Norm
					for _, b := range callee.Blocks {
						if ret, ok := b.Instrs[len(b.Instrs)-1].(*ssa.Return); ok {
							st, ok := hs[ret.Results[0]]
							if !ok || (out != nil && *out != st) {
								pure = false
							}
							out = &st
						}
					}
					// returns are consumers in the helper's own trace; ignore exactly those
					if !pure {
						pure = true
						for val, cs := range hc {
							for _, c := range cs {
								if _, isRet := c.(*ssa.Return); !isRet {
									pure = false
								}
							}
							_ = val
						}
						if out == nil {
							pure = false
						}
					}
					if pure && out != nil {
						st := state[v]
						st.trim = st.trim || out.trim
						st.lower = st.lower || out.lower
						if _, seen := state[call]; !seen {
							state[call] = st
							work = append(work, call)
						}
						continue
					}
				}
			}
			if c13ErrorTextOnly(rr, 0) {
				continue // quoted in an error message only: not validated, not parsed
			}
			consumers[v] = append(consumers[v], rr)
		}
	}
	return state, consumers
}

// c13ErrorTextOnly: the instruction uses a string only to build the text of an
// error (an argument of fmt.Errorf, a concatenation handed to errors.New /
// fmt.Errorf).
func c13ErrorTextOnly(instr ssa.Instruction, depth int) bool {
	if depth > 3 {
		return false
	}
	isErrCtor := func(c *ssa.Call) bool {
		f := c.Common().StaticCallee()
		if f == nil || f.Pkg == nil {
			return false
		}
		switch f.Pkg.Pkg.Path() + "." + f.Name() {
		case "fmt.Errorf", "errors.New":
			return true
		}
		return false
	}
	allRefs := func(v ssa.Value, ok func(ssa.Instruction) bool) bool {
		if v.Referrers() == nil || len(*v.Referrers()) == 0 {
			return false
		}
		for _, rr := range *v.Referrers() {
			if _, isDbg := rr.(*ssa.DebugRef); isDbg {
				continue
			}
			if !ok(rr) {
				return false
			}
		}
		return true
	}
	switch y := instr.(type) {
	case *ssa.Call:
		return isErrCtor(y)
	case *ssa.BinOp:
		return allRefs(y, func(rr ssa.Instruction) bool { return c13ErrorTextOnly(rr, depth+1) })
	case *ssa.MakeInterface:
		// stored into the varargs array of fmt.Errorf
		return allRefs(y, func(rr ssa.Instruction) bool {
			st, ok := rr.(*ssa.Store)
			if !ok || st.Val != ssa.Value(y) {
				return false
			}
			ia, ok := st.Addr.(*ssa.IndexAddr)
			if !ok {
				return false
			}
			al, ok := ia.X.(*ssa.Alloc)
			if !ok || al.Comment != "varargs" {
				return false
			}
			return allRefs(al, func(r2 ssa.Instruction) bool {
				switch z := r2.(type) {
				case *ssa.IndexAddr:
					return true
				case *ssa.Slice:
					return allRefs(z, func(r3 ssa.Instruction) bool {
						c, ok := r3.(*ssa.Call)
						return ok && isErrCtor(c)
					})
				}
				return false
			})
		})
	}
	return false
}

func (x *c13) normalise() {
	p, r := x.P, x.R
	names := []string{"FromString"}
	for _, F := range c13Formats {
		names = append(names, "FromFormat"+F)
	}
	for _, n := range names {
		fn := x.guidFn("", n)
		cons := fmt.Sprintf("%s.%s: the raw input reaches only TrimSpace/ToLower; every other consumer sees one normalised value", c13PkgGUID, n)
		if fn == nil {
			r.Undecided("anchor", c13PkgGUID+"."+n, "", "anchor function does not resolve")
			continue
		}
		pos := p.Rel(fn.Pos())
		if len(fn.Params) != 1 {
			r.Undecided(c13R4, cons, pos, "the parser no longer has exactly one parameter")
			continue
		}
		state, consumers := x.normTrace(fn, fn.Params[0], 0)
		usesRegex := false
		for _, b := range fn.Blocks {
			for _, instr := range b.Instrs {
				if call, ok := instr.(*ssa.Call); ok {
					if _, _, isM := c13MatchCall(call); isM {
						usesRegex = true
					}
				}
			}
		}
		var stages []string
		var consumed []c13Norm
		for v, cs := range consumers {
			if len(cs) == 0 {
				continue
			}
			consumed = append(consumed, state[v])
			stages = append(stages, fmt.Sprintf("%s (%d uses)", state[v], len(cs)))
		}
		sort.Strings(stages)
		switch {
		case len(consumed) == 0:
			r.Undecided(c13R4, cons, pos, "the input parameter has no consumer")
		case len(consumed) > 1:
			r.Fail(c13R4, cons, pos, "consumers see the input at different normalisation stages ["+strings.Join(stages, "; ")+"]: the value that is validated (length, delimiters, regexp) is not the value that is parsed")
		case usesRegex && !(consumed[0].trim && consumed[0].lower):
			r.Fail(c13R4, cons, pos, "the string matched against the lower-case-only pattern is "+consumed[0].String()+": upper-case (or padded) input of a supported format is rejected")
		default:
			why := "single consumed value: " + stages[0]
			if usesRegex {
				why += "; a regexp is matched on it"
			}
			r.OK(c13R4, cons, pos, why)
		}
	}
}
