package rules

import (
	"fmt"
	"go/token"
	"strconv"
	"strings"

	"golang.org/x/tools/go/ssa"

	"manticheck/internal/codec"
)

// C04 extension `optional-count` (added after an author of behaviour-preserving
// changes pointed at WriteAndCloseRequest while avoiding it): a decoder that
// recognises the long form of a command by `WordCount == K` must use the K the
// encoder produces for that form. The parameter block is a fixed sequence of
// fixed-width atoms followed by the optional ones, so the number of words of
// the long form is known from the layout: (4 bytes of AndX block when the
// command is an AndX command) + the widths of all atoms, over 2. If K is
// anything else, the branch that decodes the optional fields is never taken
// for a message the library itself encoded (or can only fail), and those
// fields do not come back.
//
// Decided only when the whole parameter layout has constant widths and all
// optional decoder atoms sit in the branch of the one discriminating test;
// otherwise NOT DECIDED.
func c04OptionalCount(c *Ctx, cl *cmdLayout, pos string) {
	const rule = "optional-count"
	p := c.P
	u := cl.un
	// discriminators: if WordCount == K
	type disc struct {
		k     int
		taken *ssa.BasicBlock
		iff   *ssa.If
	}
	var ds []disc
	for _, b := range u.Blocks {
		iff, ok := b.Instrs[len(b.Instrs)-1].(*ssa.If)
		if !ok {
			continue
		}
		bo, ok := iff.Cond.(*ssa.BinOp)
		if !ok || bo.Op != token.EQL {
			continue
		}
		for _, pr := range [][2]ssa.Value{{bo.X, bo.Y}, {bo.Y, bo.X}} {
			k, isK := pr[1].(*ssa.Const)
			if !isK || k.Value == nil {
				continue
			}
			ld, ok := pr[0].(*ssa.UnOp)
			if !ok {
				continue
			}
			fa, ok := ld.X.(*ssa.FieldAddr)
			if !ok {
				continue
			}
			if fieldNameOf(fa) != "WordCount" {
				continue
			}
			n, err := strconv.Atoi(k.Value.ExactString())
			if err != nil {
				continue
			}
			ds = append(ds, disc{n, b.Succs[0], iff})
		}
	}
	if len(ds) == 0 {
		return
	}
	key := cl.name + " params: WordCount of the long form"
	if len(ds) > 1 {
		c.NotDecided(rule, key, pos, fmt.Sprintf("%d tests of WordCount against a constant; the rule reads one", len(ds)))
		return
	}
	d := ds[0]
	// every optional decoder atom sits in the taken branch, and there is at least one
	nOpt := 0
	for _, a := range flatten(cl.decP) {
		inBranch := a.At != nil && (a.At.Block() == d.taken || d.taken.Dominates(a.At.Block())) && edgeDom(d.iff.Block(), d.taken)
		if inBranch {
			nOpt++
		} else if a.Cond {
			c.NotDecided(rule, key, pos, "optional field "+a.Field+" is decoded under another condition than the WordCount test")
			return
		}
	}
	if nOpt == 0 {
		c.NotDecided(rule, key, pos, "no field is decoded in the branch of the WordCount test")
		return
	}
	// size of the long form from the encoder's layout (nested sizes from the decoder's callee)
	nested := map[string]int{}
	for _, a := range flatten(cl.decP) {
		if a.Kind == "nested" && a.Callee != nil {
			if n, ok := fixedConsumed(a.Callee); ok {
				nested[a.Field] = n
			}
		}
	}
	total := 0
	if cl.andx {
		total += 4
	}
	var walk func(as []codec.Atom) string
	walk = func(as []codec.Atom) string {
		for _, a := range as {
			switch a.Kind {
			case "fixed", "const", "pad":
				if a.Width <= 0 {
					return "atom of unknown width: " + a.String()
				}
				total += a.Width
			case "bytes":
				if a.Width <= 0 {
					return "variable-length field " + a.Field
				}
				total += a.Width
			case "nested":
				n, ok := nested[a.Field]
				if !ok {
					return "nested field " + a.Field + " of no constant size"
				}
				total += n
			case "repeat":
				cnt, err := strconv.Atoi(a.Over)
				if err != nil {
					return "repeat over " + a.Over
				}
				before := total
				if why := walk(a.Body); why != "" {
					return why
				}
				total = before + (total-before)*cnt
			case "cond":
				if why := walk(a.Body); why != "" {
					return why
				}
			default:
				return "atom " + a.String()
			}
		}
		return ""
	}
	encP := cl.encP
	if cl.andx && len(encP) > 0 && encP[0].Kind == "nested" && strings.Contains(encP[0].Type, "AndX") {
		encP = encP[1:] // the AndX block emitted through AndX.Marshal(): already counted above
	}
	if why := walk(normalise(encP)); why != "" {
		c.NotDecided(rule, key, pos, "the encoder's parameter layout has no constant size: "+why)
		return
	}
	if total%2 != 0 {
		c.NotDecided(rule, key, pos, fmt.Sprintf("the encoder's parameter layout is %d bytes, not a whole number of words", total))
		return
	}
	if total/2 == d.k {
		c.R.OK(rule, key, pos, fmt.Sprintf("Unmarshal takes the long form at WordCount == %d; Marshal's long form is %d bytes = %d words", d.k, total, total/2))
	} else {
		c.R.Fail(rule, key, p.Rel(d.iff.Cond.Pos()), fmt.Sprintf("Unmarshal decodes the optional fields only when WordCount == %d, but the long form Marshal produces is %d bytes = %d words (%s): for a message this library encoded the branch is never taken, and with WordCount == %d it could only fail its own length check — the optional fields do not round-trip", d.k, total, total/2, codec.Render(cl.encP), d.k))
	}
}

func edgeDom(from, to *ssa.BasicBlock) bool {
	for _, p := range to.Preds {
		if p != from && !to.Dominates(p) {
			return false
		}
	}
	return true
}
