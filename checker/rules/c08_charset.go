package rules

import (
	"fmt"
	"go/types"
	"strings"

	"golang.org/x/tools/go/ssa"

	"manticheck/internal/codec"
)

// R3: the character set of the name payloads follows the Unicode test.

func (c *c08) charset(spec c08Msg, b *c08Built) {
	name := c08NTLM + "." + spec.fn
	nName := 0
	for _, d := range spec.descs {
		if d.param >= 0 {
			nName += 2
		}
	}
	expect := map[string]int{"R3.charset-flag": 1, "R3.charset-name": nName}
	if b == nil {
		// R1.layout already reported; if it could not be decided, neither can this
		if c.builderND[spec.fn] {
			c.entity(expect, func() {
				c.notDecided("R3.charset-flag", name+": character-set flag", "-", "the builder's layout was not read off or is already reported (see R1.layout / R1.header-size)")
			})
		}
		return
	}
	c.entity(expect, func() {
		c.guard("R3.charset-flag", name, c.pos(b.fn.Pos()), func() { c.charset1(spec, b, name) })
	})
}

func (c *c08) charset1(spec c08Msg, b *c08Built, name string) {
	r := c.R
	fn := b.fn
	uni, ok1 := c08PkgConst(c.P, c08NTLM, "NTLMSSP_NEGOTIATE_UNICODE")
	oem, ok2 := c08PkgConst(c.P, c08NTLM, "NTLMSSP_NEGOTIATE_OEM")
	encode := c.P.Func(c08UTF16, "", "EncodeUTF16LE")
	if !ok1 || !ok2 || encode == nil {
		r.Undecided("R3.charset-flag", name+": character-set test", c.pos(fn.Pos()), "NTLMSSP_NEGOTIATE_UNICODE / NTLMSSP_NEGOTIATE_OEM / utf16.EncodeUTF16LE not found")
		return
	}
	if uni.Int64() != 1 || oem.Int64() != 2 {
		r.Fail("R3.charset-flag", name+": character-set test", c.pos(fn.Pos()), fmt.Sprintf("NTLMSSP_NEGOTIATE_UNICODE = %s, NTLMSSP_NEGOTIATE_OEM = %s; MS-NLMP: 0x1, 0x2", uni, oem))
		return
	}

	// The test that selects the character set. A condition may be evaluated in an
	// inlined helper (activation fr): a bool parameter bound to the caller's test
	// value, or the mask test itself written on a parameter bound to the flags.
	var test func(cond ssa.Value, fr *codec.Frame) (match, whenTrue bool)
	var flagField *types.Var
	var flagBase ssa.Value
	negotiate := spec.fn == c08Negotiate.fn
	if negotiate {
		// the bool parameter (the only one): useUnicode
		var bp *ssa.Parameter
		for _, p := range fn.Params {
			if bt, ok := p.Type().Underlying().(*types.Basic); ok && bt.Kind() == types.Bool {
				if bp != nil {
					c.notDecided("R3.charset-flag", name+": character-set test", c.pos(fn.Pos()), "more than one bool parameter; cannot tell which selects the character set")
					return
				}
				bp = p
			}
		}
		if bp == nil {
			c.notDecided("R3.charset-flag", name+": character-set test", c.pos(fn.Pos()), "no bool parameter selects the character set")
			return
		}
		test = func(cond ssa.Value, fr *codec.Frame) (bool, bool) {
			v, f := codec.Resolve(cond, fr)
			return f == nil && v == ssa.Value(bp), true
		}
	} else {
		var testD func(cond ssa.Value, fr *codec.Frame, depth int) (bool, bool)
		testD = func(cond ssa.Value, fr *codec.Frame, depth int) (bool, bool) {
			v, f := codec.Resolve(cond, fr)
			// the test moved into a predicate: wantsUnicode(challenge), challenge.unicode()
			if call, h := c08StaticCall(v); call != nil && h != nil && h.Blocks != nil && c.P.InModule(h) && depth < 2 && h.Signature.Results().Len() == 1 {
				var ret *ssa.Return
				for _, hb := range h.Blocks {
					if r, isRet := hb.Instrs[len(hb.Instrs)-1].(*ssa.Return); isRet {
						if ret != nil {
							return false, false
						}
						ret = r
					}
				}
				if ret == nil {
					return false, false
				}
				return testD(ret.Results[0], codec.ChildFrame(call, h, f), depth+1)
			}
			x, set, ok := c08MaskTest(v, uni)
			if !ok {
				return false, false
			}
			xv, xf := codec.Resolve(c08Strip(x), f)
			base, fld, ok := c08FieldLoad(xv)
			if !ok || fld.Name() != "NegotiateFlags" || len(fn.Params) == 0 {
				return false, false
			}
			if rb, rf := codec.Resolve(base, xf); rf != nil || rb != ssa.Value(fn.Params[0]) {
				return false, false
			}
			flagField, flagBase = fld, ssa.Value(fn.Params[0])
			return true, set
		}
		test = func(cond ssa.Value, fr *codec.Frame) (bool, bool) { return testD(cond, fr, 0) }
	}
	viewT := c08NewBranchView(fn, func(cond ssa.Value) (bool, bool) { m, s := test(cond, nil); return m, s })
	viewF := c08NewBranchView(fn, func(cond ssa.Value) (bool, bool) { m, s := test(cond, nil); return m, !s })

	// charset-name: evaluated first (buffered), because the selection may be made
	// inside a shared encoding helper, whose decided branches count as tests
	helperTests := 0
	var emit []func()
	toUpper := func(f *ssa.Function) bool { return f != nil && f.String() == "strings.ToUpper" }
	// notFollowed marks a "bad" that is an origin the rule does not follow (as
	// opposed to a producer observed to be the wrong one)
	const notFollowed = "\x00"
	otherParam := false // set by fromParam: the source IS another parameter of the builder
	fromParam := func(v ssa.Value, fr *codec.Frame, want *ssa.Parameter) bool {
		otherParam = false
		for d := 0; d < 8; d++ {
			v, fr = codec.Resolve(v, fr)
			if fr == nil && v == ssa.Value(want) {
				return true
			}
			call, f := c08StaticCall(v)
			if call != nil && toUpper(f) {
				v = call.Common().Args[0]
				continue
			}
			if p, isP := v.(*ssa.Parameter); isP && fr == nil && p.Parent() == fn {
				otherParam = true
			}
			return false
		}
		return false
	}
	// producer: leaf l (in activation fr) on the paths where Unicode is / is not selected
	var producer func(l ssa.Value, fr *codec.Frame, uniSel bool, want *ssa.Parameter, depth int) (bad string, n int)
	producer = func(l ssa.Value, fr *codec.Frame, uniSel bool, want *ssa.Parameter, depth int) (string, int) {
		if k, isK := l.(*ssa.Const); isK && k.Value == nil {
			return "", 0 // absent name: no bytes
		}
		call, f := c08StaticCall(l)
		switch {
		case call != nil && f == encode:
			if !uniSel {
				return "is produced by utf16.EncodeUTF16LE although the OEM character set is selected", 1
			}
			if !fromParam(call.Common().Args[0], fr, want) {
				if !otherParam {
					return notFollowed + "is EncodeUTF16LE of a value whose origin is not followed to parameter " + want.Name(), 1
				}
				return "is EncodeUTF16LE of something other than parameter " + want.Name(), 1
			}
			return "", 1
		case call != nil && f != nil && f.Blocks != nil && c.P.InModule(f) && depth < 2 && f.Signature.Results().Len() == 1:
			// a shared encoding helper: its returns, on the paths the selection leaves alive
			fr2 := codec.ChildFrame(call, f, fr)
			view := c08NewBranchView(f, func(cond ssa.Value) (bool, bool) { m, s := test(cond, fr2); return m, s == uniSel })
			helperTests += view.tests
			total := 0
			for _, b := range f.Blocks {
				ret, ok := b.Instrs[len(b.Instrs)-1].(*ssa.Return)
				if !ok || !view.live[b] {
					continue
				}
				for _, l2 := range view.leaves(ret.Results[0]) {
					bad, n := producer(l2, fr2, uniSel, want, depth+1)
					if bad != "" {
						if strings.HasPrefix(bad, notFollowed) {
							return bad, n
						}
						return bad + " (in helper " + f.Name() + ")", n
					}
					total += n
				}
			}
			return "", total
		}
		if cv, isC := l.(*ssa.Convert); isC && c08IsString(cv.X.Type()) {
			if uniSel {
				return "is produced by a []byte(string) conversion although Unicode is selected (must be utf16.EncodeUTF16LE)", 1
			}
			if !fromParam(cv.X, fr, want) {
				if !otherParam {
					return notFollowed + "is []byte of a value whose origin is not followed to parameter " + want.Name(), 1
				}
				return "is []byte of something other than parameter " + want.Name(), 1
			}
			return "", 1
		}
		return notFollowed + "is produced by " + l.String() + ", which is neither utf16.EncodeUTF16LE nor a []byte(string) conversion and is not followed", 1
	}
	for _, d := range spec.descs {
		if d.param < 0 {
			continue
		}
		P := b.payload[d.name]
		if P == nil && d.param < len(fn.Params) && c.builderND[spec.fn] {
			for _, label := range []string{"Unicode", "OEM"} {
				construct := fmt.Sprintf("%s: %s payload (%s)", name, d.name, label)
				emit = append(emit, func() {
					c.notDecided("R3.charset-name", construct, c.pos(fn.Pos()), "the payload of the descriptor was not identified (see R2.desc-len)")
				})
			}
		}
		if P == nil || d.param >= len(fn.Params) {
			continue
		}
		want := fn.Params[d.param]
		for _, br := range []struct {
			label string
			view  *c08BranchView
			uni   bool
		}{{"Unicode", viewT, true}, {"OEM", viewF, false}} {
			construct := fmt.Sprintf("%s: %s payload (%s)", name, d.name, br.label)
			bad, n := "", 0
			for _, l := range br.view.leaves(P) {
				b1, n1 := producer(l, nil, br.uni, want, 0)
				n += n1
				if b1 != "" {
					bad = b1
					break
				}
			}
			br := br
			emit = append(emit, func() {
				switch {
				case strings.HasPrefix(bad, notFollowed):
					c.notDecided("R3.charset-name", construct, c.pos(fn.Pos()), "on the "+br.label+" paths the payload "+strings.TrimPrefix(bad, notFollowed))
				case bad != "":
					r.Fail("R3.charset-name", construct, c.pos(fn.Pos()), "on the "+br.label+" paths the payload "+bad)
				case n == 0:
					r.Fail("R3.charset-name", construct, c.pos(fn.Pos()), "on the "+br.label+" paths no encoding of parameter "+want.Name()+" reaches the payload")
				default:
					how := "[]byte(string)"
					if br.uni {
						how = "utf16.EncodeUTF16LE"
					}
					r.OK("R3.charset-name", construct, c.pos(fn.Pos()), fmt.Sprintf("every producer on these paths is %s of parameter %s (optionally strings.ToUpper, possibly through a shared helper)", how, want.Name()))
				}
			})
		}
	}

	// charset-flag
	{
		construct := name + ": character-set flag"
		switch {
		case viewT.tests+helperTests == 0:
			// the selection may be made in code that was not followed: the selecting
			// value (useUnicode, resp. the challenge or its flags) is handed to an
			// in-module function or closure
			var sel ssa.Value
			if len(fn.Params) > 0 {
				sel = fn.Params[0]
			}
			if negotiate {
				for _, p := range fn.Params {
					if bt, ok := p.Type().Underlying().(*types.Basic); ok && bt.Kind() == types.Bool {
						sel = p
					}
				}
			}
			esc := ""
			if sel != nil {
				esc = c.flowsOut(sel, c08FlowOpts{lengths: true, ignore: func(f *ssa.Function) bool {
					return f.Name() == "calculateNTLMv1Response" || f.Name() == "calculateNTLMv2Response"
				}})
			}
			switch {
			case esc != "":
				c.notDecided("R3.charset-flag", construct, c.pos(fn.Pos()), "no branch of the builder itself tests the character-set selector, but "+esc+", which may select it")
			case negotiate:
				r.Fail("R3.charset-flag", construct, c.pos(fn.Pos()), "no branch tests the useUnicode parameter")
			default:
				r.Fail("R3.charset-flag", construct, c.pos(fn.Pos()), "no branch tests challenge.NegotiateFlags & NTLMSSP_NEGOTIATE_UNICODE: the character set does not follow the negotiated flag")
			}
		case negotiate:
			if b.flagsVal == nil {
				c.notDecided("R3.charset-flag", construct, c.pos(fn.Pos()), "the NegotiateFlags value written was not located")
				break
			}
			evT := &c08BitsEval{root: viewT, inModule: c.P.InModule, test: func(cond ssa.Value, fr *codec.Frame) (bool, bool) { m, s := test(cond, fr); return m, s }}
			evF := &c08BitsEval{root: viewF, inModule: c.P.InModule, test: func(cond ssa.Value, fr *codec.Frame) (bool, bool) { m, s := test(cond, fr); return m, !s }}
			zt, ot := evT.bits(b.flagsVal, nil, map[ssa.Value]bool{}, 0)
			zf, of := evF.bits(b.flagsVal, nil, map[ssa.Value]bool{}, 0)
			for _, ev := range []*c08BitsEval{evT} {
				for _, hv := range ev.views {
					helperTests += hv.tests
				}
			}
			u, o := uni.Uint64(), oem.Uint64()
			switch {
			case zt&u != 0 || ot&o != 0:
				// observed: UNICODE known clear, or OEM known set, on the Unicode paths
				r.Fail("R3.charset-flag", construct, c.pos(fn.Pos()), "when useUnicode is true the emitted NegotiateFlags do not have exactly NTLMSSP_NEGOTIATE_UNICODE set (and NTLMSSP_NEGOTIATE_OEM clear)")
			case zf&o != 0 || of&u != 0:
				r.Fail("R3.charset-flag", construct, c.pos(fn.Pos()), "when useUnicode is false the emitted NegotiateFlags do not have exactly NTLMSSP_NEGOTIATE_OEM set (and NTLMSSP_NEGOTIATE_UNICODE clear)")
			case ot&u == 0 || zt&o == 0 || of&o == 0 || zf&u == 0:
				c.notDecided("R3.charset-flag", construct, c.pos(fn.Pos()), "the UNICODE / OEM bits of the emitted NegotiateFlags are not determined on the paths the selector decides (the flags are assembled in a form the bit evaluation does not follow)")
			default:
				r.OK("R3.charset-flag", construct, c.pos(fn.Pos()), fmt.Sprintf("useUnicode ⇒ UNICODE=1, OEM=0; ¬useUnicode ⇒ UNICODE=0, OEM=1 (%d branches decided)", viewT.tests+helperTests))
			}
		default:
			// the flags echoed are the field that was tested
			if b.flagsVal == nil {
				c.notDecided("R3.charset-flag", construct, c.pos(fn.Pos()), "the NegotiateFlags value written was not located")
				break
			}
			base, fld, ok := c08FieldLoad(b.flagsVal)
			if !ok {
				c.notDecided("R3.charset-flag", construct, c.pos(fn.Pos()), "the NegotiateFlags emitted are "+b.flagsVal.Name()+", not directly a load of challenge.NegotiateFlags; their origin is not followed")
			} else if fld != flagField || base != flagBase {
				r.Fail("R3.charset-flag", construct, c.pos(fn.Pos()), "the NegotiateFlags emitted are not challenge.NegotiateFlags, the word whose UNICODE bit selected the character set")
			} else {
				r.OK("R3.charset-flag", construct, c.pos(fn.Pos()), fmt.Sprintf("character set selected by challenge.NegotiateFlags & NTLMSSP_NEGOTIATE_UNICODE (%d branches); the same field is emitted", viewT.tests+helperTests))
			}
		}
	}

	for _, f := range emit {
		f()
	}
}

func c08IsString(t types.Type) bool {
	b, ok := t.Underlying().(*types.Basic)
	return ok && b.Info()&types.IsString != 0
}
