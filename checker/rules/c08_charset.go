package rules

import (
	"fmt"
	"go/types"

	"golang.org/x/tools/go/ssa"

	"manticheck/internal/codec"
)

// R3: the character set of the name payloads follows the Unicode test.

func (c *c08) charset(spec c08Msg, b *c08Built) {
	name := c08NTLM + "." + spec.fn
	if b == nil {
		return // R1.layout already reported
	}
	c.guard("R3.charset-flag", name, c.pos(b.fn.Pos()), func() { c.charset1(spec, b, name) })
}

func (c *c08) charset1(spec c08Msg, b *c08Built, name string) {
	r := c.R
	fn := b.fn
	uni, ok1 := c08PkgConst(c.P, c08NTLM, "NTLMSSP_NEGOTIATE_UNICODE")
	oem, ok2 := c08PkgConst(c.P, c08NTLM, "NTLMSSP_NEGOTIATE_OEM")
	encode := c.P.Func(c08UTF16, "", "EncodeUTF16LE")
	if !ok1 || !ok2 || encode == nil {
		r.Undecided("R3.charset-flag", name+": character-set test", c.pos(fn.Pos()), "NTLMSSP_NEGOTIATE_UNICODE / NTLMSSP_NEGOTIATE_OEM / utf16.EncodeUTF16LE not found")
		return
	}
	if uni.Int64() != 1 || oem.Int64() != 2 {
		r.Fail("R3.charset-flag", name+": character-set test", c.pos(fn.Pos()), fmt.Sprintf("NTLMSSP_NEGOTIATE_UNICODE = %s, NTLMSSP_NEGOTIATE_OEM = %s; MS-NLMP: 0x1, 0x2", uni, oem))
		return
	}

	// The test that selects the character set. A condition may be evaluated in an
	// inlined helper (activation fr): a bool parameter bound to the caller's test
	// value, or the mask test itself written on a parameter bound to the flags.
	var test func(cond ssa.Value, fr *codec.Frame) (match, whenTrue bool)
	var flagField *types.Var
	var flagBase ssa.Value
	negotiate := spec.fn == c08Negotiate.fn
	if negotiate {
		// the bool parameter (the only one): useUnicode
		var bp *ssa.Parameter
		for _, p := range fn.Params {
			if bt, ok := p.Type().Underlying().(*types.Basic); ok && bt.Kind() == types.Bool {
				if bp != nil {
					r.Undecided("R3.charset-flag", name+": character-set test", c.pos(fn.Pos()), "more than one bool parameter; cannot tell which selects the character set")
					return
				}
				bp = p
			}
		}
		if bp == nil {
			r.Undecided("R3.charset-flag", name+": character-set test", c.pos(fn.Pos()), "no bool parameter selects the character set")
			return
		}
		test = func(cond ssa.Value, fr *codec.Frame) (bool, bool) {
			v, f := codec.Resolve(cond, fr)
			return f == nil && v == ssa.Value(bp), true
		}
	} else {
		test = func(cond ssa.Value, fr *codec.Frame) (bool, bool) {
			v, f := codec.Resolve(cond, fr)
			x, set, ok := c08MaskTest(v, uni)
			if !ok {
				return false, false
			}
			xv, xf := codec.Resolve(c08Strip(x), f)
			base, fld, ok := c08FieldLoad(xv)
			if !ok || xf != nil || fld.Name() != "NegotiateFlags" || len(fn.Params) == 0 || base != ssa.Value(fn.Params[0]) {
				return false, false
			}
			flagField, flagBase = fld, base
			return true, set
		}
	}
	viewT := c08NewBranchView(fn, func(cond ssa.Value) (bool, bool) { m, s := test(cond, nil); return m, s })
	viewF := c08NewBranchView(fn, func(cond ssa.Value) (bool, bool) { m, s := test(cond, nil); return m, !s })

	// charset-name: evaluated first (buffered), because the selection may be made
	// inside a shared encoding helper, whose decided branches count as tests
	helperTests := 0
	var emit []func()
	toUpper := func(f *ssa.Function) bool { return f != nil && f.String() == "strings.ToUpper" }
	fromParam := func(v ssa.Value, fr *codec.Frame, want *ssa.Parameter) bool {
		for d := 0; d < 8; d++ {
			v, fr = codec.Resolve(v, fr)
			if fr == nil && v == ssa.Value(want) {
				return true
			}
			call, f := c08StaticCall(v)
			if call != nil && toUpper(f) {
				v = call.Common().Args[0]
				continue
			}
			return false
		}
		return false
	}
	// producer: leaf l (in activation fr) on the paths where Unicode is / is not selected
	var producer func(l ssa.Value, fr *codec.Frame, uniSel bool, want *ssa.Parameter, depth int) (bad string, n int)
	producer = func(l ssa.Value, fr *codec.Frame, uniSel bool, want *ssa.Parameter, depth int) (string, int) {
		if k, isK := l.(*ssa.Const); isK && k.Value == nil {
			return "", 0 // absent name: no bytes
		}
		call, f := c08StaticCall(l)
		switch {
		case call != nil && f == encode:
			if !uniSel {
				return "is produced by utf16.EncodeUTF16LE although the OEM character set is selected", 1
			}
			if !fromParam(call.Common().Args[0], fr, want) {
				return "is EncodeUTF16LE of something other than parameter " + want.Name(), 1
			}
			return "", 1
		case call != nil && f != nil && f.Blocks != nil && c.P.InModule(f) && depth < 2 && f.Signature.Results().Len() == 1:
			// a shared encoding helper: its returns, on the paths the selection leaves alive
			fr2 := codec.ChildFrame(call, f, fr)
			view := c08NewBranchView(f, func(cond ssa.Value) (bool, bool) { m, s := test(cond, fr2); return m, s == uniSel })
			helperTests += view.tests
			total := 0
			for _, b := range f.Blocks {
				ret, ok := b.Instrs[len(b.Instrs)-1].(*ssa.Return)
				if !ok || !view.live[b] {
					continue
				}
				for _, l2 := range view.leaves(ret.Results[0]) {
					bad, n := producer(l2, fr2, uniSel, want, depth+1)
					if bad != "" {
						return bad + " (in helper " + f.Name() + ")", n
					}
					total += n
				}
			}
			return "", total
		}
		if cv, isC := l.(*ssa.Convert); isC && c08IsString(cv.X.Type()) {
			if uniSel {
				return "is produced by a []byte(string) conversion although Unicode is selected (must be utf16.EncodeUTF16LE)", 1
			}
			if !fromParam(cv.X, fr, want) {
				return "is []byte of something other than parameter " + want.Name(), 1
			}
			return "", 1
		}
		return "is produced by " + l.String() + ", neither utf16.EncodeUTF16LE nor a []byte(string) conversion", 1
	}
	for _, d := range spec.descs {
		if d.param < 0 {
			continue
		}
		P := b.payload[d.name]
		if P == nil || d.param >= len(fn.Params) {
			continue
		}
		want := fn.Params[d.param]
		for _, br := range []struct {
			label string
			view  *c08BranchView
			uni   bool
		}{{"Unicode", viewT, true}, {"OEM", viewF, false}} {
			construct := fmt.Sprintf("%s: %s payload (%s)", name, d.name, br.label)
			bad, n := "", 0
			for _, l := range br.view.leaves(P) {
				b1, n1 := producer(l, nil, br.uni, want, 0)
				n += n1
				if b1 != "" {
					bad = b1
					break
				}
			}
			br := br
			emit = append(emit, func() {
				switch {
				case bad != "":
					r.Fail("R3.charset-name", construct, c.pos(fn.Pos()), "on the "+br.label+" paths the payload "+bad)
				case n == 0:
					r.Fail("R3.charset-name", construct, c.pos(fn.Pos()), "on the "+br.label+" paths no encoding of parameter "+want.Name()+" reaches the payload")
				default:
					how := "[]byte(string)"
					if br.uni {
						how = "utf16.EncodeUTF16LE"
					}
					r.OK("R3.charset-name", construct, c.pos(fn.Pos()), fmt.Sprintf("every producer on these paths is %s of parameter %s (optionally strings.ToUpper, possibly through a shared helper)", how, want.Name()))
				}
			})
		}
	}

	// charset-flag
	{
		construct := name + ": character-set flag"
		switch {
		case viewT.tests+helperTests == 0:
			if negotiate {
				r.Fail("R3.charset-flag", construct, c.pos(fn.Pos()), "no branch tests the useUnicode parameter")
			} else {
				r.Fail("R3.charset-flag", construct, c.pos(fn.Pos()), "no branch tests challenge.NegotiateFlags & NTLMSSP_NEGOTIATE_UNICODE: the character set does not follow the negotiated flag")
			}
		case negotiate:
			if b.flagsVal == nil {
				r.Undecided("R3.charset-flag", construct, c.pos(fn.Pos()), "NegotiateFlags value not located")
				break
			}
			evT := &c08BitsEval{root: viewT, inModule: c.P.InModule, test: func(cond ssa.Value, fr *codec.Frame) (bool, bool) { m, s := test(cond, fr); return m, s }}
			evF := &c08BitsEval{root: viewF, inModule: c.P.InModule, test: func(cond ssa.Value, fr *codec.Frame) (bool, bool) { m, s := test(cond, fr); return m, !s }}
			zt, ot := evT.bits(b.flagsVal, nil, map[ssa.Value]bool{}, 0)
			zf, of := evF.bits(b.flagsVal, nil, map[ssa.Value]bool{}, 0)
			for _, ev := range []*c08BitsEval{evT} {
				for _, hv := range ev.views {
					helperTests += hv.tests
				}
			}
			u, o := uni.Uint64(), oem.Uint64()
			switch {
			case ot&u == 0 || zt&o == 0:
				r.Fail("R3.charset-flag", construct, c.pos(fn.Pos()), "when useUnicode is true the emitted NegotiateFlags do not have exactly NTLMSSP_NEGOTIATE_UNICODE set (and NTLMSSP_NEGOTIATE_OEM clear)")
			case of&o == 0 || zf&u == 0:
				r.Fail("R3.charset-flag", construct, c.pos(fn.Pos()), "when useUnicode is false the emitted NegotiateFlags do not have exactly NTLMSSP_NEGOTIATE_OEM set (and NTLMSSP_NEGOTIATE_UNICODE clear)")
			default:
				r.OK("R3.charset-flag", construct, c.pos(fn.Pos()), fmt.Sprintf("useUnicode ⇒ UNICODE=1, OEM=0; ¬useUnicode ⇒ UNICODE=0, OEM=1 (%d branches decided)", viewT.tests+helperTests))
			}
		default:
			// the flags echoed are the field that was tested
			base, fld, ok := c08FieldLoad(b.flagsVal)
			if !ok || fld != flagField || base != flagBase {
				r.Fail("R3.charset-flag", construct, c.pos(fn.Pos()), "the NegotiateFlags emitted are not challenge.NegotiateFlags, the word whose UNICODE bit selected the character set")
			} else {
				r.OK("R3.charset-flag", construct, c.pos(fn.Pos()), fmt.Sprintf("character set selected by challenge.NegotiateFlags & NTLMSSP_NEGOTIATE_UNICODE (%d branches); the same field is emitted", viewT.tests+helperTests))
			}
		}
	}

	for _, f := range emit {
		f()
	}
}

func c08IsString(t types.Type) bool {
	b, ok := t.Underlying().(*types.Basic)
	return ok && b.Info()&types.IsString != 0
}
