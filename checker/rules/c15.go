package rules

// C15 — Windows time and duration conversions are exact, inverse and
// overflow-free.
//
//	R1 overflow  (E1 overflow mode, go/ssa)   core
//	R2 units     (typed AST, constant values) narrow
//	R3 inverse   (typed AST, constant roles)  narrow

import (
	"fmt"
	"go/ast"
	"go/token"
	"go/types"
	"sort"
	"strings"

	"golang.org/x/tools/go/ssa"

	"manticheck/internal/load"
	"manticheck/internal/prove"
	"manticheck/internal/report"
)

func init() { register(&Check{ID: "C15", NeedSSA: true, Run: runC15}) }

type c15Anchor struct{ rel, recv, name string }

func (a c15Anchor) String() string {
	if a.recv != "" {
		return a.rel + ".(" + a.recv + ")." + a.name
	}
	return a.rel + "." + a.name
}

const (
	c15DS   = "windows/ms_dtyp/common/data_structures"
	c15LDAP = "network/ldap"
	c15KC   = "windows/keycredential/utils"
	c15U1   = "crypto/uuid/uuid_v1"
	c15U2   = "crypto/uuid/uuid_v2"
	c15NTLM = "network/smb/smb_v10/spnego/ntlm"
)

// The conversion functions named by the property (resolved through go/types).
var c15Anchors = []c15Anchor{
	{c15DS, "", "NewFILETIMEFromTime"},
	{c15DS, "FILETIME", "ToInt64"},
	{c15DS, "FILETIME", "GetTime"},
	{c15DS, "FILETIME", "GetUnixTimestamp"},
	{c15LDAP, "", "ConvertLDAPTimeStampToUnixTimeStamp"},
	{c15LDAP, "", "ConvertUnixTimeStampToLDAPTimeStamp"},
	{c15LDAP, "", "ConvertLDAPDurationToSeconds"},
	{c15LDAP, "", "ConvertSecondsToLDAPDuration"},
	{c15KC, "", "NewDateTime"},
	{c15KC, "", "ConvertToBinaryTime"},
	{c15KC, "", "ConvertFromBinaryTime"},
	{c15U1, "UUIDv1", "GetTime"},
	{c15U1, "UUIDv1", "SetTime"},
	{c15U2, "UUIDv2", "GetTime"},
	{c15U2, "UUIDv2", "SetTime"},
	{c15NTLM, "", "createNTLMv2Blob"},
}

func runC15(c *Ctx) {
	p, r := c.P, c.R
	r.Explanation = "C15 time/duration conversions, decided statically over the conversion functions named by the property and every in-module function they call. " +
		"R1 `overflow` (core): every + - * << and unary minus on a 64-bit integer, every narrowing or sign-changing integer conversion, and every call to time.Time.UnixNano/UnixMicro/UnixMilli, time.Unix and time.Time.Sub/Since/Until in scope is enumerated from go/ssa; for each, E1 must entail from the facts holding before the instruction (dominating guards, non-wrapping definitions, truncated-division and remainder bounds, ranges of Nanosecond()) that the exact mathematical result computed from the operands lies in the result type's range. Inputs range over their full type (strconv.ParseInt: all of int64; results of other calls: full type range). UnixNano & co. carry their documented representability pre-condition, which only a dominating guard on Unix()/Year()/Before/After of the same instant discharges; time.Unix(sec, nsec) is total; Sub/Since/Until saturate and are never accepted. A left shift whose result is only combined bitwise is judged as lane placement (no bit shifted out); a narrowing conversion whose operand is also shifted right by the kept width is a lane split; a same-width signed/unsigned conversion of a value ASSEMBLED from zero-extended lanes by constant shifts and | (int64(uint64(hi)<<32 | uint64(lo))) is a reinterpretation of the bit pattern — the same decision as for int64(hi)<<32 | int64(lo) — while a bare parameter, load or call result stays a numeric conversion. Three summaries keep extracted helpers decidable: a goal over the parameters of an unexported helper is re-posed on the arguments at its call sites; a pure arithmetic helper (integer/boolean parameters, no loads, stores, calls or loops) called with one argument tuple is read in the caller's context — its integer results equal the returned expressions, and the known truth of a boolean one yields the comparisons of the single return/φ-edge that can produce it; a conversion whose operand is not bounded at the site is decided where the operand is produced (each joined value, each return value of an in-module callee, each argument of an unexported helper). The rule's floor is one decided site per conversion function (`overflow-cover`), not an instruction count. " +
		"R2 `units` (narrow): every integer constant >= 1000 (>= 100 as a factor or divisor) used in scope is, by VALUE (a named constant whose value is in no table is judged through the leaves of its defining expression, so a derived limit may be hoisted into a constant declaration), one of the unit scales 100/1e3/1e4/1e6/1e7/1e9, the epoch offsets 11644473600, 116444736000000000, 12219292800, 122192928000000000, a power-of-two mask/type extreme, or an epoch year passed to time.Date; and per conversion function the set of (role, value) pairs — multiplied, divided, added, subtracted — equals the table frozen by reading. " +
		"R3 `inverse` (narrow): for each direction pair the epoch subtracted by the tick→time function is the one added by the time→tick function (never the other way round, never missing), and no scale constant is applied in the same direction by both. " +
		"NOT decided: exactness and inverse-ness as arithmetic identities beyond R1–R3 (e.g. that v/1e7 and (v%1e7)*100 recombine to v, rounding of sub-100 ns parts, the sign convention of LDAP negative intervals, the choice of saturation values). No Manticore code is executed."
	r.Assumptions = []string{
		"go/parser, go/types and the go/ssa builder of x/tools v0.50.0 are faithful to the source; int is 64 bits",
		"package time: Unix(), time.Unix(sec,nsec), Nanosecond() in [0, 999999999] are total and exact; UnixNano/UnixMicro/UnixMilli are exact iff the instant is representable in the unit (documented); Sub/Since/Until saturate",
		prove.NowAssumption,
		"values returned by calls outside the module (strconv.ParseInt, binary.LittleEndian.Uint64, …) range over their full type",
	}

	w := sharedWorld(p)

	// ---- scope -----------------------------------------------------------
	anchorFn := map[string]*ssa.Function{}
	var scope []*ssa.Function
	inScope := map[*ssa.Function]bool{}
	closure := map[string][]*ssa.Function{} // anchor → itself + in-module callees (transitive)
	for _, a := range c15Anchors {
		fn := p.Func(a.rel, a.recv, a.name)
		if fn == nil || fn.Blocks == nil {
			r.Undecided("anchor", a.String(), "", "conversion function named by the property does not resolve")
			continue
		}
		r.OK("anchor", a.String(), p.Rel(fn.Pos()), "resolved")
		anchorFn[a.String()] = fn
		cl := w.Reachable([]*ssa.Function{fn}, func(f *ssa.Function) bool { return !p.InModule(f) || relPkg(p, f) == "logger" })
		closure[a.String()] = cl
		for _, f := range cl {
			if !inScope[f] {
				inScope[f] = true
				scope = append(scope, f)
			}
		}
	}
	r.Floor("anchor", len(c15Anchors))
	sort.Slice(scope, func(i, j int) bool { return scope[i].Pos() < scope[j].Pos() })
	var scopeNames []string
	for _, f := range scope {
		scopeNames = append(scopeNames, p.FuncName(f))
	}
	r.Extra["functions_in_scope"] = scopeNames

	c15Overflow(c, w, scope, closure)
	uses := c15Units(c, closure, anchorFn)
	c15Inverse(c, uses, anchorFn)
}

// ---------------------------------------------------------------- R1 ----

type c15AST struct{ byPos map[token.Pos]ast.Expr }

func c15Index(p *load.Program, fns []*ssa.Function) *c15AST {
	ai := &c15AST{byPos: map[token.Pos]ast.Expr{}}
	for _, fn := range fns {
		n := fn.Syntax()
		if n == nil {
			continue
		}
		ast.Inspect(n, func(n ast.Node) bool {
			switch x := n.(type) {
			case *ast.BinaryExpr:
				ai.byPos[x.OpPos] = x
			case *ast.UnaryExpr:
				ai.byPos[x.OpPos] = x
			case *ast.CallExpr:
				ai.byPos[x.Lparen] = x
			}
			return true
		})
	}
	return ai
}

func (ai *c15AST) render(in ssa.Instruction) string {
	if e, ok := ai.byPos[in.Pos()]; ok {
		s := types.ExprString(e)
		if len(s) > 110 {
			s = s[:107] + "..."
		}
		return s
	}
	s := in.String()
	if v, ok := in.(ssa.Value); ok {
		s = v.Name() + " = " + s
	}
	return s
}

func c15Overflow(c *Ctx, w *prove.World, scope []*ssa.Function, closure map[string][]*ssa.Function) {
	p, r := c.P, c.R
	ai := c15Index(p, scope)
	kinds := map[string]int{}
	usedNow := 0
	var siteLog []string
	sitesIn := map[*ssa.Function]int{}
	for _, fn := range scope {
		fname := p.FuncName(fn)
		for _, s := range w.OverflowSites(fn) {
			s := s
			sitesIn[fn]++
			construct := fname + ": " + ai.render(s.In)
			pos := p.Rel(s.In.Pos())
			kinds[s.Kind]++
			c.guard("overflow", construct, pos, func() {
				o := w.ProveOverflow(s)
				if o.UsedNow {
					usedNow++
				}
				if o.Proved {
					r.Add("overflow", construct, pos, report.Discharged, o.How+": "+strings.Join(o.Goals, " ∧ "), nil)
					siteLog = append(siteLog, "proved   "+construct+"  ["+o.How+": "+strings.Join(o.Goals, " ∧ ")+"]")
					return
				}
				msg := "may overflow (" + s.Kind + "): not entailed: " + o.Failed
				if o.Witness != "" {
					msg += "; witness: " + o.Witness
				}
				siteLog = append(siteLog, "UNPROVED "+construct+"  ["+msg+"]")
				r.Add("overflow", construct, pos, report.Finding, msg, map[string]any{"goals": o.Goals, "facts": o.Facts, "witness": o.Witness})
			})
		}
	}
	r.Extra["overflow_sites"] = siteLog
	r.Extra["overflow_sites_by_kind"] = kinds
	r.Extra["overflow_sites_using_clock_assumption"] = usedNow
	// The floor is keyed to the conversion functions, not to the number of
	// arithmetic instructions (which drops whenever duplicated code is merged
	// into a shared helper): every anchor must have at least one bound site in
	// its closure — a conversion that no longer computes anything the rule can
	// see is reported — and the total can never be below one per anchor.
	var names []string
	for a := range closure {
		names = append(names, a)
	}
	sort.Strings(names)
	for _, a := range names {
		n := 0
		for _, f := range closure[a] {
			n += sitesIn[f]
		}
		pos := ""
		if len(closure[a]) > 0 {
			pos = p.Rel(closure[a][0].Pos())
		}
		if n == 0 {
			r.Fail("overflow-cover", a+": arithmetic in scope", pos, "no 64-bit arithmetic, conversion or package-time call is bound in this conversion function or its in-module callees: the rule would pass vacuously")
		} else {
			r.OK("overflow-cover", a+": arithmetic in scope", pos, fmt.Sprintf("%d sites decided in its closure", n))
		}
	}
	r.Floor("overflow-cover", len(c15Anchors))
	r.Floor("overflow", len(c15Anchors))
}

// ---------------------------------------------------------------- R2 ----

// constant classes, by value
var (
	c15Scales = map[string]bool{"100": true, "1000": true, "10000": true, "1000000": true, "10000000": true, "1000000000": true}
	// epoch offsets → epoch identity
	c15Epochs = map[string]string{
		"116444736000000000": "1601", "11644473600": "1601",
		"122192928000000000": "1582", "12219292800": "1582",
	}
	c15Years = map[string]string{"1601": "1601", "1582": "1582", "1970": "1970"}
)

// c15Use is one constant use in a function body.
type c15Use struct {
	Role string // mul div add sub other year
	Val  string // decimal absolute value
	Pos  token.Pos
	Expr string
}

// Frozen by reading: anchor → the acceptable sets of role:value pairs of the
// arithmetic constants used by the function and its in-module callees. Two
// dimensionally correct readings exist for most functions: the nanosecond form
// (ticks·100 ↔ UnixNano, tick epoch) and the second/remainder form
// (ticks/1e7, (ticks%1e7)·100, second epoch); both are listed.
var c15Frozen = map[string][][]string{
	c15DS + ".NewFILETIMEFromTime": {
		{"add:116444736000000000", "div:100"},
		{"add:11644473600", "div:100", "mul:10000000"},
		{"add:116444736000000000", "div:100", "mul:10000000"}},
	c15DS + ".(FILETIME).ToInt64": {{}},
	c15DS + ".(FILETIME).GetTime": {
		{"mul:100", "sub:116444736000000000"},
		{"div:10000000", "mul:100", "sub:11644473600"}},
	c15DS + ".(FILETIME).GetUnixTimestamp": {
		{"mul:100", "sub:116444736000000000"},
		{"div:10000000", "mul:100", "sub:11644473600"},
		{"div:10000000", "sub:11644473600"}},
	c15LDAP + ".ConvertLDAPTimeStampToUnixTimeStamp": {
		{"mul:100", "sub:116444736000000000"},
		{"div:10000000", "sub:116444736000000000"},
		{"div:10000000", "sub:11644473600"}},
	c15LDAP + ".ConvertUnixTimeStampToLDAPTimeStamp": {
		{"add:116444736000000000", "mul:10000000"},
		{"add:11644473600", "mul:10000000"}},
	c15LDAP + ".ConvertLDAPDurationToSeconds": {{"div:10000000"}},
	c15LDAP + ".ConvertSecondsToLDAPDuration": {{"mul:10000000"}},
	c15KC + ".NewDateTime": {
		{"div:100", "mul:100"}, // epoch through time.Date(1601)/time.Date(1970)
		{"add:11644473600", "div:100", "div:10000000", "mul:100", "mul:10000000", "sub:11644473600"}},
	c15KC + ".ConvertToBinaryTime": {
		{"add:11644473600", "div:100", "mul:10000000"},
		{"add:116444736000000000", "div:100"}},
	c15KC + ".ConvertFromBinaryTime": {
		{"div:100", "mul:100"},
		{"add:11644473600", "div:100", "div:10000000", "mul:100", "mul:10000000", "sub:11644473600"},
		{"div:10000000", "mul:100", "sub:11644473600"}},
	c15U1 + ".(UUIDv1).GetTime": {
		{"mul:100", "sub:122192928000000000"},
		{"div:10000000", "mul:100", "sub:12219292800"}},
	c15U1 + ".(UUIDv1).SetTime": {
		{"add:122192928000000000", "div:100"},
		{"add:12219292800", "div:100", "mul:10000000"}},
	c15U2 + ".(UUIDv2).GetTime": {
		{"mul:100", "sub:122192928000000000"},
		{"div:10000000", "mul:100", "sub:12219292800"}},
	c15U2 + ".(UUIDv2).SetTime": {
		{"add:122192928000000000", "div:100"},
		{"add:12219292800", "div:100", "mul:10000000"}},
	c15NTLM + ".createNTLMv2Blob": {{"add:11644473600", "mul:10000000"}},
}

func c15Units(c *Ctx, closure map[string][]*ssa.Function, anchorFn map[string]*ssa.Function) map[string][]c15Use {
	p, r := c.P, c.R
	perFn := map[*ssa.Function][]c15Use{}
	defs := c15BuildConstDefs(p.Pkgs)
	collect := func(fn *ssa.Function) []c15Use {
		if u, ok := perFn[fn]; ok {
			return u
		}
		var us []c15Use
		if fd, ok := fn.Syntax().(*ast.FuncDecl); ok && fd.Body != nil && fn.Pkg != nil {
			if pk := p.ByPath[fn.Pkg.Pkg.Path()]; pk != nil {
				us = c15ConstUses(pk.TypesInfo, fd.Body, defs)
			}
		} else if fl, ok := fn.Syntax().(*ast.FuncLit); ok {
			root := fn
			for root.Parent() != nil {
				root = root.Parent()
			}
			if pk := p.ByPath[root.Pkg.Pkg.Path()]; pk != nil {
				us = c15ConstUses(pk.TypesInfo, fl.Body, defs)
			}
		}
		perFn[fn] = us
		return us
	}
	out := map[string][]c15Use{}
	var names []string
	for a := range closure {
		names = append(names, a)
	}
	sort.Strings(names)
	judged := map[*ssa.Function]bool{}
	table := map[string][]string{}
	for _, a := range names {
		var all []c15Use
		for _, fn := range closure[a] {
			us := collect(fn)
			all = append(all, us...)
			if judged[fn] {
				continue
			}
			judged[fn] = true
			// value membership, once per function
			fname := p.FuncName(fn)
			for _, u := range us {
				construct := fmt.Sprintf("%s: %s %s", fname, u.Role, u.Val)
				pos := p.Rel(u.Pos)
				ok, why := c15ValueAllowed(u)
				if ok {
					r.OK("units", construct, pos, why)
				} else {
					r.Fail("units", construct, pos, fmt.Sprintf("constant %s (in `%s`, role %s) is not a recognised unit scale, epoch offset, mask or type extreme: %s", u.Val, u.Expr, u.Role, why))
				}
			}
		}
		out[a] = all
		got := map[string]bool{}
		for _, u := range all {
			switch u.Role {
			case "mul", "div", "add", "sub":
				got[u.Role+":"+u.Val] = true
			}
		}
		var gl []string
		for k := range got {
			gl = append(gl, k)
		}
		sort.Strings(gl)
		table[a] = gl
		want, known := c15Frozen[a]
		construct := a + ": unit constants by role"
		pos := ""
		if fn := anchorFn[a]; fn != nil {
			pos = p.Rel(fn.Pos())
		}
		if !known {
			r.Undecided("units-table", construct, pos, "no frozen table row for this anchor")
			continue
		}
		match := false
		var alts []string
		for _, alt := range want {
			if strings.Join(gl, ",") == strings.Join(alt, ",") {
				match = true
			}
			alts = append(alts, "{"+strings.Join(alt, ", ")+"}")
		}
		if match {
			r.OK("units-table", construct, pos, "uses exactly {"+strings.Join(gl, ", ")+"}")
		} else {
			r.Fail("units-table", construct, pos, fmt.Sprintf("scale/epoch constants by role are {%s}; the table confirmed by reading accepts %s", strings.Join(gl, ", "), strings.Join(alts, " or ")))
		}
	}
	r.Extra["unit_constants_by_function"] = table
	r.Floor("units", 30)
	r.Floor("units-table", len(c15Anchors))
	return out
}

func c15ValueAllowed(u c15Use) (bool, string) {
	v := u.Val
	switch u.Role {
	case "mul", "div":
		if c15Scales[v] {
			return true, "unit scale"
		}
		return false, "factors and divisors must be one of 100, 1e3, 1e4, 1e6, 1e7, 1e9"
	case "add", "sub":
		if _, ok := c15Epochs[v]; ok {
			return true, "epoch offset"
		}
		return false, "offsets must be one of 11644473600, 116444736000000000, 12219292800, 122192928000000000"
	case "year":
		if _, ok := c15Years[v]; ok {
			return true, "epoch year"
		}
		if n, ok := newBig(v); ok && n.IsInt64() && n.Int64() >= 1678 && n.Int64() <= 2262 {
			return true, "calendar bound inside the int64-nanosecond window"
		}
		return false, "years passed to time.Date must be an epoch year (1582, 1601, 1970) or a bound inside 1678..2262"
	}
	if c15Scales[v] {
		return true, "unit scale"
	}
	if _, ok := c15Epochs[v]; ok {
		return true, "epoch offset"
	}
	if c15IsMask(v) {
		return true, "power-of-two mask / type extreme"
	}
	return false, "not derived from the unit table"
}

// c15IsMask: 2^k or 2^k-1 (k >= 10).
func c15IsMask(dec string) bool {
	n, ok := newBig(dec)
	if !ok || n.Sign() <= 0 {
		return false
	}
	for _, d := range []int64{0, 1} {
		m := bigAdd(n, d)
		if m.BitLen() >= 11 && bigIsPow2(m) {
			return true
		}
	}
	return false
}

// ---------------------------------------------------------------- R3 ----

type c15Pair struct {
	name       string
	tickToTime string // anchor
	timeToTick string
	epoch      string // "" = pure scale pair
	fBoth      bool   // tickToTime's closure also contains the other direction
}

var c15Pairs = []c15Pair{
	{"FILETIME", c15DS + ".(FILETIME).GetTime", c15DS + ".NewFILETIMEFromTime", "1601", false},
	{"LDAP timestamp", c15LDAP + ".ConvertLDAPTimeStampToUnixTimeStamp", c15LDAP + ".ConvertUnixTimeStampToLDAPTimeStamp", "1601", false},
	{"LDAP duration", c15LDAP + ".ConvertLDAPDurationToSeconds", c15LDAP + ".ConvertSecondsToLDAPDuration", "", false},
	{"key credential time", c15KC + ".ConvertFromBinaryTime", c15KC + ".ConvertToBinaryTime", "1601", true},
	{"UUIDv1 time", c15U1 + ".(UUIDv1).GetTime", c15U1 + ".(UUIDv1).SetTime", "1582", false},
	{"UUIDv2 time", c15U2 + ".(UUIDv2).GetTime", c15U2 + ".(UUIDv2).SetTime", "1582", false},
}

func c15Inverse(c *Ctx, uses map[string][]c15Use, anchorFn map[string]*ssa.Function) {
	r := c.R
	posOf := func(a string) string {
		if fn := anchorFn[a]; fn != nil {
			return c.P.Rel(fn.Pos())
		}
		return ""
	}
	type sets struct {
		mul, div      map[string]bool
		add, sub, any map[string]bool // epoch ids
	}
	mk := func(us []c15Use) sets {
		s := sets{map[string]bool{}, map[string]bool{}, map[string]bool{}, map[string]bool{}, map[string]bool{}}
		for _, u := range us {
			id := c15Epochs[u.Val]
			if u.Role == "year" {
				id = c15Years[u.Val]
			}
			switch u.Role {
			case "mul":
				s.mul[u.Val] = true
			case "div":
				s.div[u.Val] = true
			case "add":
				if id != "" {
					s.add[id] = true
				}
			case "sub":
				if id != "" {
					s.sub[id] = true
				}
			}
			if id != "" {
				s.any[id] = true
			}
		}
		return s
	}
	keys := func(m map[string]bool) string {
		var k []string
		for x := range m {
			k = append(k, x)
		}
		sort.Strings(k)
		return "{" + strings.Join(k, ", ") + "}"
	}
	for _, pr := range c15Pairs {
		fu, okF := uses[pr.tickToTime]
		gu, okG := uses[pr.timeToTick]
		if !okF || !okG {
			r.Undecided("inverse", pr.name+": pair", "", "a function of the pair does not resolve")
			continue
		}
		F, G := mk(fu), mk(gu)
		pF, pG := posOf(pr.tickToTime), posOf(pr.timeToTick)
		if pr.epoch != "" {
			con := fmt.Sprintf("%s: epoch %s subtracted by %s", pr.name, pr.epoch, pr.tickToTime)
			switch {
			case !F.any[pr.epoch]:
				r.Fail("inverse", con, pF, "the tick→time direction never mentions the "+pr.epoch+" epoch (offset constant or time.Date year)")
			case F.add[pr.epoch] && !F.sub[pr.epoch]:
				r.Fail("inverse", con, pF, "the tick→time direction ADDS the epoch offset it must subtract")
			default:
				r.OK("inverse", con, pF, "epoch ids: sub "+keys(F.sub)+" add "+keys(F.add))
			}
			con = fmt.Sprintf("%s: epoch %s added by %s", pr.name, pr.epoch, pr.timeToTick)
			switch {
			case !G.any[pr.epoch]:
				r.Fail("inverse", con, pG, "the time→tick direction never mentions the "+pr.epoch+" epoch: it cannot be the inverse of "+pr.tickToTime)
			case G.sub[pr.epoch] && !G.add[pr.epoch]:
				r.Fail("inverse", con, pG, "the time→tick direction SUBTRACTS the epoch offset it must add")
			default:
				r.OK("inverse", con, pG, "epoch ids: add "+keys(G.add)+" sub "+keys(G.sub))
			}
			// no foreign epoch
			con = fmt.Sprintf("%s: single epoch", pr.name)
			foreign := ""
			for id := range F.any {
				if id != pr.epoch && id != "1970" {
					foreign = id
				}
			}
			for id := range G.any {
				if id != pr.epoch && id != "1970" {
					foreign = id
				}
			}
			if foreign != "" {
				r.Fail("inverse", con, pG, "the pair mixes the "+pr.epoch+" epoch with the "+foreign+" epoch")
			} else {
				r.OK("inverse", con, pG, "only the "+pr.epoch+" epoch is used")
			}
		}
		con := fmt.Sprintf("%s: scale direction", pr.name)
		if pr.fBoth {
			// F's closure holds both directions: G must be one of them
			bad := ""
			for k := range G.mul {
				if !F.div[k] && !F.mul[k] {
					bad = k
				}
			}
			if bad != "" {
				r.Fail("inverse", con, pG, "time→tick multiplies by "+bad+", a scale the tick→time side never uses")
			} else {
				r.OK("inverse", con, pG, "time→tick mul "+keys(G.mul)+" div "+keys(G.div)+"; tick→time (both directions) mul "+keys(F.mul)+" div "+keys(F.div))
			}
			continue
		}
		var clash []string
		for k := range F.mul {
			if G.mul[k] {
				clash = append(clash, "both multiply by "+k)
			}
		}
		for k := range F.div {
			if G.div[k] {
				clash = append(clash, "both divide by "+k)
			}
		}
		sort.Strings(clash)
		if len(F.mul)+len(F.div) == 0 || len(G.mul)+len(G.div) == 0 {
			r.Fail("inverse", con, pG, "one direction applies no unit scale at all: tick→time mul "+keys(F.mul)+" div "+keys(F.div)+"; time→tick mul "+keys(G.mul)+" div "+keys(G.div))
		} else if len(clash) > 0 {
			r.Fail("inverse", con, pG, "the two directions apply a scale the same way round: "+strings.Join(clash, "; "))
		} else {
			r.OK("inverse", con, pG, "tick→time mul "+keys(F.mul)+" div "+keys(F.div)+"; time→tick mul "+keys(G.mul)+" div "+keys(G.div))
		}
	}
	var pairs []string
	for _, pr := range c15Pairs {
		pairs = append(pairs, fmt.Sprintf("%s: %s <-> %s (epoch %q)", pr.name, pr.tickToTime, pr.timeToTick, pr.epoch))
	}
	r.Extra["inverse_pairs"] = pairs
	r.Floor("inverse", 21)
}
