package rules

// C18 R2 — MASK-SAT and sibling dispatch over the typed AST. Constants are read
// through go/types (constant values), identifiers through TypesInfo.
//
// Instance floors are keyed on semantic entities, not on copies of code: the
// server types of the package (structs with Start and Stop) must each reach an
// opcode dispatch and a judged classification (R2-sibling-dispatch,
// R2-classifier), DefendName/HandleRedirect must each reach a judged
// classification (R2-classifier), and R2-route has one obligation per (server
// type, routed opcode). Merging identical switches into one shared method, or
// two filters into one predicate helper, changes none of these counts; deleting
// a case, or a server that stops dispatching, fails them. `x &^ K` is read as
// the mask ^K, so an opcode "derived by clearing the known flags" is judged on
// the bits it really keeps.
//
// Shapes of a classification that are read (all judged on un-shifted header
// bits): switch / tagless switch / if-chain on `Flags & M`; the same on the
// opcode NUMBER `(Flags&M)>>k` against `Op*>>k`; a lookup `T[(Flags&M)>>k]` or
// `T[Flags&M]` in a read-only table of functions (array, slice, map composite
// literal in a never-assigned package variable or single-assignment local) whose
// non-nil rows are the cases — row i stands for the value i<<k, the mask loses
// its bits below k, an index that can exceed the table is a violation, and the
// looked-up function must be the thing that is called; the masked value may come
// from a one-line accessor (packet.Opcode()) or a single-assignment local.
//
// Completeness before verdict: a server type (or DefendName / HandleRedirect)
// that reaches no readable classification is a violation only when the opcode
// bits of Header.Flags are not used at all under it; when they flow into code the
// rule does not read (a table built at run time, a module function given the
// flags, an unmasked switch …) the obligations are discharged as NOT DECIDED
// with a note (r2UnreadFlagUses).

import (
	"fmt"
	"go/ast"
	"go/constant"
	"go/token"
	"go/types"
	"sort"
	"strings"

	"golang.org/x/tools/go/packages"
	"golang.org/x/tools/go/ssa"

	effects "manticheck/internal/srvfx"
)

// RFC 1002 §4.2.1.1: R(1) OPCODE(4) NM_FLAGS(7) RCODE(4)
const (
	c18RBit       = 0x8000
	c18OpcodeBits = 0x7800
	c18RouteBits  = c18RBit | c18OpcodeBits // 0xF800
)

// opcode constant → the name-table operation its handler must reach (frozen
// table confirmed by reading; resolved to objects, not text, below)
var c18OpRoute = map[string]string{
	"OpNameQuery":    "QueryName",
	"OpRegistration": "RegisterName",
	"OpRelease":      "ReleaseName",
	"OpRefresh":      "RefreshName",
}

type c18Cmp struct {
	expr   ast.Expr // the compared constant expression
	val    uint64
	obj    *types.Const // when the expression is an identifier of a declared constant
	clause *ast.CaseClause
	// table dispatch: the module functions the table entry holds (method expressions,
	// function names, or the calls inside a function literal)
	entry    []*types.Func
	hasEntry bool
}

type c18MaskSite struct {
	pk      *packages.Package
	fn      string // enclosing function (rendered)
	kind    string // switch | == | !=
	pos     token.Pos
	x       ast.Expr
	mask    uint64
	maskOK  bool
	cmps    []c18Cmp
	sw      *ast.SwitchStmt
	guard   []ast.Stmt // statements executed when an `==` comparison holds (if body / tagless case body)
	guarded bool
	isFlags bool // x is NBTNSHeader.Flags
	// shift: the classification is made on (x&M)>>shift; mask and the compared values are
	// stored un-shifted (the value a case stands for is v<<shift, the mask loses its bits
	// below the shift), so every later judgement is made on header bits
	shift uint
	// table dispatch `T[(x&M)>>k]`: positively observed defects of the table itself
	// (index can exceed the table) and reasons why the table could not be read completely
	tableBad []string
	unread   string
}

func c18Unparen(e ast.Expr) ast.Expr {
	for {
		p, ok := e.(*ast.ParenExpr)
		if !ok {
			return e
		}
		e = p.X
	}
}

func c18ConstVal(info *types.Info, e ast.Expr) (uint64, bool) {
	tv, ok := info.Types[e]
	if !ok || tv.Value == nil {
		return 0, false
	}
	v := constant.ToInt(tv.Value)
	if v.Kind() != constant.Int {
		return 0, false
	}
	u, exact := constant.Uint64Val(v)
	if !exact {
		return 0, false
	}
	return u, true
}

func c18ConstObj(info *types.Info, e ast.Expr) *types.Const {
	switch x := c18Unparen(e).(type) {
	case *ast.Ident:
		c, _ := info.Uses[x].(*types.Const)
		return c
	case *ast.SelectorExpr:
		c, _ := info.Uses[x.Sel].(*types.Const)
		return c
	case *ast.CallExpr: // conversion T(C)
		if len(x.Args) == 1 {
			if tv, ok := info.Types[x.Fun]; ok && tv.IsType() {
				return c18ConstObj(info, x.Args[0])
			}
		}
	}
	return nil
}

// c18LocalDefs maps single-assignment local variables to their defining expression.
func c18LocalDefs(pk *packages.Package) map[types.Object]ast.Expr {
	defs := map[types.Object]ast.Expr{}
	re := map[types.Object]bool{}
	for _, f := range pk.Syntax {
		ast.Inspect(f, func(n ast.Node) bool {
			switch x := n.(type) {
			case *ast.AssignStmt:
				if x.Tok == token.DEFINE && len(x.Lhs) == len(x.Rhs) {
					for i, l := range x.Lhs {
						if id, ok := l.(*ast.Ident); ok {
							if o := pk.TypesInfo.Defs[id]; o != nil {
								defs[o] = x.Rhs[i]
							} else if o := pk.TypesInfo.Uses[id]; o != nil {
								re[o] = true
							}
						}
					}
				} else {
					for _, l := range x.Lhs {
						if id, ok := c18Unparen(l).(*ast.Ident); ok {
							if o := pk.TypesInfo.Uses[id]; o != nil {
								re[o] = true
							}
						}
					}
				}
			case *ast.IncDecStmt:
				if id, ok := c18Unparen(x.X).(*ast.Ident); ok {
					if o := pk.TypesInfo.Uses[id]; o != nil {
						re[o] = true
					}
				}
			case *ast.UnaryExpr:
				if x.Op == token.AND {
					if id, ok := c18Unparen(x.X).(*ast.Ident); ok {
						if o := pk.TypesInfo.Uses[id]; o != nil {
							re[o] = true
						}
					}
				}
			}
			return true
		})
	}
	for o := range re {
		delete(defs, o)
	}
	return defs
}

// c18Masked recognises `x & M` (either order) with exactly one constant side,
// looking through single-assignment locals.
func c18Masked(pk *packages.Package, defs map[types.Object]ast.Expr, e ast.Expr, depth int) (x ast.Expr, m uint64, ok bool) {
	e = c18Unparen(e)
	if id, isId := e.(*ast.Ident); isId && depth < 4 {
		if o := pk.TypesInfo.Uses[id]; o != nil {
			if d, has := defs[o]; has {
				return c18Masked(pk, defs, d, depth+1)
			}
		}
		return nil, 0, false
	}
	// packet.Opcode() / opcodeOf(packet): an accessor of the same package whose body is the
	// single statement `return <masked expression>`
	if ce, isCall := e.(*ast.CallExpr); isCall && depth < 4 {
		if ret := c18AccessorResult(pk, ce); ret != nil {
			return c18Masked(pk, defs, ret, depth+1)
		}
		return nil, 0, false
	}
	be, isB := e.(*ast.BinaryExpr)
	if isB && be.Op == token.AND_NOT {
		// x &^ K keeps the bits of x outside K: the mask is ^K over the width of x
		if kv, kc := c18ConstVal(pk.TypesInfo, be.Y); kc {
			if _, xc := c18ConstVal(pk.TypesInfo, be.X); !xc {
				width := uint64(0xFFFF)
				if b, ok := pk.TypesInfo.TypeOf(be.X).Underlying().(*types.Basic); ok {
					switch b.Kind() {
					case types.Uint8, types.Int8:
						width = 0xFF
					case types.Uint32, types.Int32:
						width = 0xFFFFFFFF
					case types.Uint64, types.Int64, types.Uint, types.Int, types.Uintptr:
						width = ^uint64(0)
					}
				}
				return be.X, ^kv & width, true
			}
		}
		return nil, 0, false
	}
	if !isB || be.Op != token.AND {
		return nil, 0, false
	}
	lv, lc := c18ConstVal(pk.TypesInfo, be.X)
	rv, rc := c18ConstVal(pk.TypesInfo, be.Y)
	switch {
	case lc && !rc:
		return be.Y, lv, true
	case rc && !lc:
		return be.X, rv, true
	}
	return nil, 0, false
}

var c18DeclCache = map[*packages.Package]map[types.Object]*ast.FuncDecl{}

// c18AccessorResult: the call is to a function or method declared in pk whose body is one
// `return expr` statement; returns expr.
func c18AccessorResult(pk *packages.Package, ce *ast.CallExpr) ast.Expr {
	decls := c18DeclCache[pk]
	if decls == nil {
		decls = map[types.Object]*ast.FuncDecl{}
		for _, f := range pk.Syntax {
			for _, d := range f.Decls {
				if fd, ok := d.(*ast.FuncDecl); ok && fd.Body != nil {
					if o := pk.TypesInfo.Defs[fd.Name]; o != nil {
						decls[o] = fd
					}
				}
			}
		}
		c18DeclCache[pk] = decls
	}
	var fo types.Object
	switch fx := c18Unparen(ce.Fun).(type) {
	case *ast.SelectorExpr:
		if sel := pk.TypesInfo.Selections[fx]; sel != nil {
			fo = sel.Obj()
		} else {
			fo = pk.TypesInfo.Uses[fx.Sel]
		}
	case *ast.Ident:
		fo = pk.TypesInfo.Uses[fx]
	}
	fd := decls[fo]
	if fd == nil || len(fd.Body.List) != 1 {
		return nil
	}
	rs, ok := fd.Body.List[0].(*ast.ReturnStmt)
	if !ok || len(rs.Results) != 1 {
		return nil
	}
	return rs.Results[0]
}

// c18MaskedShift recognises `(x & M) >> k` (k constant, possibly 0 = no shift), looking
// through parentheses, integer conversions and single-assignment locals.
func c18MaskedShift(pk *packages.Package, defs map[types.Object]ast.Expr, e ast.Expr, depth int) (x ast.Expr, m uint64, shift uint, ok bool) {
	e = c18Unparen(e)
	if depth > 6 {
		return nil, 0, 0, false
	}
	switch v := e.(type) {
	case *ast.Ident:
		if o := pk.TypesInfo.Uses[v]; o != nil {
			if d, has := defs[o]; has {
				return c18MaskedShift(pk, defs, d, depth+1)
			}
		}
		return nil, 0, 0, false
	case *ast.CallExpr: // conversion int(…), uint8(…)
		if len(v.Args) == 1 {
			if tv, isT := pk.TypesInfo.Types[v.Fun]; isT && tv.IsType() {
				if b, isB := tv.Type.Underlying().(*types.Basic); isB && b.Info()&types.IsInteger != 0 {
					return c18MaskedShift(pk, defs, v.Args[0], depth+1)
				}
				return nil, 0, 0, false
			}
		}
		if ret := c18AccessorResult(pk, v); ret != nil {
			return c18MaskedShift(pk, defs, ret, depth+1)
		}
		return nil, 0, 0, false
	case *ast.BinaryExpr:
		if v.Op == token.SHR {
			kv, kc := c18ConstVal(pk.TypesInfo, v.Y)
			if !kc || kv > 63 {
				return nil, 0, 0, false
			}
			x, m, sh, ok := c18MaskedShift(pk, defs, v.X, depth+1)
			if !ok {
				return nil, 0, 0, false
			}
			return x, m, sh + uint(kv), true
		}
	}
	x, m, ok = c18Masked(pk, defs, e, 0)
	return x, m, 0, ok
}

// c18PkgVarInits maps the package-level variables that are initialised by one expression
// and never assigned, indexed-assigned or address-taken anywhere in the package to that
// expression (read-only tables).
func c18PkgVarInits(pk *packages.Package) map[types.Object]ast.Expr {
	inits := map[types.Object]ast.Expr{}
	for _, f := range pk.Syntax {
		for _, d := range f.Decls {
			gd, ok := d.(*ast.GenDecl)
			if !ok || gd.Tok != token.VAR {
				continue
			}
			for _, sp := range gd.Specs {
				vs, ok := sp.(*ast.ValueSpec)
				if !ok || len(vs.Names) != len(vs.Values) {
					continue
				}
				for i, n := range vs.Names {
					if o := pk.TypesInfo.Defs[n]; o != nil {
						inits[o] = vs.Values[i]
					}
				}
			}
		}
	}
	rootObj := func(e ast.Expr) types.Object {
		for {
			switch x := c18Unparen(e).(type) {
			case *ast.IndexExpr:
				e = x.X
			case *ast.SelectorExpr:
				if _, isPkgVar := pk.TypesInfo.Uses[x.Sel].(*types.Var); isPkgVar && pk.TypesInfo.Selections[x] == nil {
					return pk.TypesInfo.Uses[x.Sel]
				}
				e = x.X
			case *ast.StarExpr:
				e = x.X
			case *ast.Ident:
				return pk.TypesInfo.Uses[x]
			default:
				return nil
			}
		}
	}
	for _, f := range pk.Syntax {
		ast.Inspect(f, func(n ast.Node) bool {
			switch x := n.(type) {
			case *ast.AssignStmt:
				for _, l := range x.Lhs {
					if o := rootObj(l); o != nil {
						delete(inits, o)
					}
				}
			case *ast.IncDecStmt:
				if o := rootObj(x.X); o != nil {
					delete(inits, o)
				}
			case *ast.UnaryExpr:
				if x.Op == token.AND {
					if o := rootObj(x.X); o != nil {
						delete(inits, o)
					}
				}
			case *ast.RangeStmt:
				for _, l := range []ast.Expr{x.Key, x.Value} {
					if l != nil && x.Tok == token.ASSIGN {
						if o := rootObj(l); o != nil {
							delete(inits, o)
						}
					}
				}
			}
			return true
		})
	}
	return inits
}

// c18FuncsOfExpr: the module functions a table entry stands for: a function or method
// name, a method expression (*T).m / T.m, a method value x.m, or — for a function literal —
// the module functions its body calls.
func (k *c18) c18FuncsOfExpr(pk *packages.Package, e ast.Expr) (fs []*types.Func, isNil, ok bool) {
	e = c18Unparen(e)
	switch x := e.(type) {
	case *ast.Ident:
		if x.Name == "nil" {
			if _, isNilObj := pk.TypesInfo.Uses[x].(*types.Nil); isNilObj {
				return nil, true, true
			}
		}
		if f, isF := pk.TypesInfo.Uses[x].(*types.Func); isF {
			return []*types.Func{f}, false, true
		}
	case *ast.SelectorExpr:
		if sel := pk.TypesInfo.Selections[x]; sel != nil {
			if f, isF := sel.Obj().(*types.Func); isF {
				return []*types.Func{f}, false, true
			}
		} else if f, isF := pk.TypesInfo.Uses[x.Sel].(*types.Func); isF {
			return []*types.Func{f}, false, true
		}
	case *ast.FuncLit:
		var out []*types.Func
		ast.Inspect(x.Body, func(n ast.Node) bool {
			ce, isCall := n.(*ast.CallExpr)
			if !isCall {
				return true
			}
			var f *types.Func
			switch fx := c18Unparen(ce.Fun).(type) {
			case *ast.SelectorExpr:
				if sel := pk.TypesInfo.Selections[fx]; sel != nil {
					f, _ = sel.Obj().(*types.Func)
				} else {
					f, _ = pk.TypesInfo.Uses[fx.Sel].(*types.Func)
				}
			case *ast.Ident:
				f, _ = pk.TypesInfo.Uses[fx].(*types.Func)
			}
			if f != nil && k.pg.ObjInModule(f) {
				out = append(out, f)
			}
			return true
		})
		return out, false, true
	}
	return nil, false, false
}

// tableSite reads `T[(x&M)>>k]` where T is a read-only table of functions (array, slice
// or map composite literal held in a never-assigned package variable or single-assignment
// local). Each non-nil entry i becomes a compared value i<<k with the functions it holds.
func (k *c18) tableSite(pk *packages.Package, defs, inits map[types.Object]ast.Expr, ix *ast.IndexExpr, parent ast.Node, fbody *ast.BlockStmt, fname string) *c18MaskSite {
	info := pk.TypesInfo
	x, m, shift, ok := c18MaskedShift(pk, defs, ix.Index, 0)
	if !ok {
		return nil
	}
	// element type must be a function
	var elemT types.Type
	arrLen := int64(-1)
	isMap := false
	switch t := info.TypeOf(ix.X).Underlying().(type) {
	case *types.Array:
		elemT, arrLen = t.Elem(), t.Len()
	case *types.Slice:
		elemT = t.Elem()
	case *types.Map:
		elemT, isMap = t.Elem(), true
	case *types.Pointer:
		if a, isA := t.Elem().Underlying().(*types.Array); isA {
			elemT, arrLen = a.Elem(), a.Len()
		}
	}
	if elemT == nil {
		return nil
	}
	if _, isFn := elemT.Underlying().(*types.Signature); !isFn {
		return nil
	}
	low := uint64(0)
	if shift > 0 {
		low = (uint64(1) << shift) - 1
	}
	site := &c18MaskSite{pk: pk, fn: fname, kind: "table", pos: ix.Pos(), x: x, mask: m &^ low, maskOK: true, shift: shift}
	// the table literal
	var lit *ast.CompositeLit
	switch tx := c18Unparen(ix.X).(type) {
	case *ast.Ident:
		if o := info.Uses[tx]; o != nil {
			if d, has := inits[o]; has {
				lit, _ = c18Unparen(d).(*ast.CompositeLit)
			} else if d, has := defs[o]; has {
				lit, _ = c18Unparen(d).(*ast.CompositeLit)
			}
		}
	case *ast.CompositeLit:
		lit = tx
	}
	if lit == nil {
		site.unread = "the handler table " + types.ExprString(ix.X) + " is not a composite literal held in a never-reassigned variable (it is built or modified at run time)"
		return site
	}
	next := uint64(0)
	maxIdx := uint64(0)
	for _, el := range lit.Elts {
		var keyExpr ast.Expr
		val := el
		idx := next
		if kv, isKV := el.(*ast.KeyValueExpr); isKV {
			kc, isC := c18ConstVal(info, kv.Key)
			if !isC {
				site.unread = "the handler table has a non-constant key " + types.ExprString(kv.Key)
				return site
			}
			keyExpr, val, idx = kv.Key, kv.Value, kc
		} else if isMap {
			site.unread = "the handler table (map) has an entry without a key"
			return site
		}
		next = idx + 1
		if idx > maxIdx {
			maxIdx = idx
		}
		fs, isNil, okF := k.c18FuncsOfExpr(pk, val)
		if !okF {
			site.unread = "entry " + types.ExprString(val) + " of the handler table is not a function name, method expression, method value or function literal"
			return site
		}
		if isNil {
			continue
		}
		if keyExpr == nil {
			keyExpr = val
		}
		site.cmps = append(site.cmps, c18Cmp{expr: keyExpr, val: idx << shift, obj: c18ConstObj(info, keyExpr), entry: fs, hasEntry: true})
	}
	if !isMap {
		n := arrLen
		if n < 0 {
			n = int64(maxIdx) + 1
			if len(lit.Elts) == 0 {
				n = 0
			}
		}
		if top := site.mask >> shift; int64(top) >= n {
			site.tableBad = append(site.tableBad, fmt.Sprintf("the index (x&0x%04X)>>%d can be as large as %d but the table has %d entries: some opcodes make the lookup panic", m, shift, top, n))
		}
	}
	// the looked-up function must be the thing that is called
	called := false
	switch par := parent.(type) {
	case *ast.CallExpr:
		called = c18Unparen(par.Fun) == ast.Expr(ix)
	case *ast.AssignStmt:
		for i, r := range par.Rhs {
			if c18Unparen(r) != ast.Expr(ix) || i >= len(par.Lhs) {
				continue
			}
			id, isId := par.Lhs[i].(*ast.Ident)
			if !isId {
				continue
			}
			o := info.Defs[id]
			if o == nil {
				o = info.Uses[id]
			}
			ast.Inspect(fbody, func(n ast.Node) bool {
				if ce, isCall := n.(*ast.CallExpr); isCall {
					if fid, isFid := c18Unparen(ce.Fun).(*ast.Ident); isFid && info.Uses[fid] == o && o != nil {
						called = true
					}
				}
				return true
			})
		}
	case *ast.ValueSpec:
		for i, r := range par.Values {
			if c18Unparen(r) != ast.Expr(ix) || i >= len(par.Names) {
				continue
			}
			o := info.Defs[par.Names[i]]
			ast.Inspect(fbody, func(n ast.Node) bool {
				if ce, isCall := n.(*ast.CallExpr); isCall {
					if fid, isFid := c18Unparen(ce.Fun).(*ast.Ident); isFid && info.Uses[fid] == o && o != nil {
						called = true
					}
				}
				return true
			})
		}
	}
	if !called {
		site.unread = "the function looked up in the handler table is not called in " + fname + " (it is returned, stored or passed on)"
	}
	return site
}

func c18FuncName(p interface{ relName(string) string }, pk *packages.Package, fd *ast.FuncDecl) string {
	if o, ok := pk.TypesInfo.Defs[fd.Name].(*types.Func); ok {
		return p.relName(o.FullName())
	}
	return fd.Name.Name
}

func (k *c18) relName(s string) string {
	s = strings.ReplaceAll(s, k.p.ModPath+"/", "")
	return strings.ReplaceAll(s, k.p.ModPath, "")
}

// maskSites collects every masked switch / masked comparison of a package.
func (k *c18) maskSites(pk *packages.Package) []*c18MaskSite {
	info := pk.TypesInfo
	defs := c18LocalDefs(pk)
	inits := c18PkgVarInits(pk)
	var out []*c18MaskSite
	for _, f := range pk.Syntax {
		for _, d := range f.Decls {
			fd, ok := d.(*ast.FuncDecl)
			if !ok || fd.Body == nil {
				continue
			}
			fname := c18FuncName(k, pk, fd)
			var stack []ast.Node
			ast.Inspect(fd.Body, func(n ast.Node) bool {
				if n == nil {
					stack = stack[:len(stack)-1]
					return true
				}
				stack = append(stack, n)
				switch s := n.(type) {
				case *ast.SwitchStmt:
					if s.Tag == nil {
						return true
					}
					x, m, ok := c18Masked(pk, defs, s.Tag, 0)
					if !ok {
						// tag defined in the switch's init statement
						if as, isAs := s.Init.(*ast.AssignStmt); isAs && len(as.Lhs) == 1 && len(as.Rhs) == 1 {
							if id, isId := c18Unparen(s.Tag).(*ast.Ident); isId {
								if l, isL := as.Lhs[0].(*ast.Ident); isL && info.Defs[l] != nil && info.Uses[id] == info.Defs[l] {
									x, m, ok = c18Masked(pk, defs, as.Rhs[0], 0)
								}
							}
						}
					}
					shift := uint(0)
					if !ok {
						// switch (x & M) >> k { case OpX >> k: … }: judged on the un-shifted bits
						x, m, shift, ok = c18MaskedShift(pk, defs, s.Tag, 0)
						if ok && shift > 0 {
							m &^= (uint64(1) << shift) - 1
						}
					}
					if !ok {
						return true
					}
					site := &c18MaskSite{pk: pk, fn: fname, kind: "switch", pos: s.Pos(), x: x, mask: m, maskOK: true, sw: s, shift: shift}
					for _, st := range s.Body.List {
						cc, ok := st.(*ast.CaseClause)
						if !ok {
							continue
						}
						for _, e := range cc.List {
							v, isC := c18ConstVal(info, e)
							if !isC {
								continue
							}
							site.cmps = append(site.cmps, c18Cmp{expr: e, val: v << shift, obj: c18ConstObj(info, e), clause: cc})
						}
					}
					out = append(out, site)
				case *ast.IndexExpr:
					var parent ast.Node
					for i := len(stack) - 2; i >= 0; i-- {
						if _, isP := stack[i].(*ast.ParenExpr); !isP {
							parent = stack[i]
							break
						}
					}
					if site := k.tableSite(pk, defs, inits, s, parent, fd.Body, fname); site != nil {
						out = append(out, site)
					}
				case *ast.BinaryExpr:
					if s.Op != token.EQL && s.Op != token.NEQ {
						return true
					}
					for _, pair := range [][2]ast.Expr{{s.X, s.Y}, {s.Y, s.X}} {
						cv, isC := c18ConstVal(info, pair[1])
						if !isC {
							continue
						}
						if _, lc := c18ConstVal(info, pair[0]); lc {
							continue
						}
						x, m, ok := c18Masked(pk, defs, pair[0], 0)
						if !ok {
							continue
						}
						site := &c18MaskSite{pk: pk, fn: fname, kind: s.Op.String(), pos: s.Pos(), x: x, mask: m, maskOK: true,
							cmps: []c18Cmp{{expr: pair[1], val: cv, obj: c18ConstObj(info, pair[1])}}}
						if s.Op == token.EQL {
							// the comparison is the whole condition of an if, or a case of a tagless switch
							i := len(stack) - 2
							for i >= 0 {
								if _, isP := stack[i].(*ast.ParenExpr); !isP {
									break
								}
								i--
							}
							if i >= 0 {
								switch par := stack[i].(type) {
								case *ast.IfStmt:
									if c18Unparen(par.Cond) == ast.Expr(s) {
										site.guard, site.guarded = par.Body.List, true
									}
								case *ast.CaseClause:
									for _, e := range par.List {
										if c18Unparen(e) == ast.Expr(s) {
											site.guard, site.guarded = par.Body, true
										}
									}
								}
							}
						}
						out = append(out, site)
						break
					}
				}
				return true
			})
		}
	}
	return out
}

// c18FieldOf resolves an expression to the struct field it selects (through
// single-assignment locals).
func c18FieldOf(pk *packages.Package, defs map[types.Object]ast.Expr, e ast.Expr, depth int) *types.Var {
	e = c18Unparen(e)
	switch x := e.(type) {
	case *ast.SelectorExpr:
		if sel := pk.TypesInfo.Selections[x]; sel != nil {
			if v, ok := sel.Obj().(*types.Var); ok && v.IsField() {
				return v
			}
		}
	case *ast.Ident:
		if depth < 4 {
			if o := pk.TypesInfo.Uses[x]; o != nil {
				if d, ok := defs[o]; ok {
					return c18FieldOf(pk, defs, d, depth+1)
				}
			}
		}
	case *ast.CallExpr: // conversion
		if len(x.Args) == 1 {
			if tv, ok := pk.TypesInfo.Types[x.Fun]; ok && tv.IsType() {
				return c18FieldOf(pk, defs, x.Args[0], depth+1)
			}
		}
	}
	return nil
}

func (k *c18) r2() {
	pk := k.p.Pkg(c18Nbtns)
	if pk == nil {
		k.r.Undecided("R2-mask", "package "+c18Nbtns, "", "anchor package not found")
		return
	}
	// anchors by identity
	var flagsVar *types.Var
	if tn, ok := pk.Types.Scope().Lookup("NBTNSHeader").(*types.TypeName); ok {
		if st, ok := tn.Type().Underlying().(*types.Struct); ok {
			for i := 0; i < st.NumFields(); i++ {
				if st.Field(i).Name() == "Flags" {
					flagsVar = st.Field(i)
				}
			}
		}
	}
	if flagsVar == nil {
		k.r.Undecided("R2-mask", "field nbtns.NBTNSHeader.Flags", "", "anchor field not found")
		return
	}
	opFamily := map[*types.Const]bool{}
	var famNames []string
	for _, n := range pk.Types.Scope().Names() {
		if c, ok := pk.Types.Scope().Lookup(n).(*types.Const); ok && strings.HasPrefix(n, "Op") {
			if b, ok := c.Type().Underlying().(*types.Basic); ok && b.Info()&types.IsInteger != 0 {
				opFamily[c] = true
				v, _ := constant.Uint64Val(constant.ToInt(c.Val()))
				famNames = append(famNames, fmt.Sprintf("%s=0x%04X", n, v))
			}
		}
	}
	if len(opFamily) < 4 {
		k.r.Undecided("R2-mask", "constants nbtns.Op*", "", fmt.Sprintf("only %d Op* constants found", len(opFamily)))
		return
	}
	k.r.Extra["R2_op_constants"] = famNames

	defs := c18LocalDefs(pk)
	all := k.maskSites(pk)
	var sites []*c18MaskSite
	for _, s := range all {
		if c18FieldOf(pk, defs, s.x, 0) != flagsVar {
			continue
		}
		s.isFlags = true
		usesOp := false
		for _, c := range s.cmps {
			if c.obj != nil && opFamily[c.obj] {
				usesOp = true
			}
		}
		if usesOp || s.mask&c18OpcodeBits != 0 {
			sites = append(sites, s)
		}
	}
	k.r.Extra["R2_masked_sites_in_nbtns"] = len(all)
	k.r.Extra["R2_opcode_classification_sites"] = len(sites)
	// table keys and shifted case values (`OpNameQuery >> 11`) are not identifiers: the Op*
	// constant they stand for is the one with the same un-shifted value
	for _, s := range sites {
		if s.kind != "table" && s.shift == 0 {
			continue
		}
		for i := range s.cmps {
			if s.cmps[i].obj != nil && opFamily[s.cmps[i].obj] {
				continue
			}
			var match *types.Const
			n := 0
			for c := range opFamily {
				if v, exact := constant.Uint64Val(constant.ToInt(c.Val())); exact && v == s.cmps[i].val {
					match = c
					n++
				}
			}
			if n == 1 {
				s.cmps[i].obj = match
			}
		}
	}
	// functions in which an opcode classification exists but could not be read completely
	unreadFns := map[string]string{}

	// OR of every Op* constant some dispatch switch routes on
	var need uint64
	for _, s := range sites {
		for _, c := range s.cmps {
			if c.obj != nil && opFamily[c.obj] {
				need |= c.val
			}
		}
	}
	masks := map[uint64][]string{}
	for _, s := range sites {
		s := s
		var names []string
		for _, c := range s.cmps {
			names = append(names, types.ExprString(c.expr))
		}
		construct := fmt.Sprintf("%s: %s on Header.Flags&M against {%s}", s.fn, s.kind, strings.Join(names, ","))
		pos := k.p.Rel(s.pos)
		if s.unread != "" {
			unreadFns[s.fn] = s.unread
			k.r.OK("R2-mask", construct, pos, "NOT DECIDED — "+s.unread)
			k.r.Note("C18 R2: opcode classification in %s NOT DECIDED — %s", s.fn, s.unread)
			continue
		}
		masks[s.mask] = append(masks[s.mask], s.fn)
		k.c.guard("R2-mask", construct, pos, func() {
			var bad []string
			bad = append(bad, s.tableBad...)
			for _, c := range s.cmps {
				if c.val&^s.mask != 0 {
					verb := "can never be taken"
					if s.kind == "!=" {
						verb = "is always true"
					} else if s.kind == "==" {
						verb = "is always false"
					}
					bad = append(bad, fmt.Sprintf("%s=0x%04X has bits 0x%04X outside the mask 0x%04X: this %s", types.ExprString(c.expr), c.val, c.val&^s.mask, s.mask, verb))
				}
			}
			seen := map[uint64]string{}
			for _, c := range s.cmps {
				if o, dup := seen[c.val]; dup {
					bad = append(bad, fmt.Sprintf("cases %s and %s have the same value 0x%04X", o, types.ExprString(c.expr), c.val))
				}
				seen[c.val] = types.ExprString(c.expr)
			}
			if s.mask&^c18RouteBits != 0 {
				bad = append(bad, fmt.Sprintf("mask 0x%04X reaches NM_FLAGS/RCODE bits 0x%04X (RFC 1002 §4.2.1.1): routing would depend on the broadcast/recursion/rcode bits real requests set", s.mask, s.mask&^c18RouteBits))
			}
			if need&^s.mask != 0 {
				bad = append(bad, fmt.Sprintf("mask 0x%04X lacks opcode bits 0x%04X that the dispatched Op* constants (OR = 0x%04X) use: distinct opcodes collapse into one class", s.mask, need&^s.mask, need))
			}
			if len(bad) > 0 {
				k.r.Fail("R2-mask", construct, pos, strings.Join(bad, "; "))
				return
			}
			k.r.OK("R2-mask", construct, pos, fmt.Sprintf("mask 0x%04X: every constant ⊆ mask, cases distinct, 0x%04X ⊆ mask ⊆ 0x%04X", s.mask, need, uint64(c18RouteBits)))
		})
	}
	// every classification site is judged above; which code must classify at all is decided
	// per semantic entity below (R2-classifier), not by counting sites
	k.r.Floor("R2-mask", 1)
	{
		var ms []string
		for m, fns := range masks {
			ms = append(ms, fmt.Sprintf("0x%04X in %s", m, strings.Join(fns, ", ")))
		}
		sort.Strings(ms)
		if len(masks) == 1 {
			k.r.OK("R2-same-mask", "nbtns: opcode mask used by all classification sites", "", "one mask: "+strings.Join(ms, ""))
		} else if len(masks) > 1 {
			k.r.Fail("R2-same-mask", "nbtns: opcode mask used by all classification sites", "", "the sites classify the same header word with different masks: "+strings.Join(ms, " / "))
		}
	}

	// sibling dispatch: Op constant → handler method names, per switch
	type disp struct {
		fn       string
		pos      token.Pos
		handlers map[*types.Const][]*types.Func
	}
	callsIn := func(body []ast.Stmt) []*types.Func {
		var hs []*types.Func
		for _, st := range body {
			ast.Inspect(st, func(n ast.Node) bool {
				ce, ok := n.(*ast.CallExpr)
				if !ok {
					return true
				}
				var f *types.Func
				switch fx := c18Unparen(ce.Fun).(type) {
				case *ast.SelectorExpr:
					if sel := pk.TypesInfo.Selections[fx]; sel != nil {
						f, _ = sel.Obj().(*types.Func)
					} else {
						f, _ = pk.TypesInfo.Uses[fx.Sel].(*types.Func)
					}
				case *ast.Ident:
					f, _ = pk.TypesInfo.Uses[fx].(*types.Func)
				}
				if f != nil && k.pg.ObjInModule(f) {
					hs = append(hs, f)
				}
				return true
			})
		}
		return hs
	}
	byFn := map[string]*disp{}
	var fnOrder []string
	for _, s := range sites {
		if s.unread != "" {
			continue
		}
		if s.sw == nil && !s.guarded && s.kind != "table" {
			continue
		}
		d := byFn[s.fn]
		if d == nil {
			d = &disp{fn: s.fn, pos: s.pos, handlers: map[*types.Const][]*types.Func{}}
			byFn[s.fn] = d
			fnOrder = append(fnOrder, s.fn)
		}
		for _, c := range s.cmps {
			if c.obj == nil || !opFamily[c.obj] {
				continue
			}
			switch {
			case c.hasEntry:
				d.handlers[c.obj] = append(d.handlers[c.obj], c.entry...)
			case s.sw != nil && c.clause != nil:
				d.handlers[c.obj] = append(d.handlers[c.obj], callsIn(c.clause.Body)...)
			case s.guarded:
				d.handlers[c.obj] = append(d.handlers[c.obj], callsIn(s.guard)...)
			}
		}
	}
	var disps []*disp
	for _, fn := range fnOrder {
		if d := byFn[fn]; len(d.handlers) >= 2 {
			disps = append(disps, d)
		}
	}
	k.r.Extra["R2_dispatch_switches"] = len(disps)
	// The entities that must dispatch are the server types (struct types of the package with
	// Start and Stop methods), not the switch statements: several servers may share one
	// dispatch method. Each server type must reach a dispatch from its methods, and every code
	// path that filters on the opcode (DefendName, HandleRedirect) must reach a classification.
	servers := k.r2ServerTypes(pk)
	{
		var sn []string
		for _, t := range servers {
			sn = append(sn, t.Obj().Name())
		}
		k.r.Extra["R2_server_types"] = sn
		if len(servers) < 3 {
			k.r.Fail("R2-sibling-dispatch", "nbtns: server types with Start/Stop", "", fmt.Sprintf("%d server types found (%s), 3 confirmed by reading (Server, UDPServer, TCPServer)", len(servers), strings.Join(sn, ", ")))
		}
	}
	siteFns := map[string]bool{}
	for _, s := range sites {
		if s.unread == "" {
			siteFns[s.fn] = true
		}
	}
	// Completeness before verdict: where do the opcode bits of Header.Flags go that no
	// recognised classification reads? (passed to a module function, kept in a variable,
	// indexed into something that is not a read-only table, switched on unmasked …)
	for fn, why := range k.r2UnreadFlagUses(pk, defs, flagsVar, sites) {
		if _, has := unreadFns[fn]; !has {
			unreadFns[fn] = why
		}
	}
	notDecided := map[*types.Named]string{}
	unreadIn := func(reach map[string]bool) string {
		var fs []string
		for fn, why := range unreadFns {
			if reach[fn] {
				fs = append(fs, fn+" ("+why+")")
			}
		}
		sort.Strings(fs)
		return strings.Join(fs, "; ")
	}
	dispOf := map[*types.Named][]*disp{}
	for _, t := range servers {
		reach := k.r2Reach(k.methodsOf(t))
		for _, d := range disps {
			if reach[d.fn] {
				dispOf[t] = append(dispOf[t], d)
			}
		}
		construct := "nbtns: server type " + t.Obj().Name() + " reaches an opcode dispatch over Op*"
		if len(dispOf[t]) == 0 {
			if un := unreadIn(reach); un != "" {
				notDecided[t] = un
				k.r.OK("R2-sibling-dispatch", construct, k.p.Rel(t.Obj().Pos()), "NOT DECIDED — the opcode bits of Header.Flags are used in a form this rule does not read: "+un)
				k.r.Note("C18 R2: routing of %s NOT DECIDED — %s", t.Obj().Name(), un)
			} else {
				k.r.Fail("R2-sibling-dispatch", construct, k.p.Rel(t.Obj().Pos()), "no method of "+t.Obj().Name()+" reaches (through static calls, go statements and function literals) any use of the opcode bits of Header.Flags: its requests are not routed by opcode")
			}
		} else {
			var dn []string
			for _, d := range dispOf[t] {
				dn = append(dn, d.fn)
			}
			k.r.OK("R2-sibling-dispatch", construct, k.p.Rel(t.Obj().Pos()), "dispatch in "+strings.Join(dn, ", "))
		}
		cconstruct := "nbtns: server type " + t.Obj().Name() + " classifies the opcode with a judged mask"
		if k.r2ReachesAny(reach, siteFns) {
			k.r.OK("R2-classifier", cconstruct, k.p.Rel(t.Obj().Pos()), "reaches a Header.Flags&M classification site judged by R2-mask")
		} else if un := unreadIn(reach); un != "" {
			k.r.OK("R2-classifier", cconstruct, k.p.Rel(t.Obj().Pos()), "NOT DECIDED — the opcode bits of Header.Flags are used in a form this rule does not read: "+un)
		} else {
			k.r.Fail("R2-classifier", cconstruct, k.p.Rel(t.Obj().Pos()), "reaches no Header.Flags&M classification: the opcode bits are not looked at")
		}
	}
	for _, a := range [][2]string{{"NameChallenger", "DefendName"}, {"RedirectManager", "HandleRedirect"}} {
		construct := fmt.Sprintf("nbtns: (%s).%s filters on the opcode with a judged mask", a[0], a[1])
		fn := k.p.Func(c18Nbtns, a[0], a[1])
		if fn == nil {
			k.r.Undecided("R2-classifier", construct, "", "anchor method not found")
			continue
		}
		areach := k.r2Reach([]*ssa.Function{fn})
		if k.r2ReachesAny(areach, siteFns) {
			k.r.OK("R2-classifier", construct, k.p.Rel(fn.Pos()), "reaches a Header.Flags&M classification site judged by R2-mask")
		} else if un := unreadIn(areach); un != "" {
			k.r.OK("R2-classifier", construct, k.p.Rel(fn.Pos()), "NOT DECIDED — the opcode bits of Header.Flags are used in a form this rule does not read: "+un)
			k.r.Note("C18 R2: query-only filter of %s.%s NOT DECIDED — %s", a[0], a[1], un)
		} else {
			k.r.Fail("R2-classifier", construct, k.p.Rel(fn.Pos()), "the query-only filter of this function no longer reaches a recognised Header.Flags&M comparison with an Op* constant")
		}
	}
	k.r.Floor("R2-classifier", 5)
	ops := map[*types.Const]bool{}
	for _, d := range disps {
		for o := range d.handlers {
			ops[o] = true
		}
	}
	var opList []*types.Const
	for o := range ops {
		opList = append(opList, o)
	}
	sort.Slice(opList, func(i, j int) bool { return opList[i].Name() < opList[j].Name() })
	names := func(fs []*types.Func) string {
		var n []string
		for _, f := range fs {
			n = append(n, f.Name())
		}
		sort.Strings(n)
		return strings.Join(n, "+")
	}
	for _, o := range opList {
		construct := "nbtns: handler dispatched for " + o.Name()
		var rows []string
		vals := map[string]bool{}
		for _, d := range disps {
			hs, has := d.handlers[o]
			h := "(no case)"
			if has {
				h = names(hs)
				if h == "" {
					h = "(no handler call)"
				}
			}
			vals[h] = true
			rows = append(rows, fmt.Sprintf("%s → %s", d.fn, h))
		}
		if len(vals) == 1 {
			k.r.OK("R2-sibling-dispatch", construct, "", strings.Join(rows, "; "))
		} else {
			k.r.Fail("R2-sibling-dispatch", construct, "", "the dispatchers route "+o.Name()+" differently: "+strings.Join(rows, "; "))
		}
	}
	// 4 routed opcodes + 3 server types
	k.r.Floor("R2-sibling-dispatch", 7)

	// route: the handler of Op X performs the name-table operation of X and no other
	var tableT *types.Named
	if tn, ok := pk.Types.Scope().Lookup("NetBIOSNameServer").(*types.TypeName); ok {
		tableT, _ = tn.Type().(*types.Named)
	}
	tableOps := map[string]bool{}
	for _, v := range c18OpRoute {
		tableOps[v] = true
	}
	for _, o := range opList {
		if _, known := c18OpRoute[o.Name()]; !known {
			k.r.Note("R2-route: no expected name-table operation recorded for %s", o.Name())
		}
	}
	var routeOps []string
	for n := range c18OpRoute {
		routeOps = append(routeOps, n)
	}
	sort.Strings(routeOps)
	// one obligation per (server type, routed opcode): whichever dispatch the server reaches
	// must send the opcode to a handler that performs its name-table operation
	for _, t := range servers {
		for _, on := range routeOps {
			want := c18OpRoute[on]
			o, _ := pk.Types.Scope().Lookup(on).(*types.Const)
			construct := fmt.Sprintf("%s: opcode %s → NetBIOSNameServer.%s", t.Obj().Name(), on, want)
			pos := k.p.Rel(t.Obj().Pos())
			if o == nil || !opFamily[o] {
				k.r.Undecided("R2-route", construct, pos, "constant "+on+" not found")
				continue
			}
			if tableT == nil {
				k.r.Undecided("R2-route", construct, pos, "type NetBIOSNameServer not found")
				continue
			}
			if len(dispOf[t]) == 0 {
				if un := notDecided[t]; un != "" {
					k.r.OK("R2-route", construct, pos, "NOT DECIDED — the dispatch of this server type was not read (see R2-sibling-dispatch)")
				} else {
					k.r.Fail("R2-route", construct, pos, "the server type reaches no opcode dispatch")
				}
				continue
			}
			var bad, good []string
			for _, d := range dispOf[t] {
				hs, has := d.handlers[o]
				if !has {
					bad = append(bad, fmt.Sprintf("%s has no case for %s: the request falls to the default (not implemented) answer", d.fn, on))
					continue
				}
				pos = k.p.Rel(d.pos)
				got := map[string]bool{}
				for _, h := range hs {
					if fn := k.p.SSA.FuncValue(h); fn != nil {
						k.r2TableOps(fn, tableT, tableOps, got, map[*ssa.Function]bool{}, 0)
					}
				}
				var gl []string
				for g := range got {
					gl = append(gl, g)
				}
				sort.Strings(gl)
				if len(gl) == 1 && gl[0] == want {
					good = append(good, fmt.Sprintf("%s: case %s → %s", d.fn, on, names(hs)))
				} else {
					bad = append(bad, fmt.Sprintf("%s: case %s → %s reaches {%s}", d.fn, on, names(hs), strings.Join(gl, ",")))
				}
			}
			if len(bad) == 0 {
				k.r.OK("R2-route", construct, pos, "handler calls NetBIOSNameServer."+want+" and none of the other table operations ("+strings.Join(good, "; ")+")")
			} else {
				k.r.Fail("R2-route", construct, pos, fmt.Sprintf("opcode %s must reach NetBIOSNameServer.%s (RFC 1002 operation of that opcode): %s", on, want, strings.Join(bad, "; ")))
			}
		}
	}
	// 3 server types × 4 routed opcodes
	k.r.Floor("R2-route", 12)

	// thorough tier: MASK-SAT over the whole module
	if k.c.Tier == "thorough" {
		n := 0
		for _, mp := range k.p.Pkgs {
			ms := all
			if mp != pk {
				ms = k.maskSites(mp)
			}
			for _, s := range ms {
				if mp == pk && s.isFlags {
					continue // judged above
				}
				n++
				var names []string
				for _, c := range s.cmps {
					names = append(names, types.ExprString(c.expr))
				}
				construct := fmt.Sprintf("%s: %s on %s&0x%X against {%s}", s.fn, s.kind, types.ExprString(s.x), s.mask, strings.Join(names, ","))
				var bad []string
				for _, c := range s.cmps {
					if c.val&^s.mask != 0 {
						bad = append(bad, fmt.Sprintf("%s=0x%X has bits 0x%X outside the mask", types.ExprString(c.expr), c.val, c.val&^s.mask))
					}
				}
				if len(bad) > 0 {
					k.r.Fail("R2-mask-sat-module", construct, k.p.Rel(s.pos), "unsatisfiable masked comparison: "+strings.Join(bad, "; "))
				} else {
					k.r.OK("R2-mask-sat-module", construct, k.p.Rel(s.pos), "every compared constant ⊆ mask")
				}
			}
		}
		k.r.Extra["R2_module_masked_sites"] = n
	}
}

// r2ServerTypes: the struct types of the package that have Start and Stop methods.
func (k *c18) r2ServerTypes(pk *packages.Package) []*types.Named {
	var out []*types.Named
	sc := pk.Types.Scope()
	for _, n := range sc.Names() {
		tn, ok := sc.Lookup(n).(*types.TypeName)
		if !ok || tn.IsAlias() {
			continue
		}
		nt, ok := tn.Type().(*types.Named)
		if !ok {
			continue
		}
		if _, isStruct := nt.Underlying().(*types.Struct); !isStruct {
			continue
		}
		ms := types.NewMethodSet(types.NewPointer(nt))
		if ms.Lookup(pk.Types, "Start") != nil && ms.Lookup(pk.Types, "Stop") != nil {
			out = append(out, nt)
		}
	}
	return out
}

// r2DeclName renders the declared function a (possibly anonymous) SSA function belongs to,
// in the form the AST side uses for mask sites.
func (k *c18) r2DeclName(fn *ssa.Function) string {
	for fn.Parent() != nil {
		fn = fn.Parent()
	}
	if o, ok := fn.Object().(*types.Func); ok {
		return k.relName(o.FullName())
	}
	return fn.Name()
}

// r2Reach: names of the declared functions of the anchored package reached from roots
// through calls, go/defer statements and function literals (bounded depth).
func (k *c18) r2Reach(roots []*ssa.Function) map[string]bool {
	seen := map[*ssa.Function]bool{}
	out := map[string]bool{}
	var visit func(fn *ssa.Function, d int)
	visit = func(fn *ssa.Function, d int) {
		if fn == nil || fn.Blocks == nil || seen[fn] || d > 8 {
			return
		}
		seen[fn] = true
		out[k.r2DeclName(fn)] = true
		for _, a := range fn.AnonFuncs {
			visit(a, d)
		}
		for _, b := range fn.Blocks {
			for _, in := range b.Instrs {
				ci, ok := in.(ssa.CallInstruction)
				if !ok {
					continue
				}
				for _, g := range k.pg.Callees(ci.Common()) {
					if relPkg(k.p, g) == c18Nbtns {
						visit(g, d+1)
					}
				}
			}
		}
	}
	for _, r := range roots {
		visit(r, 0)
	}
	return out
}

func (k *c18) r2ReachesAny(reach map[string]bool, fns map[string]bool) bool {
	for f := range fns {
		if reach[f] {
			return true
		}
	}
	return false
}

// r2TableOps collects the name-table operations a handler performs, in its own body, its
// function literals and the same-package helpers it calls.
func (k *c18) r2TableOps(fn *ssa.Function, tableT *types.Named, tableOps map[string]bool, got map[string]bool, seen map[*ssa.Function]bool, d int) {
	if fn == nil || fn.Blocks == nil || seen[fn] || d > 3 {
		return
	}
	seen[fn] = true
	for _, a := range fn.AnonFuncs {
		k.r2TableOps(a, tableT, tableOps, got, seen, d)
	}
	for _, b := range fn.Blocks {
		for _, in := range b.Instrs {
			ci, ok := in.(ssa.CallInstruction)
			if !ok {
				continue
			}
			co := effects.CalleeObj(ci.Common())
			if co == nil {
				continue
			}
			if sig, _ := co.Type().(*types.Signature); sig != nil && sig.Recv() != nil {
				if nt, ok := deref2(sig.Recv().Type()).(*types.Named); ok && nt.Obj() == tableT.Obj() {
					if tableOps[co.Name()] {
						got[co.Name()] = true
					}
					continue // the table's own methods are C17's subject
				}
			}
			if g := ci.Common().StaticCallee(); g != nil && g.Blocks != nil && relPkg(k.p, g) == c18Nbtns {
				k.r2TableOps(g, tableT, tableOps, got, seen, d+1)
			}
		}
	}
}

// r2UnreadFlagUses lists, per declared function without a recognised classification site,
// the uses of NBTNSHeader.Flags through which the opcode bits can reach code this rule does
// not read: passed to a module function, kept in a variable, shifted/compared/switched on
// without a recognisable constant mask, masked with a constant that keeps opcode bits in an
// unrecognised context, used as an index. Writes, masks that keep no opcode bit, and
// arguments of out-of-module functions (encoding, logging) are not such uses.
func (k *c18) r2UnreadFlagUses(pk *packages.Package, defs map[types.Object]ast.Expr, flagsVar *types.Var, sites []*c18MaskSite) map[string]string {
	info := pk.TypesInfo
	read := map[string]bool{}
	for _, s := range sites {
		if s.unread == "" {
			read[s.fn] = true
		}
	}
	out := map[string]string{}
	for _, f := range pk.Syntax {
		for _, d := range f.Decls {
			fd, ok := d.(*ast.FuncDecl)
			if !ok || fd.Body == nil {
				continue
			}
			fname := c18FuncName(k, pk, fd)
			if read[fname] {
				continue
			}
			var stack []ast.Node
			ast.Inspect(fd.Body, func(n ast.Node) bool {
				if n == nil {
					stack = stack[:len(stack)-1]
					return true
				}
				stack = append(stack, n)
				sel, isSel := n.(*ast.SelectorExpr)
				if !isSel {
					return true
				}
				sl := info.Selections[sel]
				if sl == nil || sl.Obj() != types.Object(flagsVar) {
					return true
				}
				// climb through parentheses and integer conversions
				var cur ast.Node = sel
				i := len(stack) - 2
				for ; i >= 0; i-- {
					switch par := stack[i].(type) {
					case *ast.ParenExpr:
						cur = par
						continue
					case *ast.CallExpr:
						if tv, isT := info.Types[par.Fun]; isT && tv.IsType() {
							cur = par
							continue
						}
					}
					break
				}
				if i < 0 {
					return true
				}
				why := ""
				switch par := stack[i].(type) {
				case *ast.AssignStmt:
					isLhs := false
					for _, l := range par.Lhs {
						if ast.Node(l) == cur {
							isLhs = true
						}
					}
					if !isLhs {
						why = "Header.Flags is copied into a variable"
					}
				case *ast.ValueSpec:
					why = "Header.Flags is copied into a variable"
				case *ast.BinaryExpr:
					other := par.Y
					onX := true
					if ast.Node(par.Y) == cur {
						other, onX = par.X, false
					}
					switch par.Op {
					case token.AND, token.AND_NOT:
						cv, isC := c18ConstVal(info, other)
						if !isC {
							why = "Header.Flags is masked with a value that is not a constant"
							break
						}
						kept := cv
						if par.Op == token.AND_NOT {
							if !onX {
								break // C &^ flags: not a classification of the flags
							}
							kept = ^cv & 0xFFFF
						}
						if kept&c18OpcodeBits != 0 {
							why = fmt.Sprintf("Header.Flags&0x%04X is used in a form that is neither a switch, a comparison with a constant nor an index into a read-only handler table", kept)
						}
					case token.SHR, token.SHL, token.EQL, token.NEQ, token.LSS, token.GTR, token.LEQ, token.GEQ, token.QUO, token.REM:
						why = "Header.Flags is " + par.Op.String() + "-combined without a constant mask"
					}
				case *ast.CallExpr:
					var fo *types.Func
					switch fx := c18Unparen(par.Fun).(type) {
					case *ast.SelectorExpr:
						if s2 := info.Selections[fx]; s2 != nil {
							fo, _ = s2.Obj().(*types.Func)
						} else {
							fo, _ = info.Uses[fx.Sel].(*types.Func)
						}
					case *ast.Ident:
						fo, _ = info.Uses[fx].(*types.Func)
					}
					switch {
					case fo == nil:
						if _, isB := info.Uses[identOf(par.Fun)].(*types.Builtin); !isB {
							why = "Header.Flags is passed to a function value"
						}
					case k.pg.ObjInModule(fo):
						why = "Header.Flags is passed to " + fo.Name()
					}
				case *ast.SwitchStmt:
					if ast.Node(par.Tag) == cur {
						why = "the switch is on the unmasked Header.Flags"
					}
				case *ast.IndexExpr:
					if ast.Node(par.Index) == cur {
						why = "the unmasked Header.Flags is used as an index"
					}
				case *ast.ReturnStmt:
					why = "Header.Flags is returned to the caller"
				}
				if why != "" {
					if _, has := out[fname]; !has {
						out[fname] = why
					}
				}
				return true
			})
		}
	}
	return out
}

func identOf(e ast.Expr) *ast.Ident {
	id, _ := c18Unparen(e).(*ast.Ident)
	return id
}
