package rules

import (
	"fmt"
	"go/constant"
	"go/types"
	"math/big"
	"sort"
	"strings"

	"golang.org/x/tools/go/ssa"

	"manticheck/internal/absint"
	"manticheck/internal/lanes"
	"manticheck/internal/report"
)

// C13 — UUID/GUID text and binary forms (DESIGN.md §4 C13, §3 E2 bit-lane
// domain, §3 E3 FORMAT-REGEX / SIBLING-CONST; Appendix B "GUID (MS-DTYP
// 2.3.4.2)").
//
// Everything is decided by internal/absint: go/ssa is interpreted over the
// bit-lane domain (an integer is a vector of lanes: constant 0/1, a named bit
// of a symbolic source, or ⊤; a string is a sequence of literal bytes and
// hexadecimal digits whose four value bits are lanes). One abstract run
// describes the function on all inputs of the analysed shape at once; no
// Manticore code is executed and no concrete value is ever chosen.

func init() { register(&Check{ID: "C13", NeedSSA: true, Run: runC13}) }

const (
	c13PkgGUID = "windows/guid"
	c13PkgDtyp = "windows/ms_dtyp/common/data_structures"
	c13PkgUUID = "crypto/uuid"

	c13R1 = "R1-raw-layout"
	c13R2 = "R2-format-regex"
	c13R3 = "R3-parser-slicing"
	c13R4 = "R4-normalise"
	c13R5 = "R5-uuid-bitmaps"
)

// MS-DTYP 2.3.4.2 (DESIGN Appendix B): field → offset, byte count, byte order, bits on the wire.
type c13Lay struct {
	field  string
	off, n int
	big    bool
}

var c13MSDTYP = []c13Lay{{"A", 0, 4, false}, {"B", 4, 2, false}, {"C", 6, 2, false}, {"D", 8, 2, true}, {"E", 10, 6, true}}

var c13Formats = []string{"N", "D", "B", "P", "X"}

type c13 struct {
	*Ctx
	guidT  *types.Named
	guidSt *types.Struct
	funcs  map[string]bool
}

func runC13(c *Ctx) {
	p, r := c.P, c.R
	r.Explanation = "C13 UUID/GUID forms, decided statically by abstract interpretation of go/ssa over the bit-lane domain (internal/absint on internal/lanes): integers are lane vectors (0, 1, a named bit of a symbolic source, ⊤), buffers and struct fields are trees of lanes, strings are sequences of literal bytes and hexadecimal digits whose 4 value bits are lanes; branches decided by constant lanes (counted loops over literal bounds) are followed, a branch on symbolic data is followed only away from a block that returns a non-nil error (the success path) and recorded; anything not modelled aborts the run. COMPLETENESS BEFORE VERDICT: a violation is reported only for an OBSERVED mismatch (a lane that carries the wrong bit, a stale or dropped bit, a digit parsed twice, a well-formed string refused, a normalisation stage skipped, an abort because the code would panic on a well-formed input or because a separator/cutset character is itself a hex digit); a clause the interpretation could not get through (construct or call not modelled, ⊤ provenance, an expected intermediate call not met on the path) is recorded as NOT DECIDED — held, with a note — while a missing anchor or an internal error still fails. No Manticore code is executed. " +
		"R1-raw-layout: (*GUID).ToBytes maps every GUID field bit to the wire bit MS-DTYP 2.3.4.2 prescribes (A bytes 0–3 LE, B 4–5 LE, C 6–7 LE, D 8–9 BE, E 10–15 BE; output exactly 16 bytes), (*GUID).FromRawBytes reads exactly the same lanes (so the two are mutual inverses on the 128 bits), E bits 48..63 are never written and are read back as 0 (reported as the codec's domain restriction); ms_dtyp GUID is the same type. " +
		"R2-format-regex: for N, D, B, P, X the abstract output of ToFormat* (Sprintf verbs %0Nx, %s of sub-strings of an inner Sprintf, literals) has a fixed shape that equals GUID_FORMAT_*_REGEX position by position (literal ↔ literal, digit ↔ [0-9a-f]); every digit carries 4 bits of a GUID field and the 32 digits carry each of the 128 bits exactly once; verb width·4 = bit width of the argument except for the 48-bit E (frozen exception: the only tolerated sprintf-width restriction is E bits 48..63 = 0); every regexp pattern FromString matches before calling FromFormat* equals the GUID_FORMAT_*_REGEX constant of that format (by constant value) — read off the `matched := regexp.MatchString(…); if matched { return FromFormatF(…) }` blocks and, independently of how the dispatcher is written (a loop over a read-only table of {pattern, parser}, a switch, pre-compiled patterns), from the interpretation of FromString on a string of each shape: the match that succeeds before the parser is called uses the constant's value and the parser called is that format's. " +
		"R3-parser-slicing: each FromFormat* is interpreted on a symbolic string of the shape of its regex constant: it accepts every such string (no error return, no ParseUint range restriction), every digit of the input is parsed by exactly one ParseUint call (or, where a parser decodes without strconv.ParseUint — hex.DecodeString plus encoding/binary, shifts — lands in the GUID fields exactly once, bit for bit), the value ranges ParseUint admits for the elements that feed a field (its bit size, or 4·digits when the element is cut by a constant-bounds slice and so has that many digits on every input) add up to the field's declared width (E: 48 or 64), so a direct caller's over-long element is refused rather than silently truncated by the narrowing conversion, and the bit map string→fields is exactly the inverse of the ToFormat* bit map fields→string (field by field; E bits 48..63 = 0); the same holds for FromString on each of the five shapes (dispatch + parser). " +
		"R4-normalise: in FromString and FromFormatN/D/B/P/X the raw parameter reaches nothing but strings.TrimSpace/strings.ToLower (directly or through an in-module helper that only normalises; quoting the input in the text of an error does not count as a use); all other consumers see one and the same value (validated value = parsed value), and wherever a regexp is matched that value has passed through both TrimSpace and ToLower (the patterns accept lower case only). " +
		"R5-uuid-bitmaps: (*UUID).Marshal/Unmarshal are mutually inverse bit maps between {Version[3..0], Variant[3..0], Data[15×8]} and the 128 wire bits, every wire bit is a field bit, no wire bit is used twice, version nibble = high nibble of byte 6 and variant nibble = high nibble of byte 8 (RFC 4122 §4.1.3 position); UUIDv1/UUIDv2/UUIDv8 Marshal/Unmarshal are mutually inverse bit maps between their own fields and the 120 bits of the embedded UUID.Data, the version constant written equals the one Unmarshal demands and the type's number; field bits that are not carried (Version/Variant 4..7, Time 60..63, ClockSeq 12..15, v2 Time 0..31, Clock 4..7) are listed as the codec's domain restriction and must be read back as 0; String() of each type prints the 16 marshalled bytes in order as 8-4-4-4-12 lower-case hex, FromString hands exactly those 16 bytes to Unmarshal. " +
		"NOT decided: v1/v2 timestamp arithmetic (GetTime/SetTime, C15); agreement of the v1/v2 field split with RFC 4122 beyond the version/variant nibble positions (RFC 4122 has a 2–3 bit variant and a 14-bit clock sequence); NewGUID randomness; behaviour of parsers on strings outside the five shapes; the GUID numeric values of the regex character classes beyond [0-9a-f]; upper-case input relies on the documented behaviour of strings.ToLower (assumption)."
	r.Assumptions = []string{
		"go/parser, go/types and the go/ssa builder of x/tools v0.50.0 are faithful to the source",
		"library contracts used by the abstract interpreter: fmt.Sprintf %0Nx prints an unsigned integer < 16^N as exactly N lower-case hex digits, most significant first, and a []byte as two digits per byte; %s copies a string; strconv.ParseUint(s,16,k) returns Σ digit·16^i and fails iff s is empty, has a non-hex character or the value needs more than k bits; strings.Split/Replace/TrimSpace/ToLower, hex.DecodeString/EncodeToString, regexp.MatchString on ^…$ patterns of literals, classes and {n}; encoding/binary Big/LittleEndian Uint/PutUint/AppendUint; copy, append, len",
		"strings.ToLower maps 'A'..'F' to 'a'..'f' and strings.TrimSpace removes only leading/trailing white space (case-insensitivity of the parsers rests on R4 plus this)",
		"SPEC tables: MS-DTYP 2.3.4.2 GUID packet layout (Data1 0/4 LE, Data2 4/2 LE, Data3 6/2 LE, Data4 8/8 as bytes, i.e. D 8/2 BE and E 10/6 BE for this struct); RFC 4122 §4.1.3 version = most significant 4 bits of octet 6, variant in the most significant bits of octet 8; version numbers UUIDv1=1, UUIDv2=2, UUIDv8=8",
		"the analysed input shapes: 16-byte buffers for the binary decoders, strings of the five GUID shapes / the 8-4-4-4-12 UUID shape for the text parsers; append never aliases two results (checked per run)",
	}
	x := &c13{Ctx: c, funcs: map[string]bool{}}

	// ---- anchors -------------------------------------------------------
	gp := p.Pkg(c13PkgGUID)
	if gp != nil {
		if tn, ok := gp.Types.Scope().Lookup("GUID").(*types.TypeName); ok {
			x.guidT, _ = tn.Type().(*types.Named)
			if x.guidT != nil {
				x.guidSt, _ = x.guidT.Underlying().(*types.Struct)
			}
		}
	}
	if x.guidSt == nil {
		r.Undecided("anchor", c13PkgGUID+".GUID", "", "struct type does not resolve")
		r.Floor("anchor", 2)
		return
	}
	okFields := true
	for _, l := range c13MSDTYP {
		i := c13Field(x.guidSt, l.field)
		if i < 0 {
			okFields = false
			r.Undecided("anchor", c13PkgGUID+".GUID."+l.field, p.Rel(x.guidT.Obj().Pos()), "field does not resolve")
			continue
		}
		w, _, isInt := lanes.IntWidth(x.guidSt.Field(i).Type())
		if !isInt || w < 8*l.n {
			okFields = false
			r.Undecided("anchor", c13PkgGUID+".GUID."+l.field, p.Rel(x.guidSt.Field(i).Pos()), fmt.Sprintf("field is not an unsigned integer of at least %d bits", 8*l.n))
		}
	}
	if okFields {
		r.OK("anchor", c13PkgGUID+".GUID{A,B,C,D,E}", p.Rel(x.guidT.Obj().Pos()), "five integer fields resolve")
	}
	if dp := p.Pkg(c13PkgDtyp); dp != nil {
		if tn, ok := dp.Types.Scope().Lookup("GUID").(*types.TypeName); ok && types.Identical(tn.Type(), x.guidT) {
			r.OK(c13R1, c13PkgDtyp+".GUID is "+c13PkgGUID+".GUID", p.Rel(tn.Pos()), "types.Identical: the MS-DTYP GUID is served by the analysed codec")
		} else {
			r.Undecided(c13R1, c13PkgDtyp+".GUID is "+c13PkgGUID+".GUID", "", "the ms_dtyp GUID is no longer the guid.GUID type: its codec is not analysed")
		}
	} else {
		r.Undecided("anchor", c13PkgDtyp, "", "package does not resolve")
	}
	r.Floor("anchor", 1)
	if !okFields {
		return
	}

	c.guard(c13R1, c13PkgGUID+".(*GUID).ToBytes: analysis", "", x.rawLayout)
	c.guard(c13R2, c13PkgGUID+": text forms analysis", "", x.textForms)
	c.guard(c13R4, c13PkgGUID+": normalisation analysis", "", x.normalise)
	c.guard(c13R5, c13PkgUUID+": analysis", "", x.uuids)

	var fs []string
	for f := range x.funcs {
		fs = append(fs, strings.ReplaceAll(f, p.ModPath+"/", ""))
	}
	sort.Strings(fs)
	r.Extra["functions_interpreted"] = fs
	r.Extra["spec_table_MS-DTYP_2.3.4.2"] = "A: bytes 0-3 LE; B: 4-5 LE; C: 6-7 LE; D: 8-9 BE; E: 10-15 BE (48 bits of the uint64)"

	x.completeness()

	// instance floors confirmed by reading today's tree
	r.Floor(c13R1, 15) // alias; ToBytes length + 5 fields + restriction; FromRawBytes 5 fields + E high bits; inverse
	r.Floor(c13R2, 20) // 5 × (shape≡regex, bijection, verb widths) + 5 dispatch patterns
	r.Floor(c13R3, 65) // 5 × (accepts, consumed once, 5 bit sizes, 5 field maps, FromString)
	r.Floor(c13R4, 6)  // FromString + FromFormatN/D/B/P/X
	r.Floor(c13R5, 37) // UUID 9, UUIDv1 9, UUIDv2 11, UUIDv8 8: image, accept, coverage, per-field maps, nibbles / version constant, String, FromString
}

func c13Field(st *types.Struct, name string) int {
	for i := 0; i < st.NumFields(); i++ {
		if st.Field(i).Name() == name {
			return i
		}
	}
	return -1
}

func (x *c13) interp() *absint.Interp {
	in := absint.New(x.P.InModule)
	return in
}

func (x *c13) note(in *absint.Interp) {
	for f := range in.Funcs {
		x.funcs[f] = true
	}
}

// namer renders source bits as Field.bit / Field[i].bit.
func c13Namer(in *absint.Interp, arrays map[int]bool) func(lanes.Bit) string {
	return func(b lanes.Bit) string {
		if arrays[b.S] {
			return fmt.Sprintf("%s[%d].%d", in.SrcName(b.S), b.I, b.B)
		}
		return fmt.Sprintf("%s.%d", in.SrcName(b.S), b.B)
	}
}

func c13SrcBits(src, idx, lo, n int) lanes.Vec {
	v := make(lanes.Vec, n)
	for b := range v {
		v[b] = lanes.Bit{K: lanes.Src, S: src, I: idx, B: lo + b}
	}
	return v
}

// symGUID builds a symbolic *GUID.
func (x *c13) symGUID(in *absint.Interp) (absint.Ptr, map[string]int) {
	srcs := map[string]int{}
	n := in.SymNode(x.guidT, "", srcs)
	return absint.Ptr{N: n}, srcs
}

func (x *c13) guidFn(recv, name string) *ssa.Function {
	fn := x.P.Func(c13PkgGUID, recv, name)
	if fn == nil || fn.Blocks == nil {
		return nil
	}
	return fn
}

// ---------------------------------------------------------------------------
// R1: raw layout

func (x *c13) rawLayout() {
	p, r := x.P, x.R
	toB, fromB := x.guidFn("GUID", "ToBytes"), x.guidFn("GUID", "FromRawBytes")
	nameT, nameF := c13PkgGUID+".(*GUID).ToBytes", c13PkgGUID+".(*GUID).FromRawBytes"
	var encMap, decMap map[string]lanes.Vec // field → wire lanes it is written to / read from, as (wire,i,b)
	encOK, decOK := false, false
	if toB == nil {
		r.Undecided("anchor", nameT, "", "anchor function does not resolve")
	} else {
		pos := p.Rel(toB.Pos())
		in := x.interp()
		g, srcs := x.symGUID(in)
		nm := c13Namer(in, nil)
		res, err := in.Call(toB, g)
		x.note(in)
		sl, isSl := res.(absint.Slice)
		switch {
		case err != nil:
			r.Undecided(c13R1, nameT+": output is 16 bytes", pos, "abstract interpretation aborted: "+err.Error())
		case !isSl || sl.Nil:
			r.Undecided(c13R1, nameT+": output is 16 bytes", pos, fmt.Sprintf("the result is not a byte slice of known content (%T)", res))
		case sl.Len() != 16:
			r.Fail(c13R1, nameT+": output is 16 bytes", pos, fmt.Sprintf("ToBytes returns %d bytes, a GUID packet is 16 bytes", sl.Len()))
		default:
			r.OK(c13R1, nameT+": output is 16 bytes", pos, "the returned slice has exactly 16 elements on every input")
			encOK = true
			wire := make([]lanes.Vec, 16)
			for k := 0; k < 16; k++ {
				if iv, ok := sl.Arr.Kids[sl.Lo+k].Leaf.(absint.Int); ok && len(iv.V) == 8 {
					wire[k] = iv.V
				} else {
					wire[k] = lanes.TopVec(8)
				}
			}
			encMap = map[string]lanes.Vec{}
			dump := map[string]string{}
			for k := range wire {
				dump[fmt.Sprintf("byte[%02d]", k)] = wire[k].String(nm)
			}
			r.Extra["guid_ToBytes_lanes"] = dump
			for _, l := range c13MSDTYP {
				src := srcs[l.field]
				var got, want []string
				bad, top := false, false
				for j := 0; j < l.n; j++ {
					s := j
					if l.big {
						s = l.n - 1 - j
					}
					w := c13SrcBits(src, 0, 8*s, 8)
					g := wire[l.off+j]
					if !g.Equal(w) {
						bad = true
						if g.HasTop() {
							top = true
						}
					}
					got = append(got, g.String(nm))
					want = append(want, w.String(nm))
				}
				order := "little-endian"
				if l.big {
					order = "big-endian"
				}
				cons := fmt.Sprintf("%s: bytes %d..%d == %s %s (MS-DTYP 2.3.4.2)", nameT, l.off, l.off+l.n-1, l.field, order)
				switch {
				case !bad:
					r.OK(c13R1, cons, pos, strings.Join(got, " "))
				case top:
					r.Undecided(c13R1, cons, pos, "bit provenance is ⊤: got "+strings.Join(got, " ")+", required "+strings.Join(want, " "))
				default:
					r.Fail(c13R1, cons, pos, fmt.Sprintf("wire bytes %d..%d hold %s, MS-DTYP requires %s (most significant bit first): GUIDs whose %s bytes differ are written in the wrong byte order/position", l.off, l.off+l.n-1, strings.Join(got, " "), strings.Join(want, " "), l.field))
				}
			}
			// domain restriction: which field bits never reach the wire
			used := map[lanes.Bit]bool{}
			for _, w := range wire {
				for _, b := range w {
					if b.K == lanes.Src {
						used[b] = true
					}
				}
			}
			var lost []string
			for _, l := range c13MSDTYP {
				i := c13Field(x.guidSt, l.field)
				w, _, _ := lanes.IntWidth(x.guidSt.Field(i).Type())
				lo := -1
				for b := 0; b <= w; b++ {
					miss := b < w && !used[lanes.Bit{K: lanes.Src, S: srcs[l.field], B: b}]
					if miss && lo < 0 {
						lo = b
					}
					if !miss && lo >= 0 {
						lost = append(lost, fmt.Sprintf("%s bits %d..%d", l.field, lo, b-1))
						lo = -1
					}
				}
			}
			r.Extra["guid_domain_restriction_bits_not_on_the_wire"] = lost
			cons := nameT + ": only E bits 48..63 are not carried (domain restriction)"
			if len(lost) == 1 && lost[0] == "E bits 48..63" {
				r.OK(c13R1, cons, pos, "field bits that never reach the wire: "+strings.Join(lost, ", ")+" — reported as the codec's domain restriction, not as a violation")
			} else if !c13HasTop(wire) {
				r.Fail(c13R1, cons, pos, "field bits that never reach the wire: ["+strings.Join(lost, ", ")+"]; the GUID packet carries A, B, C, D entirely and the low 48 bits of E")
			} else {
				r.Undecided(c13R1, cons, pos, "some wire lanes are ⊤")
			}
			_ = encMap
		}
	}
	if fromB == nil {
		r.Undecided("anchor", nameF, "", "anchor function does not resolve")
	} else {
		pos := p.Rel(fromB.Pos())
		in := x.interp()
		g, _ := x.symGUID(in)
		arr, wsrc := in.SymBytes("data", 16)
		nm := c13Namer(in, map[int]bool{wsrc: true})
		_, err := in.Call(fromB, g, absint.Slice{Arr: arr, Lo: 0, Hi: 16, Cap: 16})
		x.note(in)
		if err != nil {
			for _, l := range c13MSDTYP {
				r.Undecided(c13R1, fmt.Sprintf("%s: %s == data[%d:%d]", nameF, l.field, l.off, l.off+l.n), pos, "abstract interpretation aborted: "+err.Error())
			}
		} else {
			decOK = true
			leaves := map[string]lanes.Vec{}
			absint.Leaves(g.N, "", leaves)
			dump := map[string]string{}
			decMap = leaves
			for _, l := range c13MSDTYP {
				got := leaves[l.field]
				dump[l.field] = got.String(nm)
				want := lanes.ZeroVec(len(got))
				for j := 0; j < l.n; j++ {
					s := j
					if l.big {
						s = l.n - 1 - j
					}
					copy(want[8*s:8*s+8], lanes.SrcByte(wsrc, l.off+j))
				}
				order := "little-endian"
				if l.big {
					order = "big-endian"
				}
				cons := fmt.Sprintf("%s: %s == data[%d:%d] %s (MS-DTYP 2.3.4.2)", nameF, l.field, l.off, l.off+l.n, order)
				low, wlow := got[:8*l.n], want[:8*l.n]
				switch {
				case low.Equal(wlow):
					r.OK(c13R1, cons, pos, low.String(nm))
				case low.HasTop():
					r.Undecided(c13R1, cons, pos, "bit provenance is ⊤: got "+low.String(nm)+", required "+wlow.String(nm))
				default:
					r.Fail(c13R1, cons, pos, fmt.Sprintf("%s is assembled as %s, MS-DTYP requires %s (most significant bit first)", l.field, low.String(nm), wlow.String(nm)))
				}
				if len(got) > 8*l.n {
					hc := fmt.Sprintf("%s: %s bits %d..%d == 0", nameF, l.field, 8*l.n, len(got)-1)
					hi := got[8*l.n:]
					switch {
					case hi.Equal(lanes.ZeroVec(len(hi))):
						r.OK(c13R1, hc, pos, "the bits the packet does not carry are cleared")
					case hi.HasTop():
						r.Undecided(c13R1, hc, pos, "bit provenance is ⊤: "+hi.String(nm))
					default:
						r.Fail(c13R1, hc, pos, "bits above the 48 the packet carries are "+hi.String(nm)+": a stale or foreign value survives decoding")
					}
				}
			}
			r.Extra["guid_FromRawBytes_lanes"] = dump
		}
	}
	// mutual inverse: follows from both being equal to the same table; stated explicitly
	cons := nameT + " ∘ " + nameF + ": mutual inverses on the 128 wire bits"
	if encOK && decOK {
		bad, open := 0, 0
		for _, o := range r.Obls {
			if o.Rule == c13R1 && o.Status == report.Finding {
				bad++
			} else if o.Rule == c13R1 && o.Status != report.Discharged {
				open++
			}
		}
		if bad == 0 && open > 0 {
			r.Undecided(c13R1, cons, "", fmt.Sprintf("%d lane obligations above could not be decided, so the two maps could not be compared completely", open))
		} else if bad == 0 {
			r.OK(c13R1, cons, "", "both lane maps equal the MS-DTYP table, hence FromRawBytes(ToBytes(g)) = g (E < 2^48) and ToBytes(FromRawBytes(b)) = b for all 2^128 b")
		} else {
			r.Fail(c13R1, cons, "", fmt.Sprintf("%d lane obligations above are not discharged, so the two maps are not established to be inverse", bad))
		}
	} else {
		r.Undecided(c13R1, cons, "", "one of the two lane maps could not be computed")
	}
	_ = decMap
}

func c13HasTop(vs []lanes.Vec) bool {
	for _, v := range vs {
		if v.HasTop() {
			return true
		}
	}
	return false
}

// ---------------------------------------------------------------------------
// R5: UUID bit maps

type c13UUIDType struct {
	rel, name string
	version   int // 0: the generic UUID
}

var c13UUIDTypes = []c13UUIDType{
	{"crypto/uuid", "UUID", 0},
	{"crypto/uuid/uuid_v1", "UUIDv1", 1},
	{"crypto/uuid/uuid_v2", "UUIDv2", 2},
	{"crypto/uuid/uuid_v8", "UUIDv8", 8},
}

func (x *c13) named(rel, name string) *types.Named {
	pk := x.P.Pkg(rel)
	if pk == nil {
		return nil
	}
	tn, _ := pk.Types.Scope().Lookup(name).(*types.TypeName)
	if tn == nil {
		return nil
	}
	n, _ := tn.Type().(*types.Named)
	return n
}

func (x *c13) uuids() {
	p, r := x.P, x.R
	base := x.named("crypto/uuid", "UUID")
	bMarshal, bUnmarshal := p.Func("crypto/uuid", "UUID", "Marshal"), p.Func("crypto/uuid", "UUID", "Unmarshal")
	if base == nil || bMarshal == nil || bUnmarshal == nil || bMarshal.Blocks == nil || bUnmarshal.Blocks == nil {
		r.Undecided("anchor", "crypto/uuid.UUID with Marshal/Unmarshal", "", "anchor does not resolve")
		return
	}
	restr := map[string][]string{}
	for _, ut := range c13UUIDTypes {
		nt := x.named(ut.rel, ut.name)
		tname := ut.rel + ".(*" + ut.name + ")"
		fm, fu := p.Func(ut.rel, ut.name, "Marshal"), p.Func(ut.rel, ut.name, "Unmarshal")
		if nt == nil || fm == nil || fu == nil || fm.Blocks == nil || fu.Blocks == nil {
			r.Undecided("anchor", tname+".Marshal/Unmarshal", "", "anchor does not resolve")
			continue
		}
		if ut.version != 0 {
			// own methods, not the promoted ones of the embedded UUID
			if fm == bMarshal || fu == bUnmarshal {
				r.Undecided("anchor", tname+".Marshal/Unmarshal", "", "the type no longer declares its own Marshal/Unmarshal")
				continue
			}
		}
		x.uuidCodec(ut, nt, fm, fu, base, bMarshal, bUnmarshal, restr)
		x.uuidText(ut, nt, fm, fu)
	}
	r.Extra["uuid_domain_restrictions_field_bits_not_carried"] = restr
}

// fieldBitsOf lists the symbolic field sources of a type, excluding those below `skip`.
type c13Src struct {
	path  string
	id    int
	n     int // elements (1 for scalars)
	w     int // bits per element
	array bool
}

func c13Sources(in *absint.Interp, n *absint.Node, srcs map[string]int) []c13Src {
	var out []c13Src
	leaves := map[string]lanes.Vec{}
	absint.Leaves(n, "", leaves)
	for path, id := range srcs {
		s := c13Src{path: path, id: id}
		if v, ok := leaves[path]; ok {
			s.n, s.w = 1, len(v)
		} else {
			for i := 0; ; i++ {
				v, ok := leaves[fmt.Sprintf("%s[%d]", path, i)]
				if !ok {
					break
				}
				s.n, s.w, s.array = i+1, len(v), true
			}
		}
		out = append(out, s)
	}
	sort.Slice(out, func(i, j int) bool { return out[i].id < out[j].id })
	return out
}

// uuidCodec checks Marshal/Unmarshal of one type as mutually inverse bit maps
// between its own fields and its "wire": the 16 output bytes for UUID, the
// embedded UUID.{Data,Version} for the versioned types.
func (x *c13) uuidCodec(ut c13UUIDType, nt *types.Named, fm, fu *ssa.Function, base *types.Named, bMarshal, bUnmarshal *ssa.Function, restr map[string][]string) {
	p, r := x.P, x.R
	tname := ut.rel + ".(*" + ut.name + ")"
	posM, posU := p.Rel(fm.Pos()), p.Rel(fu.Pos())
	generic := ut.version == 0

	// ---- encoder ----
	inE := x.interp()
	srcsE := map[string]int{}
	recvE := inE.SymNode(nt, "", srcsE)
	var wire []lanes.Vec // encoder: wire position → lanes over field sources
	var verE lanes.Vec
	captured := false
	if !generic {
		inE.Hook = func(in *absint.Interp, cc *ssa.CallCommon, callee *ssa.Function, args []absint.Value) (absint.Value, bool) {
			if callee != bMarshal {
				return nil, false
			}
			pt, ok := args[0].(absint.Ptr)
			if !ok || pt.N == nil {
				return nil, false
			}
			lv := map[string]lanes.Vec{}
			absint.Leaves(pt.N, "", lv)
			wire = nil
			for k := 0; ; k++ {
				v, ok := lv[fmt.Sprintf("Data[%d]", k)]
				if !ok {
					break
				}
				wire = append(wire, v)
			}
			verE = lv["Version"]
			captured = true
			out, _ := in.SymBytes("marshalled", 16)
			return absint.Tuple{absint.Slice{Arr: out, Lo: 0, Hi: 16, Cap: 16}, absint.Iface{}}, true
		}
	}
	resE, errE := inE.Call(fm, absint.Ptr{N: recvE})
	x.note(inE)
	consLen := tname + ".Marshal: produces the wire image"
	encOK := false
	switch {
	case errE != nil:
		r.Undecided(c13R5, consLen, posM, "abstract interpretation aborted: "+errE.Error())
	case generic:
		t, _ := resE.(absint.Tuple)
		var sl absint.Slice
		if len(t) == 2 {
			sl, _ = t[0].(absint.Slice)
		}
		if len(t) != 2 || sl.Nil || sl.Arr == nil {
			r.Undecided(c13R5, consLen, posM, "Marshal does not return a byte slice of known content on the success path")
		} else if nilE, known := c13IfaceNil(t[1]); !known || !nilE {
			r.Fail(c13R5, consLen, posM, "Marshal returns a non-nil error on the analysed path")
		} else if sl.Len() != 16 {
			r.Fail(c13R5, consLen, posM, fmt.Sprintf("Marshal returns %d bytes, a UUID is 16", sl.Len()))
		} else {
			for k := 0; k < 16; k++ {
				if iv, ok := sl.Arr.Kids[sl.Lo+k].Leaf.(absint.Int); ok && len(iv.V) == 8 {
					wire = append(wire, iv.V)
				} else {
					wire = append(wire, lanes.TopVec(8))
				}
			}
			encOK = true
			r.OK(c13R5, consLen, posM, "16 bytes, nil error")
		}
	default:
		if !captured || len(wire) != 15 {
			r.Undecided(c13R5, consLen, posM, "Marshal does not hand the embedded UUID (15 data bytes) to (*UUID).Marshal on the success path")
		} else {
			encOK = true
			r.OK(c13R5, consLen, posM, "the embedded UUID.Data (15 bytes) and UUID.Version are set, then (*UUID).Marshal is called")
		}
	}

	// ---- decoder ----
	inD := x.interp()
	srcsD := map[string]int{}
	recvD := inD.SymNode(nt, "", srcsD)
	wireArr, wsrc := inD.SymBytes("wire", 16)
	dataSrc, verSrc := -1, -1
	hooked := false
	if !generic {
		inD.Hook = func(in *absint.Interp, cc *ssa.CallCommon, callee *ssa.Function, args []absint.Value) (absint.Value, bool) {
			if callee != bUnmarshal {
				return nil, false
			}
			pt, ok := args[0].(absint.Ptr)
			if !ok || pt.N == nil {
				return nil, false
			}
			st := base.Underlying().(*types.Struct)
			di, vi, ri := c13Field(st, "Data"), c13Field(st, "Version"), c13Field(st, "Variant")
			if di < 0 || vi < 0 || ri < 0 {
				return nil, false
			}
			dataSrc = in.NewSrc("UUID.Data")
			for k, kid := range pt.N.Kids[di].Kids {
				kid.Leaf = absint.SrcInt(dataSrc, k, 8)
			}
			verSrc = in.NewSrc("UUID.Version")
			pt.N.Kids[vi].Leaf = absint.SrcInt(verSrc, 0, 8)
			pt.N.Kids[ri].Leaf = absint.SrcInt(in.NewSrc("UUID.Variant"), 0, 8)
			hooked = true
			return absint.Tuple{absint.Int{V: lanes.ConstVec(c13Big(16), 64)}, absint.Iface{}}, true
		}
	}
	resD, errD := inD.Call(fu, absint.Ptr{N: recvD}, absint.Slice{Arr: wireArr, Lo: 0, Hi: 16, Cap: 16})
	x.note(inD)
	consDec := tname + ".Unmarshal: accepts a 16-byte image"
	decOK := false
	switch {
	case errD != nil:
		r.Undecided(c13R5, consDec, posU, "abstract interpretation aborted: "+errD.Error())
	default:
		t, _ := resD.(absint.Tuple)
		if len(t) != 2 {
			r.Undecided(c13R5, consDec, posU, "Unmarshal does not return (int, error)")
		} else if nilE, known := c13IfaceNil(t[1]); !known || !nilE {
			r.Fail(c13R5, consDec, posU, "Unmarshal returns a non-nil error for a 16-byte input on the analysed path")
		} else if !generic && !hooked {
			r.Undecided(c13R5, consDec, posU, "Unmarshal does not call (*UUID).Unmarshal on the success path")
		} else {
			decOK = true
			n := "?"
			if iv, ok := t[0].(absint.Int); ok {
				if k, ok := iv.V.ConstVal(); ok {
					n = k.String()
				}
			}
			if n == "16" {
				r.OK(c13R5, consDec, posU, "returns (16, nil) on the success path")
			} else {
				r.Fail(c13R5, consDec, posU, "the byte count returned on success is "+n+", a UUID consumes 16")
			}
		}
	}
	if !encOK || !decOK {
		r.Undecided(c13R5, tname+": Marshal and Unmarshal are mutually inverse bit maps", posM, "one of the two maps could not be computed")
		return
	}

	// field sources of both runs are created in the same order ⇒ same ids for the same path
	arrE := map[int]bool{}
	srcList := c13Sources(inE, recvE, srcsE)
	for _, s := range srcList {
		if s.array {
			arrE[s.id] = true
		}
	}
	nmE := c13Namer(inE, arrE)
	arrD := map[int]bool{wsrc: true}
	if dataSrc >= 0 {
		arrD[dataSrc] = true
	}
	nmD := c13Namer(inD, arrD)
	leavesD := map[string]lanes.Vec{}
	absint.Leaves(recvD, "", leavesD)

	// wire bit identity on the decoder side
	wireBit := func(k, b int) lanes.Bit {
		if generic {
			return lanes.Bit{K: lanes.Src, S: wsrc, I: k, B: b}
		}
		return lanes.Bit{K: lanes.Src, S: dataSrc, I: k, B: b}
	}
	// encoder placement: field bit → wire position
	type wpos struct{ k, b int }
	place := map[lanes.Bit][]wpos{}
	var constWire, topWire []string
	dumpE := map[string]string{}
	for k, w := range wire {
		dumpE[fmt.Sprintf("wire[%02d]", k)] = w.String(nmE)
		for b, l := range w {
			switch l.K {
			case lanes.Src:
				place[l] = append(place[l], wpos{k, b})
			case lanes.Top:
				topWire = append(topWire, fmt.Sprintf("wire[%d].%d", k, b))
			default:
				constWire = append(constWire, fmt.Sprintf("wire[%d].%d", k, b))
			}
		}
	}
	r.Extra["uuid_"+ut.name+"_Marshal_lanes"] = dumpE

	consCover := tname + ".Marshal: every wire bit is a distinct field bit"
	var dup []string
	for l, ps := range place {
		if len(ps) > 1 {
			dup = append(dup, fmt.Sprintf("%s at %d positions", nmE(l), len(ps)))
		}
	}
	sort.Strings(dup)
	switch {
	case len(topWire) > 0:
		r.Undecided(c13R5, consCover, posM, "bit provenance is ⊤ at "+strings.Join(c13Head(topWire, 6), ", "))
	case len(constWire) > 0:
		r.Fail(c13R5, consCover, posM, fmt.Sprintf("%d wire bits are constants (%s …): an input that has other values there cannot be reproduced by Unmarshal→Marshal", len(constWire), strings.Join(c13Head(constWire, 6), ", ")))
	case len(dup) > 0:
		r.Fail(c13R5, consCover, posM, "a field bit is written to more than one wire bit ("+strings.Join(c13Head(dup, 4), "; ")+"): the wire image is not free, inputs that differ there do not round-trip")
	default:
		r.OK(c13R5, consCover, posM, fmt.Sprintf("%d wire bits, each the image of exactly one field bit", 8*len(wire)))
	}

	// per field: every bit written is read back from the same wire bit; bits not written read back 0
	dumpD := map[string]string{}
	for _, s := range srcList {
		if !generic && strings.HasPrefix(s.path, "UUID.") {
			continue // the embedded generic UUID is the wire of this codec
		}
		if s.path == "UUID" {
			continue
		}
		var bad, top, lostBits []string
		carried := 0
		for i := 0; i < s.n; i++ {
			path := s.path
			if s.array {
				path = fmt.Sprintf("%s[%d]", s.path, i)
			}
			got := leavesD[path]
			dumpD[path] = got.String(nmD)
			for b := 0; b < s.w; b++ {
				fb := lanes.Bit{K: lanes.Src, S: s.id, I: i, B: b}
				ps := place[fb]
				var g lanes.Bit
				if b < len(got) {
					g = got[b]
				} else {
					g = lanes.Bit{K: lanes.Top}
				}
				if len(ps) == 0 {
					lostBits = append(lostBits, fmt.Sprintf("%d", b))
					if s.array {
						lostBits[len(lostBits)-1] = fmt.Sprintf("[%d].%d", i, b)
					}
					switch g.K {
					case lanes.Zero:
					case lanes.Top:
						top = append(top, nmE(fb))
					default:
						bad = append(bad, fmt.Sprintf("%s is not carried by Marshal but Unmarshal sets it to %s", nmE(fb), lanes.Vec{g}.String(nmD)))
					}
					continue
				}
				carried++
				want := wireBit(ps[0].k, ps[0].b)
				switch {
				case g == want:
				case g.K == lanes.Top:
					top = append(top, nmE(fb))
				default:
					bad = append(bad, fmt.Sprintf("%s is written to wire[%d].%d but read from %s", nmE(fb), ps[0].k, ps[0].b, lanes.Vec{g}.String(nmD)))
				}
			}
		}
		cons := fmt.Sprintf("%s: field %s — every bit Marshal writes is read back by Unmarshal from the same wire bit", tname, s.path)
		switch {
		case len(bad) > 0:
			r.Fail(c13R5, cons, posU, fmt.Sprintf("%d bit(s) do not round-trip: %s", len(bad), strings.Join(c13Head(bad, 4), "; ")))
		case len(top) > 0:
			r.Undecided(c13R5, cons, posU, "bit provenance is ⊤ for "+strings.Join(c13Head(top, 6), ", "))
		case carried == 0:
			r.Fail(c13R5, cons, posU, "no bit of the field reaches the wire: the field cannot survive Marshal→Unmarshal")
		default:
			msg := fmt.Sprintf("%d of %d bits carried and read back identically", carried, s.n*s.w)
			if len(lostBits) > 0 {
				msg += "; not carried (domain restriction, read back as 0): bits " + c13Compress(lostBits)
				restr[ut.name] = append(restr[ut.name], s.path+" bits "+c13Compress(lostBits))
			}
			r.OK(c13R5, cons, posU, msg)
		}
	}
	r.Extra["uuid_"+ut.name+"_Unmarshal_lanes"] = dumpD

	if generic {
		// RFC 4122 §4.1.3 nibble positions
		for _, nb := range []struct {
			field string
			byteK int
		}{{"Version", 6}, {"Variant", 8}} {
			cons := fmt.Sprintf("%s: %s nibble == high nibble of wire byte %d (RFC 4122 §4.1.3)", tname, nb.field, nb.byteK)
			id, ok := srcsE[nb.field]
			if !ok {
				r.Undecided(c13R5, cons, posM, "field does not resolve")
				continue
			}
			want := c13SrcBits(id, 0, 0, 4)
			got := wire[nb.byteK][4:8]
			gotD := leavesD[nb.field]
			wantD := lanes.ZeroVec(len(gotD))
			for b := 0; b < 4; b++ {
				wantD[b] = lanes.Bit{K: lanes.Src, S: wsrc, I: nb.byteK, B: 4 + b}
			}
			switch {
			case got.Equal(want) && gotD.Equal(wantD):
				r.OK(c13R5, cons, posM, "Marshal: "+got.String(nmE)+"; Unmarshal: "+gotD.String(nmD))
			case got.HasTop() || gotD.HasTop():
				r.Undecided(c13R5, cons, posM, "bit provenance is ⊤")
			default:
				r.Fail(c13R5, cons, posM, fmt.Sprintf("Marshal puts %s in the high nibble of byte %d (required %s); Unmarshal reads %s as %s (required %s)", got.String(nmE), nb.byteK, want.String(nmE), nb.field, gotD.String(nmD), wantD.String(nmD)))
			}
		}
		return
	}

	// version constant symmetry
	cons := fmt.Sprintf("%s: version written by Marshal == version demanded by Unmarshal == %d", tname, ut.version)
	wv, okW := verE.ConstVal()
	var demanded []string
	okD := false
	for _, a := range inD.Assumed {
		if a.Cond.X == nil {
			continue
		}
		xs, ys := a.Cond.X, a.Cond.Y
		if _, isK := xs.ConstVal(); isK {
			xs, ys = ys, xs
		}
		k, isK := ys.ConstVal()
		isVer := len(xs) == 8 && xs.Equal(c13SrcBits(verSrc, 0, 0, 8))
		if !isVer || !isK {
			continue
		}
		// the success path is the one on which Version == k
		eq := (a.Cond.Op == "!=" && !a.Taken) || (a.Cond.Op == "==" && a.Taken)
		if eq {
			demanded = append(demanded, k.String())
			if okW && k.Cmp(wv) == 0 && int(k.Int64()) == ut.version {
				okD = true
			}
		}
	}
	switch {
	case !okW:
		r.Fail(c13R5, cons, posM, "Marshal does not set the embedded UUID.Version to a constant: "+verE.String(nmE))
	case len(demanded) == 0:
		r.Fail(c13R5, cons, posU, fmt.Sprintf("Marshal writes version %s but Unmarshal accepts any version nibble (no Version == %d test guards the success path)", wv, ut.version))
	case !okD:
		r.Fail(c13R5, cons, posU, fmt.Sprintf("Marshal writes version %s, Unmarshal demands %s, the type's version is %d: what Marshal emits is rejected or mislabelled", wv, strings.Join(demanded, ","), ut.version))
	default:
		r.OK(c13R5, cons, posM, "both constants are "+wv.String())
	}
}

func c13IfaceNil(v absint.Value) (isNil, known bool) {
	i, ok := v.(absint.Iface)
	if !ok {
		return false, false
	}
	return i.V == nil, true
}

func c13Head(s []string, n int) []string {
	if len(s) > n {
		return append(append([]string(nil), s[:n]...), fmt.Sprintf("… (%d more)", len(s)-n))
	}
	return s
}

// c13Compress renders a list of "b" / "[i].b" bit names with runs collapsed.
func c13Compress(bits []string) string {
	var out []string
	for i := 0; i < len(bits); {
		j := i
		for j+1 < len(bits) {
			a, okA := c13Atoi(bits[j])
			b, okB := c13Atoi(bits[j+1])
			if !okA || !okB || b != a+1 {
				break
			}
			j++
		}
		if j > i+1 {
			out = append(out, bits[i]+".."+bits[j])
		} else {
			out = append(out, bits[i:j+1]...)
		}
		i = j + 1
	}
	return strings.Join(out, ",")
}

func c13Atoi(s string) (int, bool) {
	n := 0
	if s == "" {
		return 0, false
	}
	for _, c := range s {
		if c < '0' || c > '9' {
			return 0, false
		}
		n = n*10 + int(c-'0')
	}
	return n, true
}

// uuidText: String() prints the marshalled bytes as 8-4-4-4-12; FromString hands
// the same 16 bytes to Unmarshal.
func (x *c13) uuidText(ut c13UUIDType, nt *types.Named, fm, fu *ssa.Function) {
	p, r := x.P, x.R
	tname := ut.rel + ".(*" + ut.name + ")"
	fs, ff := p.Func(ut.rel, ut.name, "String"), p.Func(ut.rel, ut.name, "FromString")
	consS := tname + ".String: prints Marshal()'s 16 bytes in order as 8-4-4-4-12 lower-case hex"
	consF := tname + ".FromString: hands the 16 bytes of an 8-4-4-4-12 string, in order, to Unmarshal"
	if fs == nil || fs.Blocks == nil || ff == nil || ff.Blocks == nil {
		r.Undecided("anchor", tname+".String/FromString", "", "anchor does not resolve")
		return
	}
	dash := map[int]bool{8: true, 13: true, 18: true, 23: true}
	// String
	{
		in := x.interp()
		var msrc int
		called := false
		in.Hook = func(in *absint.Interp, cc *ssa.CallCommon, callee *ssa.Function, args []absint.Value) (absint.Value, bool) {
			if callee != fm {
				return nil, false
			}
			arr, id := in.SymBytes("marshalled", 16)
			msrc = id
			called = true
			return absint.Tuple{absint.Slice{Arr: arr, Lo: 0, Hi: 16, Cap: 16}, absint.Iface{}}, true
		}
		srcs := map[string]int{}
		res, err := in.Call(fs, absint.Ptr{N: in.SymNode(nt, "", srcs)})
		x.note(in)
		pos := p.Rel(fs.Pos())
		s, _ := res.(*absint.Str)
		switch {
		case err != nil:
			r.Undecided(c13R5, consS, pos, "abstract interpretation aborted: "+err.Error())
		case !called:
			r.Undecided(c13R5, consS, pos, "String does not call the type's Marshal")
		case s == nil || s.Opaque:
			why := "not a string"
			if s != nil {
				why = s.Why
			}
			r.Undecided(c13R5, consS, pos, "the output has no fixed shape: "+why)
		default:
			var bad []string
			if len(s.Chars) != 36 {
				bad = append(bad, fmt.Sprintf("length %d, required 36", len(s.Chars)))
			} else {
				d := 0
				for i, c := range s.Chars {
					if dash[i] {
						if c.IsHex() || c.Lit != '-' {
							bad = append(bad, fmt.Sprintf("position %d is not '-'", i))
						}
						continue
					}
					want := lanes.SrcByte(msrc, d/2)[4:8]
					if d%2 == 1 {
						want = lanes.SrcByte(msrc, d/2)[0:4]
					}
					if !c.IsHex() || !c.Hex.Equal(want) {
						bad = append(bad, fmt.Sprintf("digit %d is not the %s nibble of byte %d", d, map[bool]string{true: "high", false: "low"}[d%2 == 0], d/2))
					}
					d++
				}
			}
			if len(bad) == 0 {
				r.OK(c13R5, consS, pos, "shape "+s.Shape()+"; digit 2k/2k+1 = high/low nibble of byte k")
			} else {
				r.Fail(c13R5, consS, pos, "shape "+s.Shape()+": "+strings.Join(c13Head(bad, 4), "; "))
			}
		}
	}
	// FromString
	{
		in := x.interp()
		ssrc := in.NewSrc("text")
		str := &absint.Str{}
		for i := 0; i < 36; i++ {
			if dash[i] {
				str.Chars = append(str.Chars, absint.Char{Lit: '-'})
			} else {
				str.Chars = append(str.Chars, absint.Char{Hex: c13SrcBits(ssrc, i, 0, 4)})
			}
		}
		var got []lanes.Vec
		called := false
		in.Hook = func(in *absint.Interp, cc *ssa.CallCommon, callee *ssa.Function, args []absint.Value) (absint.Value, bool) {
			if callee != fu || len(args) != 2 {
				return nil, false
			}
			sl, ok := args[1].(absint.Slice)
			if !ok || sl.Nil {
				return nil, false
			}
			called = true
			got = nil
			for k := sl.Lo; k < sl.Hi; k++ {
				iv, _ := sl.Arr.Kids[k].Leaf.(absint.Int)
				got = append(got, iv.V)
			}
			return absint.Tuple{absint.Int{V: lanes.ConstVec(c13Big(16), 64)}, absint.Iface{}}, true
		}
		srcs := map[string]int{}
		res, err := in.Call(ff, absint.Ptr{N: in.SymNode(nt, "", srcs)}, str)
		x.note(in)
		pos := p.Rel(ff.Pos())
		nm := c13Namer(in, map[int]bool{ssrc: true})
		switch {
		case err != nil:
			r.Undecided(c13R5, consF, pos, "abstract interpretation aborted: "+err.Error())
		case !called:
			if nilE, known := c13IfaceNil(res); known && !nilE {
				r.Fail(c13R5, consF, pos, "FromString rejects a well-formed 8-4-4-4-12 string (non-nil error before Unmarshal is reached)")
			} else {
				r.Undecided(c13R5, consF, pos, "FromString does not reach the type's Unmarshal")
			}
		default:
			var bad []string
			if nilE, known := c13IfaceNil(res); !known || !nilE {
				bad = append(bad, "a non-nil error is returned although Unmarshal succeeded")
			}
			if len(got) != 16 {
				bad = append(bad, fmt.Sprintf("Unmarshal receives %d bytes", len(got)))
			} else {
				ci := 0
				for k := 0; k < 16; k++ {
					for dash[ci] {
						ci++
					}
					want := append(append(lanes.Vec(nil), c13SrcBits(ssrc, ci+1, 0, 4)...), c13SrcBits(ssrc, ci, 0, 4)...)
					if !got[k].Equal(want) {
						bad = append(bad, fmt.Sprintf("byte %d = %s, required %s", k, got[k].String(nm), want.String(nm)))
					}
					ci += 2
				}
			}
			if len(bad) == 0 {
				r.OK(c13R5, consF, pos, "dashes removed, 32 digits hex-decoded in order, 16 bytes passed to Unmarshal, nil error")
			} else {
				r.Fail(c13R5, consF, pos, strings.Join(c13Head(bad, 4), "; "))
			}
		}
	}
}

func c13Big(n int64) *big.Int { return big.NewInt(n) }

// constString resolves a package-level string constant.
func (x *c13) constString(rel, name string) (string, bool) {
	pk := x.P.Pkg(rel)
	if pk == nil {
		return "", false
	}
	k, ok := pk.Types.Scope().Lookup(name).(*types.Const)
	if !ok || k.Val().Kind() != constant.String {
		return "", false
	}
	return constant.StringVal(k.Val()), true
}

// completeness — COMPLETENESS BEFORE VERDICT. Every C13 clause is decided by
// interpreting the functions over the lane domain. "Undecided" therefore means
// that the interpretation did not get through the code as written today (a
// construct or library call that is not modelled, a data-dependent branch, a
// value whose bit provenance is ⊤ because it went through arithmetic the
// lanes do not track) or that an intermediate call the rule looks for (the
// type's own Marshal/Unmarshal, a regexp match in front of a parser) was not
// met on the path taken: the rule has then OBSERVED nothing that contradicts
// the property, and a behaviour-preserving rewrite into such a construct is as
// likely as a defect. Those clauses are recorded as "NOT DECIDED — …" (held,
// with a note in the evidence) instead of being reported. What stays a
// failure: a missing anchor (function, type, constant or signature that no
// longer resolves), an internal error of the checker, and an abort because the
// code WOULD PANIC on a well-formed input of the analysed shape (that is an
// observation), and an abort because a separator / cutset / pattern character
// of the parser is itself a hexadecimal digit (what is cut then depends on the
// digits' values). Lane mismatches (wrong byte, wrong order, stale bits, a digit
// parsed twice, a refused well-formed string …) are violations as before.
func (x *c13) completeness() {
	r := x.R
	for _, o := range r.Obls {
		if o.Status != report.Undecided || o.Rule == "anchor" {
			continue
		}
		keep := false
		// "symbolic hex digit": a separator, cutset or pattern character of the
		// parser is itself a hexadecimal digit, so what it cuts or trims depends
		// on the VALUE of the digits — an observed defect of a hex-text codec
		for _, k := range []string{"would panic", "internal error", "does not resolve", "no longer has exactly one parameter", "is no longer the guid.GUID type", "symbolic hex digit"} {
			if strings.Contains(o.Reason, k) {
				keep = true
			}
		}
		if keep {
			continue
		}
		r.Note("%s %s: NOT DECIDED — %s", o.Rule, o.Construct, o.Reason)
		o.Reason = "NOT DECIDED — " + o.Reason + " (no offending construct was observed; see the notes)"
		o.Status = report.Discharged
		o.StatusStr = o.Status.String()
	}
}
