package rules

import (
	"fmt"
	"go/token"
	"go/types"
	"strings"

	"golang.org/x/tools/go/ssa"

	"manticheck/internal/lin"
	"manticheck/internal/prove"
	"manticheck/internal/wire"
)

// C09 R3 `names`, decoder side. DecodeDomainName is decided on what it does,
// not on how it is laid out:
//
//   - the reads (length byte, 16-bit pointer word, label bytes) are taken from
//     the internal/wire layout, with in-module helpers that receive the buffer
//     analysed at their call sites (a `decodeNamePointer(data, at, start)` step);
//   - a compression pointer is FOLLOWED either by a call of DecodeDomainName —
//     in the function itself or in such a helper — or by a JUMP: a back edge of
//     the label loop on which the cursor takes the masked pointer value;
//   - "strictly backwards" is, for a call, pointer < offset of this activation
//     (proved with E1 through the chain of helper calls), and for a jump a
//     lexicographic ranking: some loop variable M with M' < M and M' >= 0 on
//     every jump edge and M' = M, cursor' > cursor on every other back edge;
//   - the offset returned after a pointer is the end of the FIRST pointer word:
//     directly (recursive form), or through a "set once" variable initialised
//     to a negative sentinel (iterative form).
//
//   - the tag test and the terminator test are decided on WHICH of the 256
//     values of the length byte reach the code that follows a pointer, reads a
//     label or leaves with success (c09ByteDispatch: branch conditions that
//     are functions of the length byte alone are evaluated with
//     wire.EvalPure, in-module predicate helpers included), so b&0xC0 == 0xC0,
//     b >= 0xC0, b>>6 == 3, isCompressionPointer(b) and a switch are the same
//     thing; the length byte may be read several times in one iteration;
//   - a success return whose offset is a φ joining several ways out (the
//     pointer branch leaving through the common tail) is judged per way out.
//
// When the input buffer flows into code that was not analysed (wire.Dec
// escapes), or a branch on the length byte cannot be evaluated, the clauses
// are reported NOT DECIDED, never as violations.

var c09DecKeys = []string{
	"DecodeDomainName: label follows its length byte and is as long as it says",
	"DecodeDomainName: cursor advances to the end of the label",
	"DecodeDomainName: pointer is the 16-bit big-endian word at the length byte",
	"DecodeDomainName: terminator consumes 1 byte, pointer consumes 2",
	"DecodeDomainName: pointer tag test is (b & labelPointer) == labelPointer",
	"DecodeDomainName: pointer mask is 0x3FFF and feeds the recursive call",
	"DecodeDomainName: compression pointer must point strictly backwards (pointer < start)",
	"DecodeDomainName: a zero length byte ends the name",
}

// c09RecSite is a call of the decoder reachable from the decoder itself.
type c09RecSite struct {
	chain []*ssa.Call // calls leading from the decoder into helpers; the last one calls the decoder
}

// c09RecSites: every call of root in root or in the in-module functions root
// reaches through static calls (two levels of helpers).
func c09RecSites(c *Ctx, root *ssa.Function) []c09RecSite {
	var out []c09RecSite
	var walk func(f *ssa.Function, chain []*ssa.Call, onPath map[*ssa.Function]bool)
	walk = func(f *ssa.Function, chain []*ssa.Call, onPath map[*ssa.Function]bool) {
		for _, b := range f.Blocks {
			for _, in := range b.Instrs {
				call, ok := in.(*ssa.Call)
				if !ok {
					continue
				}
				g := call.Call.StaticCallee()
				if g == nil || g.Blocks == nil || call.Call.IsInvoke() || !c.P.InModule(g) {
					continue
				}
				nc := append(append([]*ssa.Call(nil), chain...), call)
				if g == root {
					out = append(out, c09RecSite{chain: nc})
					continue
				}
				if onPath[g] || len(chain) >= 2 || wUnits[g] {
					continue
				}
				onPath[g] = true
				walk(g, nc, onPath)
				delete(onPath, g)
			}
		}
	}
	walk(root, nil, map[*ssa.Function]bool{root: true})
	return out
}

func c09IntParams(f *ssa.Function) []*ssa.Parameter {
	var out []*ssa.Parameter
	for _, p := range f.Params {
		if bt, ok := p.Type().Underlying().(*types.Basic); ok && bt.Kind() == types.Int {
			out = append(out, p)
		}
	}
	return out
}

func c09ParamIndex(f *ssa.Function, p *ssa.Parameter) int {
	for i, q := range f.Params {
		if q == p {
			return i
		}
	}
	return -1
}

// c09ProveRel proves a < b (strict) or a <= b just before `at`.
func c09ProveRel(w *prove.World, at ssa.Instruction, a, b ssa.Value, strict bool) bool {
	cx := w.Info(at.Parent()).CtxBefore(at)
	if strict {
		return cx.Prove(lin.LT(cx.Lin(a), cx.Lin(b)))
	}
	return cx.Prove(lin.LE(cx.Lin(a), cx.Lin(b)))
}

// c09Backward proves, for one recursion site, that the offset handed to the
// decoder is strictly smaller than the offset the current activation of the
// decoder started at: directly, or through the helpers on the way (some
// parameter P of the helper bounds the value, and what the caller passes for P
// is itself bounded by the caller's bound).
func c09Backward(w *prove.World, root *ssa.Function, offIdx int, site c09RecSite) bool {
	last := site.chain[len(site.chain)-1]
	if offIdx >= len(last.Call.Args) {
		return false
	}
	// bounded(level, v, strict): v (a value of the function that contains
	// chain[level]) is < / <= the decoder's own offset, at chain[level]
	var bounded func(level int, v ssa.Value, strict bool) bool
	bounded = func(level int, v ssa.Value, strict bool) bool {
		at := site.chain[level]
		f := at.Parent()
		if f == root && level == 0 {
			return c09ProveRel(w, at, v, root.Params[offIdx], strict)
		}
		if level == 0 {
			return false
		}
		for _, p := range c09IntParams(f) {
			idx := c09ParamIndex(f, p)
			up := site.chain[level-1]
			if idx < 0 || idx >= len(up.Call.Args) {
				continue
			}
			switch {
			case c09ProveRel(w, at, v, p, strict):
				// v <(=) p and p's argument <= offset
				if bounded(level-1, up.Call.Args[idx], false) {
					return true
				}
			case strict && c09ProveRel(w, at, v, p, false):
				// v <= p and p's argument < offset
				if bounded(level-1, up.Call.Args[idx], true) {
					return true
				}
			}
		}
		return false
	}
	return bounded(len(site.chain)-1, last.Call.Args[offIdx], true)
}

// c09MaskOf: v is (pointer word & K), conversions stripped.
func c09MaskOf(v ssa.Value, word ssa.Value) (int64, bool) {
	and, ok := wire.StripConv(v).(*ssa.BinOp)
	if !ok || and.Op != token.AND {
		return 0, false
	}
	for _, as := range [][2]ssa.Value{{and.X, and.Y}, {and.Y, and.X}} {
		if kk, isK := wConstOf(as[1]); isK && wire.StripConv(as[0]) == word {
			return kk, true
		}
	}
	return 0, false
}

// c09Latch recognises a "set once" variable: v is a φ joining E (kept when E is
// already set) with X (taken when E still holds its negative sentinel):
//
//	if E < 0 { E = X }
//
// and returns X.
func c09Latch(v ssa.Value, e *ssa.Phi) (ssa.Value, bool) {
	phi, ok := v.(*ssa.Phi)
	if !ok || len(phi.Edges) != 2 {
		return nil, false
	}
	pb := phi.Block()
	for i := 0; i < 2; i++ {
		if phi.Edges[i] != ssa.Value(e) {
			continue
		}
		x := phi.Edges[1-i]
		keepPred, setPred := pb.Preds[i], pb.Preds[1-i]
		// the branch: a block ending in `if E < 0` (or E == sentinel …) whose
		// "unset" successor leads to setPred and whose other successor is the join
		for _, cand := range []*ssa.BasicBlock{keepPred} {
			iff, ok := cand.Instrs[len(cand.Instrs)-1].(*ssa.If)
			if !ok || len(cand.Succs) != 2 {
				continue
			}
			cmp, ok := iff.Cond.(*ssa.BinOp)
			if !ok {
				continue
			}
			unsetOnTrue, okc := c09UnsetTest(cmp, e)
			if !okc {
				continue
			}
			unset, set := cand.Succs[0], cand.Succs[1]
			if !unsetOnTrue {
				unset, set = set, unset
			}
			if set == pb && (unset == setPred || unset.Dominates(setPred)) && len(unset.Preds) == 1 {
				return x, true
			}
		}
	}
	return nil, false
}

// c09UnsetTest: cmp tests whether e still holds its (negative) sentinel.
// Returns whether the TRUE outcome means "unset".
func c09UnsetTest(cmp *ssa.BinOp, e *ssa.Phi) (bool, bool) {
	sent, okS := c09Sentinel(e)
	if !okS {
		return false, false
	}
	x, y, op := cmp.X, cmp.Y, cmp.Op
	if y == ssa.Value(e) {
		x, y = y, x
		switch op {
		case token.LSS:
			op = token.GTR
		case token.LEQ:
			op = token.GEQ
		case token.GTR:
			op = token.LSS
		case token.GEQ:
			op = token.LEQ
		}
	}
	if x != ssa.Value(e) {
		return false, false
	}
	k, isK := wConstOf(y)
	if !isK {
		return false, false
	}
	switch {
	case op == token.LSS && k <= 0 && k > sent: // e < 0
		return true, true
	case op == token.GEQ && k <= 0 && k > sent:
		return false, true
	case op == token.LEQ && k < 0 && k >= sent:
		return true, true
	case op == token.GTR && k < 0 && k >= sent:
		return false, true
	case op == token.EQL && k == sent:
		return true, true
	case op == token.NEQ && k == sent:
		return false, true
	}
	return false, false
}

// c09Sentinel: the header φ e enters the loop with a negative constant.
func c09Sentinel(e *ssa.Phi) (int64, bool) {
	hb := e.Block()
	for i, p := range hb.Preds {
		if hb.Dominates(p) {
			continue
		}
		k, isK := wConstOf(e.Edges[i])
		if !isK || k >= 0 {
			return 0, false
		}
		return k, true
	}
	return 0, false
}

func c09NamesDecoder(c *Ctx, w *prove.World, decA *wcodec, tag int64, layouts map[string]string) {
	r := c.R
	dx := wire.New(w, decA.fn)
	dx.Units = wUnits
	d := dx.Decode()
	flat := wire.Flatten(d.Atoms)
	layouts["DecodeDomainName"] = wire.Render(d.Atoms)
	escapes := d.AllEscapes()
	notDecided := func(why string) {
		for _, k := range c09DecKeys {
			r.OK("names", k, decA.pos, "NOT DECIDED — "+why)
		}
		r.Note("C09 names: DecodeDomainName NOT DECIDED — %s (layout read: %s)", why, wire.Render(d.Atoms))
	}
	if len(escapes) > 0 {
		notDecided("the input buffer reaches code that was not analysed: " + strings.Join(escapes, "; "))
		return
	}
	var lenA, ptrA, labA *wire.Atom
	var recAs []*wire.Atom
	for i := range flat {
		a := &flat[i]
		switch {
		case a.Kind == "fixed" && a.Width == 1 && lenA == nil:
			lenA = a
		case a.Kind == "fixed" && a.Width == 2 && ptrA == nil:
			ptrA = a
		case a.Kind == "nested" && a.Callee == decA.fn:
			recAs = append(recAs, a)
		case a.Kind == "bytes" && labA == nil:
			labA = a
		}
	}
	if lenA == nil || ptrA == nil || labA == nil || lenA.Off == nil || lenA.End == nil || labA.Off == nil || labA.End == nil || ptrA.Off == nil || ptrA.End == nil {
		// nothing contradicting the rule was observed: the decoder reads its length octet,
		// pointer or label in a form this rule does not read (e.g. the pointer assembled by
		// hand from the length octet already read and the next byte)
		notDecided("length byte / pointer word / label read not all recognised: " + wire.Render(d.Atoms))
		return
	}
	// every read of the length byte of this iteration (the same offset may be
	// read more than once: `if data[curr] == 0`, `isPointer(data[curr])`,
	// `length := int(data[curr])`); the input buffer is not written by a decoder
	lenVals := map[ssa.Value]bool{}
	for i := range flat {
		a := &flat[i]
		if a.Kind == "fixed" && a.Width == 1 && a.Off != nil && a.Val != nil && a.Off.Equal(*lenA.Off) {
			lenVals[a.Val] = true
		}
	}
	// the label loop and its cursor
	loop := dx.LoopOf(lenA.At.Block())
	var cursor *ssa.Phi
	if loop != nil {
		for t := range lenA.Off.T {
			if phi, ok := t.(*ssa.Phi); ok && phi.Block() == loop.Header {
				cursor = phi
			}
		}
	}
	type backEdge struct {
		pred *ssa.BasicBlock
		val  wire.Sym
		raw  ssa.Value
		jump bool
		mask int64
	}
	var backs []backEdge
	var jumps []int
	if cursor != nil {
		for i, p := range loop.Header.Preds {
			if !loop.Header.Dominates(p) {
				continue
			}
			be := backEdge{pred: p, val: dx.Sym(cursor.Edges[i]), raw: cursor.Edges[i]}
			if t, single := be.val.Single(); single {
				if k, ok := c09MaskOf(t, ptrA.Val); ok {
					be.jump, be.mask = true, k
				} else if wire.StripConv(t) == ptrA.Val {
					be.jump, be.mask = true, -1
				}
			}
			if be.jump {
				jumps = append(jumps, len(backs))
			}
			backs = append(backs, be)
		}
	}
	sites := c09RecSites(c, decA.fn)
	if len(sites) == 0 && len(jumps) == 0 {
		// complete extraction, a pointer word is read, and nothing follows it
		for _, k := range c09DecKeys[:5] {
			_ = k
		}
		r.Fail("names", c09DecKeys[6], c.P.Rel(ptrA.Pos), "the pointer word is read but never followed: neither a call of DecodeDomainName at the pointer's offset nor a jump of the cursor to it was found; names that use compression cannot be decoded")
		return
	}

	// 1. label follows its length byte
	key := c09DecKeys[0]
	wv, single := labA.End.Sub(*labA.Off).Single()
	if labA.Off.Equal(*lenA.End) && single && lenVals[wv] {
		r.OK("names", key, c.P.Rel(labA.Pos), "label = data[curr+1 : curr+1+length]")
	} else {
		r.Fail("names", key, c.P.Rel(labA.Pos), fmt.Sprintf("the label is read from [%s, %s) but its length byte is at %s", dx.SymString(*labA.Off), dx.SymString(*labA.End), dx.SymString(*lenA.Off)))
	}
	// 2. cursor advances to the end of the label on every back edge that is not a jump
	key = c09DecKeys[1]
	switch {
	case cursor == nil:
		r.Undecided("names", key, c.P.Rel(labA.Pos), "the label loop has no cursor φ that the length byte is read at")
	default:
		bad := ""
		n := 0
		for _, be := range backs {
			if be.jump {
				continue
			}
			n++
			if !be.val.Equal(*labA.End) {
				bad = fmt.Sprintf("after a label ending at %s the cursor continues at %s", dx.SymString(*labA.End), dx.SymString(be.val))
			}
		}
		switch {
		case bad != "":
			r.Fail("names", key, c.P.Rel(labA.Pos), bad)
		case n == 0:
			r.Fail("names", key, c.P.Rel(labA.Pos), "no back edge of the label loop advances the cursor past the label")
		default:
			r.OK("names", key, c.P.Rel(labA.Pos), "curr += 1 + length")
		}
	}
	// 3. pointer word
	key = c09DecKeys[2]
	if ptrA.Off.Equal(*lenA.Off) && ptrA.Order == "BE" {
		r.OK("names", key, c.P.Rel(ptrA.Pos), "binary.BigEndian.Uint16(data[curr:])")
	} else {
		r.Fail("names", key, c.P.Rel(ptrA.Pos), fmt.Sprintf("the pointer word is read %s at %s; it is the big-endian word starting at the tagged length byte (%s)", ptrA.Order, dx.SymString(*ptrA.Off), dx.SymString(*lenA.Off)))
	}
	// 4. returned offsets
	key = c09DecKeys[3]
	var followBlocks []*ssa.BasicBlock
	for _, st := range sites {
		followBlocks = append(followBlocks, st.chain[0].Block())
	}
	for _, j := range jumps {
		followBlocks = append(followBlocks, backs[j].pred)
	}
	c09RetOffsets(c, dx, d, decA, key, lenA, ptrA, recAs, followBlocks, cursor, len(jumps) > 0, func(i int) (ssa.Value, *ssa.BasicBlock) { return backs[jumps[i]].raw, backs[jumps[i]].pred }, len(jumps))

	// 5. tag test and 8. terminator, decided on WHICH values of the length byte
	// reach the code that follows a pointer / reads a label / leaves with
	// success — not on how the tests are written (c09ByteDispatch)
	disp := c09ByteDispatch(c, dx, decA, loop, lenA, lenVals, followBlocks, labA.At.Block(), d.Rets)
	key = c09DecKeys[4]
	switch {
	case disp.nd != "":
		r.OK("names", key, decA.pos, "NOT DECIDED — "+disp.nd)
		r.Note("C09 names: tag test of DecodeDomainName NOT DECIDED — %s", disp.nd)
	default:
		bad := ""
		for b := int64(0); b < 256 && bad == ""; b++ {
			isPtr := b&tag == tag && tag != 0
			switch {
			case isPtr && !disp.follow[b]:
				bad = fmt.Sprintf("a length byte %#x has both labelPointer bits (%#x) set but is not followed as a compression pointer", b, tag)
			case isPtr && disp.label[b]:
				bad = fmt.Sprintf("a length byte %#x has both labelPointer bits (%#x) set but may also be read as the length of a label", b, tag)
			case !isPtr && disp.follow[b]:
				bad = fmt.Sprintf("a length byte %#x is followed as a compression pointer although (b & labelPointer) != labelPointer = %#x (ordinary labels or extended label types are followed as pointers)", b, tag)
			case !isPtr && b != 0 && !disp.label[b]:
				bad = fmt.Sprintf("a length byte %#x is an ordinary label length (b & labelPointer != labelPointer = %#x) but no label is read for it", b, tag)
			}
		}
		if bad != "" {
			r.Fail("names", key, decA.pos, "the pointer branch must be taken exactly when (b & labelPointer) == labelPointer: "+bad)
		} else {
			r.OK("names", key, decA.pos, fmt.Sprintf("evaluated for all 256 values of the length byte: a pointer is followed exactly when (b & %#x) == %#x, every other non-zero value is a label length", tag, tag))
		}
	}

	// 6. mask: every offset a pointer is followed to is (pointer word & 0x3FFF)
	key = c09DecKeys[5]
	wantMask := int64(0xFFFF) ^ (tag << 8)
	offIdx := -1
	for i, prm := range decA.fn.Params {
		if bt, ok := prm.Type().Underlying().(*types.Basic); ok && bt.Kind() == types.Int {
			offIdx = i
		}
	}
	type follow struct {
		mask int64 // -1: not masked; -2: not the pointer word at all
		pos  token.Pos
		what string
	}
	var follows []follow
	for _, s := range sites {
		last := s.chain[len(s.chain)-1]
		f := follow{mask: -2, pos: last.Pos(), what: "the offset passed to the recursive DecodeDomainName call"}
		if offIdx >= 0 && offIdx < len(last.Call.Args) {
			arg := last.Call.Args[offIdx]
			if k, ok := c09MaskOf(arg, ptrA.Val); ok {
				f.mask = k
			} else if wire.StripConv(arg) == ptrA.Val {
				f.mask = -1
			}
		}
		follows = append(follows, f)
	}
	for _, j := range jumps {
		follows = append(follows, follow{mask: backs[j].mask, pos: backs[j].raw.Pos(), what: "the offset the cursor jumps to"})
	}
	{
		bad := ""
		var bpos token.Pos
		for _, f := range follows {
			switch {
			case f.mask == -2:
				bad, bpos = f.what+" is not (pointer word & constant)", f.pos
			case f.mask == -1:
				bad, bpos = f.what+" is the unmasked pointer word (the two tag bits are part of the offset)", f.pos
			case f.mask != wantMask:
				bad, bpos = fmt.Sprintf("the pointer word is masked with %#x; the offset is its low 14 bits (%#x = 0xFFFF ^ labelPointer<<8)", f.mask, wantMask), f.pos
			}
		}
		if bad != "" {
			r.Fail("names", key, c.P.Rel(bpos), bad)
		} else {
			r.OK("names", key, c.P.Rel(follows[0].pos), fmt.Sprintf("mask %#x = 0xFFFF ^ labelPointer<<8 on %d followed pointer(s)", wantMask, len(follows)))
		}
	}

	// 7. strictly backwards
	key = c09DecKeys[6]
	{
		bad := ""
		var bpos token.Pos
		how := []string{}
		for _, s := range sites {
			last := s.chain[len(s.chain)-1]
			if offIdx < 0 || !c09Backward(w, decA.fn, offIdx, s) {
				bad, bpos = "pointer < start is not established at the recursive call: a pointer to itself or forwards is followed (unbounded recursion on a 2-byte input C0 0C at offset 12)", last.Pos()
			} else if len(s.chain) > 1 {
				how = append(how, fmt.Sprintf("E1 through %d helper call(s): the offset argument of the recursive call is < the offset this activation started at", len(s.chain)-1))
			} else {
				how = append(how, "E1: the offset argument of the recursive call is < the offset this activation started at")
			}
		}
		if len(jumps) > 0 {
			if m, why := c09Ranking(w, dx, loop, cursor, func() []int { return jumps }(), func(i int) (*ssa.BasicBlock, bool) { return backs[i].pred, backs[i].jump }, len(backs)); m != nil {
				how = append(how, "E1 ranking: on every jump "+dx.Expr(m)+" strictly decreases and stays >= 0; on every other back edge it is unchanged and the cursor advances")
			} else {
				bad, bpos = "the loop follows a pointer by jumping to it, and no loop variable was found that strictly decreases at every jump (and is unchanged while labels are read): "+why+" — a pointer to itself or forwards is followed for ever", backs[jumps[0]].raw.Pos()
			}
		}
		if bad != "" {
			r.Fail("names", key, c.P.Rel(bpos), bad)
		} else {
			r.OK("names", key, decA.pos, strings.Join(how, "; "))
		}
	}

	// 8. zero length byte ends the name
	key = c09DecKeys[7]
	switch {
	case disp.nd != "":
		r.OK("names", key, decA.pos, "NOT DECIDED — "+disp.nd)
	case disp.follow[0] || disp.label[0]:
		r.Fail("names", key, decA.pos, "a zero length byte is not a terminator: it may be followed as a pointer or read as an (empty) label — the encoder's terminating zero byte is not recognised")
	case !disp.exit[0]:
		r.Fail("names", key, decA.pos, "no test `length == 0` that leaves the label loop: after a zero length byte no success return is reached without reading a label or a pointer — the encoder's terminating zero byte is not recognised")
	default:
		bad := int64(-1)
		for b := int64(1); b < 256; b++ {
			if disp.exitSure[b] {
				bad = b
				break
			}
		}
		if bad >= 0 {
			r.Fail("names", key, decA.pos, fmt.Sprintf("a length byte %#x ends the name like the terminating zero byte does (no label or pointer is read for it)", bad))
		} else {
			r.OK("names", key, decA.pos, "length == 0 leaves the label loop")
		}
	}
}

// c09Ranking looks for a header φ M of the label loop that makes the loop
// terminate although the cursor jumps backwards: on every jump edge M' < M and
// M' >= 0; on every other back edge M' is M itself and the cursor grows.
func c09Ranking(w *prove.World, dx *wire.X, loop *wire.Loop, cursor *ssa.Phi, jumps []int, edge func(i int) (*ssa.BasicBlock, bool), nback int) (ssa.Value, string) {
	hb := loop.Header
	// index of each back-edge predecessor in hb.Preds, in the order of `backs`
	var predIdx []int
	for i, p := range hb.Preds {
		if hb.Dominates(p) {
			predIdx = append(predIdx, i)
		}
	}
	if len(predIdx) != nback {
		return nil, "back edges do not line up"
	}
	why := "no integer loop variable"
	for _, in := range hb.Instrs {
		m, ok := in.(*ssa.Phi)
		if !ok {
			break
		}
		if bt, isB := m.Type().Underlying().(*types.Basic); !isB || bt.Kind() != types.Int {
			continue
		}
		good := true
		for bi := 0; bi < nback && good; bi++ {
			pred, isJump := edge(bi)
			at := pred.Instrs[len(pred.Instrs)-1]
			cx := w.Info(hb.Parent()).CtxBefore(at)
			mv := m.Edges[predIdx[bi]]
			if isJump {
				if !cx.Prove(lin.LT(cx.Lin(mv), cx.Lin(m))) {
					good = false
					why = fmt.Sprintf("%s is not proved to decrease at a jump", dx.Expr(m))
				} else if !cx.Prove(lin.GE(cx.Lin(mv), lin.K(0))) {
					good = false
					why = fmt.Sprintf("%s is not proved to stay >= 0 at a jump", dx.Expr(m))
				}
				continue
			}
			if mv != ssa.Value(m) && !dx.Sym(mv).Equal(dx.Sym(m)) {
				good = false
				why = fmt.Sprintf("%s changes on a back edge that is not a jump", dx.Expr(m))
				continue
			}
			cv := cursor.Edges[predIdx[bi]]
			if !cx.Prove(lin.GT(cx.Lin(cv), cx.Lin(cursor))) {
				good = false
				why = "the cursor is not proved to advance on a back edge that is not a jump"
			}
		}
		if good {
			return m, ""
		}
	}
	return nil, why
}

// c09RetOffsets: clause 4.
func c09RetOffsets(c *Ctx, dx *wire.X, d *wire.Dec, decA *wcodec, key string, lenA, ptrA *wire.Atom, recAs []*wire.Atom, followBlocks []*ssa.BasicBlock, cursor *ssa.Phi, iterative bool, jump func(i int) (ssa.Value, *ssa.BasicBlock), njumps int) {
	r := c.R
	if len(d.Rets) == 0 || len(d.RetOff) != len(d.Rets) {
		r.Undecided("names", key, decA.pos, "the success returns of DecodeDomainName do not all carry a new offset")
		return
	}
	if !iterative {
		// the offset returned on a success return may be a φ that joins the two
		// ways out (the pointer branch leaving through the common tail): each
		// value that flows into it is judged by where it comes from
		type leaf struct {
			v    ssa.Value
			from *ssa.BasicBlock
		}
		okRet := true
		why := ""
		n := 0
		for i, ret := range d.Rets {
			var leaves []leaf
			var expand func(v ssa.Value, from *ssa.BasicBlock, depth int)
			expand = func(v ssa.Value, from *ssa.BasicBlock, depth int) {
				if phi, ok := v.(*ssa.Phi); ok && depth < 6 {
					isHeader := false
					for _, p := range phi.Block().Preds {
						if phi.Block().Dominates(p) {
							isHeader = true
						}
					}
					if !isHeader {
						for k, e := range phi.Edges {
							expand(e, phi.Block().Preds[k], depth+1)
						}
						return
					}
				}
				leaves = append(leaves, leaf{v, from})
			}
			if len(ret.Results) == 3 {
				expand(ret.Results[1], ret.Block(), 0)
			} else {
				leaves = []leaf{{nil, ret.Block()}}
			}
			for _, lf := range leaves {
				n++
				got := d.RetOff[i]
				if lf.v != nil {
					got = dx.Sym(lf.v)
				}
				want := *lenA.End
				branch := "terminator"
				for _, rec := range recAs {
					if rec.At.Block() == lf.from || rec.At.Block().Dominates(lf.from) {
						want = *ptrA.End
						branch = "pointer"
					}
				}
				for _, fb := range followBlocks {
					if fb == lf.from || fb.Dominates(lf.from) {
						want = *ptrA.End
						branch = "pointer"
					}
				}
				if !got.Equal(want) {
					okRet = false
					why = fmt.Sprintf("the %s return yields offset %s, expected %s", branch, dx.SymString(got), dx.SymString(want))
				}
			}
		}
		if okRet {
			r.OK("names", key, decA.pos, fmt.Sprintf("%d success returns, %d ways out", len(d.Rets), n))
		} else {
			r.Fail("names", key, decA.pos, "new offset after a name is wrong: "+why)
		}
		return
	}
	// iterative: the offset returned is a "set once" variable E — sentinel on
	// entry, the end of the pointer word at the first jump, the end of the
	// terminator when no jump happened
	hb := cursor.Block()
	for i := range d.Rets {
		ro := d.RetOff[i]
		if ro.Equal(*lenA.End) {
			r.Fail("names", key, c.P.Rel(d.Rets[i].Pos()), "the offset returned is the cursor after the terminator, but the cursor may have jumped to a compression pointer's target: the caller continues inside the earlier name instead of after the 2-byte pointer")
			return
		}
		t, single := ro.Single()
		if !single {
			r.OK("names", key, decA.pos, "NOT DECIDED — the returned offset "+dx.SymString(ro)+" is not a variable of a form this rule relates to the first pointer")
			r.Note("C09 names: returned offset of the iterative DecodeDomainName NOT DECIDED (%s)", dx.SymString(ro))
			return
		}
		// find the header φ E the returned value latches
		var e *ssa.Phi
		var exitVal ssa.Value
		for _, in := range hb.Instrs {
			phi, ok := in.(*ssa.Phi)
			if !ok {
				break
			}
			if phi == cursor {
				continue
			}
			if x, ok := c09Latch(t, phi); ok {
				e, exitVal = phi, x
			}
		}
		if e == nil {
			r.OK("names", key, decA.pos, "NOT DECIDED — the returned offset "+dx.SymString(ro)+" is not a `set once` variable (if end < 0 { end = … }) of the label loop")
			r.Note("C09 names: returned offset of the iterative DecodeDomainName NOT DECIDED (%s)", dx.SymString(ro))
			return
		}
		if !dx.Sym(exitVal).Equal(*lenA.End) {
			r.Fail("names", key, c.P.Rel(d.Rets[i].Pos()), fmt.Sprintf("without a pointer the offset returned is %s; the terminator ends at %s", dx.SymString(dx.Sym(exitVal)), dx.SymString(*lenA.End)))
			return
		}
		// back edges of E
		j := 0
		for bi, p := range hb.Preds {
			if !hb.Dominates(p) {
				continue
			}
			ev := e.Edges[bi]
			isJump := false
			for k := 0; k < njumps; k++ {
				if _, jp := jump(k); jp == p {
					isJump = true
				}
			}
			if !isJump {
				if ev != ssa.Value(e) {
					r.Fail("names", key, c.P.Rel(d.Rets[i].Pos()), "the variable that keeps the end of the first pointer is changed while labels are read")
					return
				}
				continue
			}
			j++
			x, ok := c09Latch(ev, e)
			if !ok {
				r.OK("names", key, decA.pos, "NOT DECIDED — at a jump the variable that keeps the end of the first pointer is not updated by `if end < 0 { end = … }`")
				return
			}
			if !dx.Sym(x).Equal(*ptrA.End) {
				r.Fail("names", key, c.P.Rel(x.Pos()), fmt.Sprintf("at the first pointer the offset kept for the caller is %s; the pointer word ends at %s", dx.SymString(dx.Sym(x)), dx.SymString(*ptrA.End)))
				return
			}
		}
	}
	r.OK("names", key, decA.pos, fmt.Sprintf("%d success return(s): the end of the first pointer word (kept in a set-once variable), else the end of the terminator", len(d.Rets)))
}

// c09Dispatch: for every value b of the length byte, what one iteration of the
// label loop may do with it.
type c09Dispatch struct {
	follow   [256]bool // the code that follows a compression pointer is reached
	label    [256]bool // a label read is reached
	exit     [256]bool // a success return is reached without reading a label or following a pointer
	exitSure [256]bool // … for a non-zero byte
	nd       string    // why the dispatch could not be evaluated
}

// c09ByteDispatch walks the control flow of one iteration of the label loop
// for each of the 256 values of the length byte. A branch whose condition is a
// function of the length byte alone is evaluated (wire.EvalPure: any pure
// expression, in-module predicate helpers included) and only the successor
// taken is followed; every other branch (bounds checks, error checks) is
// followed both ways. The walk does not continue past the blocks that follow
// a pointer or read a label, and does not re-enter the loop header.
func c09ByteDispatch(c *Ctx, dx *wire.X, decA *wcodec, loop *wire.Loop, lenA *wire.Atom, lenVals map[ssa.Value]bool, followBlocks []*ssa.BasicBlock, labelBlock *ssa.BasicBlock, rets []*ssa.Return) *c09Dispatch {
	out := &c09Dispatch{}
	if loop == nil {
		out.nd = "the length byte is not read inside a loop"
		return out
	}
	for v := range lenVals {
		if in, ok := v.(ssa.Instruction); !ok || in.Parent() != decA.fn {
			out.nd = "the length byte is read in a helper, not in DecodeDomainName itself: the tests on it are not evaluated there"
			return out
		}
	}
	stop := map[*ssa.BasicBlock]string{labelBlock: "label"}
	for _, fb := range followBlocks {
		if fb.Parent() != decA.fn {
			out.nd = "a pointer is followed outside DecodeDomainName itself"
			return out
		}
		stop[fb] = "follow"
	}
	if labelBlock.Parent() != decA.fn {
		out.nd = "the label is read outside DecodeDomainName itself"
		return out
	}
	retBlock := map[*ssa.BasicBlock]bool{}
	for _, r := range rets {
		retBlock[r.Block()] = true
	}
	callOK := func(f *ssa.Function) bool { return c.P.InModule(f) }
	env := map[ssa.Value]int64{}
	for b := int64(0); b < 256; b++ {
		for v := range lenVals {
			env[v] = b
		}
		seen := map[*ssa.BasicBlock]bool{}
		work := []*ssa.BasicBlock{loop.Header}
		for len(work) > 0 {
			blk := work[len(work)-1]
			work = work[:len(work)-1]
			if seen[blk] {
				continue
			}
			seen[blk] = true
			switch stop[blk] {
			case "label":
				out.label[b] = true
				continue
			case "follow":
				out.follow[b] = true
				continue
			}
			if retBlock[blk] {
				out.exit[b] = true
				continue
			}
			succs := blk.Succs
			if iff, ok := blk.Instrs[len(blk.Instrs)-1].(*ssa.If); ok && len(succs) == 2 {
				if v, _, okv := wire.EvalPure(iff.Cond, env, callOK); okv {
					if v != 0 {
						succs = succs[:1]
					} else {
						succs = succs[1:]
					}
				} else if wire.DependsOn(iff.Cond, lenVals) && wire.OnlyOf(iff.Cond, lenVals) {
					out.nd = "a branch of the label loop depends on the length byte alone but its condition could not be evaluated: " + dx.Expr(iff.Cond)
					return out
				}
			}
			for _, s := range succs {
				if s == loop.Header {
					continue
				}
				work = append(work, s)
			}
		}
		if b != 0 {
			out.exitSure[b] = out.exit[b]
		}
	}
	return out
}
