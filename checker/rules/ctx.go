// Package rules binds the engines to Manticore's symbols: one file per property.
package rules

import (
	"fmt"
	"sort"

	"manticheck/internal/load"
	"manticheck/internal/prove"
	"manticheck/internal/report"
)

// Ctx is what a property check receives.
type Ctx struct {
	P    *load.Program
	R    *report.Run
	Tier string
}

type Check struct {
	ID      string
	NeedSSA bool
	Run     func(*Ctx)
}

var registry = map[string]*Check{}

func register(c *Check) { registry[c.ID] = c }

func Get(id string) *Check { return registry[id] }

func IDs() []string {
	var ids []string
	for k := range registry {
		ids = append(ids, k)
	}
	sort.Strings(ids)
	return ids
}

// guard runs f and converts a panic while analysing one construct into an
// undecided obligation (silence must mean "decided and held").
func (c *Ctx) guard(rule, construct, pos string, f func()) {
	defer func() {
		if r := recover(); r != nil {
			c.R.Undecided(rule, construct, pos, fmt.Sprintf("internal error while analysing this construct: %v", r))
		}
	}()
	f()
}

// sharedWorld memoises the E1 world per loaded program: several extensions of
// one check need it and building it costs seconds.
var sharedWorlds = map[*load.Program]*prove.World{}

func sharedWorld(p *load.Program) *prove.World {
	if w, ok := sharedWorlds[p]; ok {
		return w
	}
	w := prove.NewWorld(p)
	sharedWorlds[p] = w
	return w
}

// NotDecided records that a rule could not decide a construct because its
// extraction is incomplete or the shape is outside its method (policy: DESIGN.md
// §I.5b). It is a discharged obligation with an explicit reason plus a note, so
// floors still see the entity and the evidence lists what was not decided.
func (c *Ctx) NotDecided(rule, construct, pos, why string) {
	c.R.OK(rule, construct, pos, "NOT DECIDED — "+why)
	c.R.Note("%s: %s not decided: %s", rule, construct, why)
	n, _ := c.R.Extra["not_decided"].(int)
	c.R.Extra["not_decided"] = n + 1
}
