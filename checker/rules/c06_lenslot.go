package rules

import (
	"fmt"
	"go/types"
	"strings"

	"golang.org/x/tools/go/ssa"

	"manticheck/internal/codec"
	"manticheck/internal/lin"
	"manticheck/internal/prove"
)

// C06 extension `len-slot` (added after an independently seeded change —
// SMB_STRING.Marshal no longer re-synchronising Length from Buffer before
// writing it — was missed): in a format whose decoder reads a payload of
// exactly F bytes, F being the integer it decoded just before, the encoder must
// put len(payload) into F's slot. The rule takes every integer the encoder
// emits in that format's branch (encoding/binary PutUintN / AppendUintN) and
// asks E1 to prove, at the emit, value == len(recv.<payload field>), using the
// stores and guards that dominate it (`s.Length = USHORT(len(s.Buffer))`,
// `if len(s.Buffer) > MaxUint16 { return err }`, an equality guard, …).
//
// Verdicts: proved → discharged. Not proved and the emitted value is the
// receiver's length field as it came in (no store of it in this function on the
// way) → violation: the slot holds whatever the caller left there. Anything
// else → NOT DECIDED.
func c06LenSlot(c *Ctx, w *prove.World, m *ssa.Function, em *codec.Ext, k, key, pos string, dec []codec.Atom) {
	const rule = "len-slot"
	// decoder: payload field B read with width == a decoded integer field F
	var F, B string
	fixed := map[string]bool{}
	for _, a := range dec {
		if a.Kind == "fixed" && a.Field != "" {
			fixed[a.Field] = true
		}
		if a.Kind == "bytes" && a.Field != "" && fixed[a.WidthStr] {
			F, B = a.WidthStr, a.Field
		}
	}
	if F == "" {
		return
	}
	construct := fmt.Sprintf("%s: the %s slot holds len(%s)", key, F, B)
	if m.Signature.Recv() == nil || len(m.Params) == 0 {
		return
	}
	recv := m.Params[0]
	stt, ok := derefType(recv.Type()).Underlying().(*types.Struct)
	if !ok {
		return
	}
	fIdx, bIdx := -1, -1
	for i := 0; i < stt.NumFields(); i++ {
		switch stt.Field(i).Name() {
		case F:
			fIdx = i
		case B:
			bIdx = i
		}
	}
	if fIdx < 0 || bIdx < 0 {
		c.NotDecided(rule, construct, pos, "the fields are not direct fields of the receiver")
		return
	}
	fi := w.Info(m)
	n, proved := 0, 0
	var unproved, raw, differs []string
	for _, b := range m.Blocks {
		if caseOf(em, b, "BufferFormat") != k {
			continue
		}
		for _, in := range b.Instrs {
			call, ok := in.(*ssa.Call)
			if !ok {
				continue
			}
			sn := prove.StaticName(call.Common())
			if !strings.HasPrefix(sn, "(encoding/binary.") || !(strings.Contains(sn, ").PutUint") || strings.Contains(sn, ").AppendUint")) {
				continue
			}
			args := call.Common().Args
			v := args[len(args)-1]
			n++
			cx := fi.CtxBefore(call)
			// the payload as it is at this point
			var vb ssa.Value = fi.FieldValueAt(recv, bIdx, call)
			if vb == nil {
				// no earlier access: any load of the field in this branch stands for it if E1 identifies them
				for _, b2 := range m.Blocks {
					for _, in2 := range b2.Instrs {
						if ld, ok := in2.(*ssa.UnOp); ok {
							if fa, ok := ld.X.(*ssa.FieldAddr); ok && fa.X == ssa.Value(recv) && fa.Field == bIdx && vb == nil && b2.Dominates(b) {
								vb = ld
							}
						}
					}
				}
			}
			if vb == nil {
				unproved = append(unproved, c.P.Rel(call.Pos())+" (no value of "+B+" in reach)")
				continue
			}
			lhs, rhs := cx.Lin(v), cx.LenOf(vb)
			if cx.Prove(lin.GE(lhs, rhs)) && cx.Prove(lin.LE(lhs, rhs)) {
				proved++
				continue
			}
			if cx.Prove(lin.GE(lhs, rhs.AddK(1))) || cx.Prove(lin.LE(lhs, rhs.AddK(-1))) {
				differs = append(differs, c.P.Rel(call.Pos()))
				continue
			}
			// is the emitted value the incoming field itself?
			x := v
			for {
				if cv, ok := x.(*ssa.Convert); ok {
					x = cv.X
					continue
				}
				if ct, ok := x.(*ssa.ChangeType); ok {
					x = ct.X
					continue
				}
				break
			}
			isRaw := false
			if ld, ok := x.(*ssa.UnOp); ok {
				if fa, ok := ld.X.(*ssa.FieldAddr); ok && fa.X == ssa.Value(recv) && fa.Field == fIdx {
					rep := fi.LoadRep(ld)
					if _, stillLoad := rep.(*ssa.UnOp); stillLoad && !storeReaches(m, recv, fIdx, ld) {
						isRaw = true
					}
				}
			}
			if isRaw {
				raw = append(raw, c.P.Rel(call.Pos()))
			} else {
				unproved = append(unproved, c.P.Rel(call.Pos()))
			}
		}
	}
	switch {
	case len(differs) > 0:
		c.R.Fail(rule, construct, differs[0], fmt.Sprintf("E1 proves that the value written into the %s slot differs from len(%s): the decoder follows a length that is not the payload's", F, B))
	case len(raw) > 0:
		c.R.Fail(rule, construct, raw[0], fmt.Sprintf("the value written into the %s slot is the receiver's %s field as the caller left it, and nothing in Marshal relates it to len(%s): a value whose %s differs from the payload's length is encoded with a length the decoder will follow into the wrong bytes", F, F, B, F))
	case n == 0:
		c.NotDecided(rule, construct, pos, "no encoding/binary integer write in this format's branch (the slot is written some other way)")
	case len(unproved) > 0:
		c.NotDecided(rule, construct, pos, "value == len("+B+") not proved at "+strings.Join(unproved, ", ")+" and the value is not the plain incoming field")
	default:
		c.R.OK(rule, construct, pos, fmt.Sprintf("E1: at each of the %d integer writes of this branch the value equals len(%s)", proved, B))
	}
}

// storeReaches: some store to field #idx of recv can execute before ld.
func storeReaches(fn *ssa.Function, recv ssa.Value, idx int, ld ssa.Instruction) bool {
	for _, b := range fn.Blocks {
		for _, in := range b.Instrs {
			if st, ok := in.(*ssa.Store); ok {
				if fa, ok := st.Addr.(*ssa.FieldAddr); ok && fa.X == recv && fa.Field == idx && instrReaches(st, ld) {
					return true
				}
			}
		}
	}
	return false
}
