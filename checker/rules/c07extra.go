package rules

import (
	"golang.org/x/tools/go/ssa"

	"manticheck/internal/prove"
)

func c07Extra(c *Ctx, w *prove.World, scope []*ssa.Function, inScope map[*ssa.Function]bool, ai *astIndex) {
}
