package rules

import (
	"fmt"
	"go/token"
	"go/types"
	"sort"
	"strings"

	"golang.org/x/tools/go/ssa"

	"manticheck/internal/prove"
	"manticheck/internal/report"
)

// c07Extra enumerates, independently of the compiler, every other way a
// decoder in scope can fail to return: panic sources, unbounded allocation,
// loops and recursion without a ranking argument.
func c07Extra(c *Ctx, w *prove.World, scope []*ssa.Function, inScope map[*ssa.Function]bool, ai *astIndex) {
	p, r := c.P, c.R
	extCallees := map[string]int{}
	nLoops := 0
	for _, fn := range scope {
		fname := p.FuncName(fn)
		inputs := byteInputs(fn)
		for _, b := range fn.Blocks {
			for _, in := range b.Instrs {
				pos := posKeyOf(p, in.Pos())
				switch x := in.(type) {
				case *ssa.BinOp:
					if x.Op != token.QUO && x.Op != token.REM {
						continue
					}
					if _, isInt := x.X.Type().Underlying().(*types.Basic); !isInt || x.X.Type().Underlying().(*types.Basic).Info()&types.IsInteger == 0 {
						continue
					}
					if k, ok := x.Y.(*ssa.Const); ok && k.Value != nil && k.Value.ExactString() != "0" {
						continue
					}
					construct := fname + ": " + ai.render(x.Pos(), x.String())
					c.guard("div", construct, pos, func() { emit(r, "div", construct, pos, w.DivisorNonZero(x)) })
				case *ssa.TypeAssert:
					if !x.CommaOk {
						r.Fail("assert", fname+": "+ai.render(x.Pos(), x.String()), pos, "type assertion without comma-ok panics when the dynamic type differs")
					}
				case *ssa.Panic:
					if !x.Pos().IsValid() {
						// synthesised by the SSA builder (range-over-func misuse check), not source code
						continue
					}
					r.Fail("panic", fname+": panic(...)", pos, "explicit panic reachable from a decoder entry point")
				case *ssa.SliceToArrayPointer:
					// [N]byte(s) panics when len(s) < N: an obligation like any slice bound
					construct := fname + ": slice-to-array conversion " + ai.render(x.Pos(), x.String())
					c.guard("panic", construct, pos, func() { emit(r, "panic", construct, pos, w.SliceToArrayFits(x)) })
				case *ssa.MakeSlice:
					if _, ok := x.Len.(*ssa.Const); ok {
						if _, ok2 := x.Cap.(*ssa.Const); ok2 || x.Cap == x.Len {
							r.OK("alloc", fname+": "+ai.render(x.Pos(), "make(constant)"), pos, "constant size")
							continue
						}
					}
					construct := fname + ": " + ai.render(x.Pos(), x.String())
					c.guard("alloc", construct, pos, func() {
						es := int64(1)
						if sl, ok := x.Type().Underlying().(*types.Slice); ok {
							es = p.Pkgs[0].TypesSizes.Sizeof(sl.Elem())
						}
						o := w.AllocBoundSized(x.Len, x, inputs, es)
						if o.Proved && x.Cap != x.Len {
							o = w.AllocBoundSized(x.Cap, x, inputs, es)
						}
						emit(r, "alloc", construct, pos, o)
					})
				case *ssa.MakeMap:
					if x.Reserve != nil {
						if _, ok := x.Reserve.(*ssa.Const); !ok {
							construct := fname + ": " + ai.render(x.Pos(), x.String())
							c.guard("alloc", construct, pos, func() { emit(r, "alloc", construct, pos, w.AllocBound(x.Reserve, x, inputs)) })
						}
					}
				case ssa.CallInstruction:
					cc := x.Common()
					name := prove.StaticName(cc)
					switch {
					case strings.HasPrefix(name, "log.Fatal") || strings.HasPrefix(name, "(*log.Logger).Fatal") || name == "os.Exit" || strings.HasPrefix(name, "log.Panic"):
						r.Fail("panic", fname+": "+name, pos, "process-terminating call reachable from a decoder entry point")
					case name == "strings.Repeat" || name == "bytes.Repeat":
						construct := fname + ": " + ai.render(x.Pos(), name)
						call, _ := x.(*ssa.Call)
						if call != nil {
							c.guard("alloc", construct, pos, func() { emit(r, "alloc", construct, pos, w.AllocBound(cc.Args[1], call, inputs)) })
						}
					case name == "regexp.MustCompile":
						if _, ok := cc.Args[0].(*ssa.Const); !ok {
							r.Fail("panic", fname+": regexp.MustCompile(non-constant)", pos, "MustCompile panics on an invalid pattern")
						}
					}
					if sc := cc.StaticCallee(); sc != nil && !p.InModule(sc) {
						extCallees[sc.String()]++
					}
				}
			}
		}
		// loops
		for _, b := range fn.Blocks {
			isHeader := false
			for _, pr := range b.Preds {
				if b.Dominates(pr) {
					isHeader = true
				}
			}
			if !isHeader {
				continue
			}
			nLoops++
			construct := fmt.Sprintf("%s: loop at block %d (%s)", fname, loopOrdinal(fn, b), b.Comment)
			pos := loopPos(p, b)
			c.guard("loop", construct, pos, func() {
				ok, why := w.LoopTerminates(fn, b)
				if ok {
					r.OK("loop", construct, pos, why)
				} else {
					r.Add("loop", construct, pos, report.Finding, "no ranking argument recognised: "+why, nil)
				}
			})
		}
	}
	r.Extra["loops_in_scope"] = nLoops
	// recursion: strongly connected components of the static call graph in scope
	for _, cyc := range w.Cycles(scope) {
		var names []string
		for _, f := range cyc {
			names = append(names, p.FuncName(f))
		}
		sort.Strings(names)
		construct := "cycle: " + strings.Join(names, " -> ")
		ok, why := w.RecursionDecreases(cyc)
		if ok {
			r.OK("recursion", construct, posKeyOf(p, cyc[0].Pos()), why)
		} else {
			r.Add("recursion", construct, posKeyOf(p, cyc[0].Pos()), report.Finding, "no decreasing measure recognised: "+why, nil)
		}
	}
	var ext []string
	for k, n := range extCallees {
		ext = append(ext, fmt.Sprintf("%s ×%d", k, n))
	}
	sort.Strings(ext)
	r.Extra["external_callees_in_scope"] = ext
}

func byteInputs(fn *ssa.Function) []ssa.Value {
	var out []ssa.Value
	for _, prm := range fn.Params {
		if prove.IsByteSeq(prm.Type()) {
			out = append(out, prm)
		}
	}
	for _, fv := range fn.FreeVars {
		_ = fv
	}
	return out
}

func loopOrdinal(fn *ssa.Function, hb *ssa.BasicBlock) int {
	n := 0
	for _, b := range fn.Blocks {
		for _, pr := range b.Preds {
			if b.Dominates(pr) {
				n++
				break
			}
		}
		if b == hb {
			return n
		}
	}
	return n
}

func loopPos(p interface{ Rel(token.Pos) string }, b *ssa.BasicBlock) string {
	for _, in := range b.Instrs {
		if in.Pos().IsValid() {
			return p.Rel(in.Pos())
		}
	}
	for _, s := range b.Succs {
		for _, in := range s.Instrs {
			if in.Pos().IsValid() {
				return p.Rel(in.Pos())
			}
		}
	}
	return "-"
}
