package rules

import (
	"fmt"
	"go/types"
	"strings"

	"golang.org/x/tools/go/ssa"
)

// C19 extension `decode-resets` (added after two independently seeded changes
// removed the "redundant" `kf.Name = []string{}` from a flags decoder): a
// decoder that builds a slice field of its receiver by appending to it must
// first set that field to a value that does not depend on its previous
// contents; otherwise a second decode into the same value lists the names of
// the previous word as well ("exactly the named bits that are set, each once"
// fails for every reused value). Decided on the CFG: every
// `recv.F = append(recv.F, …)` in FromBytes / Unmarshal / Parse methods of the
// flag types is dominated by a store recv.F = <fresh> (a literal, make, nil, a
// call result) — or is itself the first store on its path.
func init() {
	ck := registry["C19"]
	if ck == nil {
		return
	}
	orig := ck.Run
	ck.NeedSSA = true // this extension reads the CFG
	ck.Run = func(c *Ctx) {
		orig(c)
		decodeResets(c, []string{"windows/keycredential/key", "network/ldap/ldap_attributes"})
		c.R.Explanation += " Extension DECODE-RESETS: in the FromBytes/Unmarshal/Parse methods of the flag types, a slice field of the receiver that is grown by recv.F = append(recv.F, …) is first assigned a value independent of its previous contents on every path (no accumulation across two decodes into one value)."
	}
}

func decodeResets(c *Ctx, pkgs []string) {
	const rule = "decode-resets"
	p, r := c.P, c.R
	n := 0
	for _, fn := range p.SrcFuncs() {
		rp := relPkg(p, fn)
		in := false
		for _, q := range pkgs {
			if strings.HasSuffix(rp, q) {
				in = true
			}
		}
		if !in || fn.Blocks == nil || fn.Signature.Recv() == nil || len(fn.Params) == 0 || fn.Parent() != nil {
			continue
		}
		switch fn.Name() {
		case "FromBytes", "Unmarshal", "Parse", "FromUint32", "FromInt", "FromString":
		default:
			continue
		}
		recv := fn.Params[0]
		// stores to slice fields of the receiver, classified
		type st struct {
			in     *ssa.Store
			field  int
			grows  bool // recv.F = append(recv.F, …)
		}
		var stores []st
		for _, b := range fn.Blocks {
			for _, ins := range b.Instrs {
				s, ok := ins.(*ssa.Store)
				if !ok {
					continue
				}
				fa, ok := s.Addr.(*ssa.FieldAddr)
				if !ok || fa.X != ssa.Value(recv) {
					continue
				}
				if _, isSl := derefType(fa.Type()).Underlying().(*types.Slice); !isSl {
					continue
				}
				grows := false
				if call, isC := s.Val.(*ssa.Call); isC {
					if bi, isB := call.Call.Value.(*ssa.Builtin); isB && bi.Name() == "append" {
						base := call.Call.Args[0]
						// append(recv.F, …) directly, or through φ of earlier appends of the same field
						seen := map[ssa.Value]bool{}
						var dep func(v ssa.Value) bool
						dep = func(v ssa.Value) bool {
							if seen[v] {
								return false
							}
							seen[v] = true
							switch x := v.(type) {
							case *ssa.UnOp:
								if f2, ok := x.X.(*ssa.FieldAddr); ok && f2.X == ssa.Value(recv) && f2.Field == fa.Field {
									return true
								}
							case *ssa.Phi:
								for _, e := range x.Edges {
									if dep(e) {
										return true
									}
								}
							case *ssa.Call:
								if b2, ok := x.Call.Value.(*ssa.Builtin); ok && b2.Name() == "append" {
									return dep(x.Call.Args[0])
								}
							}
							return false
						}
						grows = dep(base)
					}
				}
				stores = append(stores, st{s, fa.Field, grows})
			}
		}
		byField := map[int][]st{}
		for _, s := range stores {
			byField[s.field] = append(byField[s.field], s)
		}
		stt, _ := derefType(recv.Type()).Underlying().(*types.Struct)
		for f, ss := range byField {
			anyGrow := false
			for _, s := range ss {
				if s.grows {
					anyGrow = true
				}
			}
			if !anyGrow {
				continue
			}
			n++
			fname := "?"
			if stt != nil && f < stt.NumFields() {
				fname = stt.Field(f).Name()
			}
			construct := fmt.Sprintf("%s: %s is reset before it is appended to", p.FuncName(fn), fname)
			bad := ""
			for _, g := range ss {
				if !g.grows {
					continue
				}
				dominated := false
				for _, rst := range ss {
					if rst.grows {
						continue
					}
					if rst.in.Block() == g.in.Block() {
						ia, ib := -1, -1
						for i, x := range g.in.Block().Instrs {
							if x == ssa.Instruction(rst.in) {
								ia = i
							}
							if x == ssa.Instruction(g.in) {
								ib = i
							}
						}
						if ia >= 0 && ia < ib {
							dominated = true
						}
					} else if rst.in.Block().Dominates(g.in.Block()) {
						dominated = true
					}
				}
				if !dominated {
					bad = p.Rel(g.in.Pos())
					break
				}
			}
			if bad != "" {
				r.Fail(rule, construct, bad, fmt.Sprintf("%s = append(%s, …) is reached without %s having been assigned a fresh value first: decoding into a value that was used before adds to what it already holds", fname, fname, fname))
			} else {
				r.OK(rule, construct, p.Rel(fn.Pos()), "every append onto the field is dominated by an assignment of a fresh value")
			}
		}
	}
	r.Extra["decode_resets_fields"] = n
}
