package rules

import (
	"strconv"
	"fmt"
	"go/constant"
	"go/token"
	"go/types"
	"sort"
	"strings"

	"golang.org/x/tools/go/ssa"

	"manticheck/internal/codec"
	"manticheck/internal/lin"
	"manticheck/internal/load"
	"manticheck/internal/prove"
)

func init() { register(&Check{ID: "C05", NeedSSA: true, Run: runC05}) }

const smbPrefix = "network/smb/smb_v10"

// orderExempt: functions of the SMB packages that may use big-endian
// accessors, each with the reason and a machine-checked side condition.
var orderExempt = map[string]string{
	"(*network/smb/smb_v10/message/parameters.Parameters).Marshal":   "internal word packing: bytes are packed into uint16 words high byte first by AddWordsFromBytesStream and written back high byte first, so the wire bytes are exactly the command's bytes (side condition `wordpack`)",
	"(*network/smb/smb_v10/message/parameters.Parameters).Unmarshal": "internal word packing, mirror of Marshal (side condition `wordpack`)",
}

func binAccessor(call *ssa.Call) (name, order string, ok bool) {
	f := call.Common().StaticCallee()
	if f == nil || f.Signature.Recv() == nil {
		return "", "", false
	}
	rt := f.Signature.Recv().Type().String()
	if !strings.HasPrefix(rt, "encoding/binary.") {
		return "", "", false
	}
	switch {
	case strings.Contains(rt, "bigEndian"):
		order = "BE"
	case strings.Contains(rt, "littleEndian"):
		order = "LE"
	default:
		return "", "", false
	}
	return f.Name(), order, true
}

func runC05(c *Ctx) {
	p, r := c.P, c.R
	r.Explanation = "C05 MS-CIFS encoding rules, decided structurally. `order`: every encoding/binary fixed-width accessor call (Uint16/32/64, PutUint…, AppendUint…) in every function of the packages under network/smb/smb_v10 must be little-endian; the only exemption is Parameters' internal word packing, which is admitted under the machine-checked side condition `wordpack` (pack high-byte-first in AddWordsFromBytesStream, unpack high-byte-first in GetBytesStream, Marshal/Unmarshal both big-endian: bytes in = bytes out). " +
		"`andx`: the AndX block is laid out AndXCommand(1) AndXReserved(1) AndXOffset(2) in Marshal, Unmarshal and, through the word packing, GetParameters. `dialects`: Dialects.Marshal emits the 0x02 format byte and the NUL terminator inside the per-dialect iteration and Unmarshal checks the format byte inside its loop. `bufformat`: the SMB_STRING buffer-format constants are 1..5, distinct, and SMB_STRING.Marshal/Unmarshal switch over exactly those; every Marshal alternative starts with the BufferFormat byte. `width`: every fixed-width command field is as wide on the wire as its declared UCHAR/USHORT/ULONG type (decided with C04's `decl` rule over all 115 commands; re-checked here). " +
		"Not decided: field semantics, constant values against the specification, and agreement with a third-party implementation as such (it is inferred from order + width + layout)."
	r.Assumptions = []string{"encoding/binary accessors have their documented byte layouts", "go/types + go/ssa faithful"}
	w := prove.NewWorld(p)

	// order
	nAcc := 0
	perPkg := map[string]int{}
	for _, fn := range w.Funcs {
		rel := relPkg(p, fn)
		if !strings.HasPrefix(rel, smbPrefix) {
			continue
		}
		fname := p.FuncName(fn)
		ord := map[string]int{}
		for _, b := range fn.Blocks {
			for _, in := range b.Instrs {
				call, ok := in.(*ssa.Call)
				if !ok {
					continue
				}
				name, order, ok := binAccessor(call)
				if !ok {
					continue
				}
				nAcc++
				perPkg[rel]++
				what := accessorSubject(w, fn, call, name)
				ord[name+" "+what]++
				construct := fmt.Sprintf("%s: %s %s", fname, name, what)
				pos := p.Rel(call.Pos())
				if order == "LE" {
					r.OK("order", construct, pos, "little-endian")
					continue
				}
				if why, ex := orderExempt[fname]; ex {
					r.OK("order", construct, pos, "exempt: "+why)
					continue
				}
				if rel == smbPrefix+"/spnego" {
					// GSS-API / SPNEGO framing is ASN.1 DER: lengths are big-endian by definition
					// (ITU-T X.690 §8.1.3); these bytes are not MS-CIFS fields. The NTLM messages
					// inside (package spnego/ntlm) are little-endian and are NOT exempt.
					r.OK("order", construct, pos, "exempt: ASN.1 DER framing (big-endian by X.690), not an MS-CIFS field")
					continue
				}
				r.Fail("order", construct, pos, "big-endian accessor in an SMB1 codec (MS-CIFS: multi-byte fields are little-endian)")
			}
		}
	}
	r.Extra["binary_accessor_calls"] = nAcc
	r.Extra["accessor_calls_per_package"] = perPkg
	r.Floor("order", 600)

	c05WordPack(c, w)
	c05AndX(c, w)
	c05Dialects(c, w)
	c05BufFormat(c, w)

	// width (same computation as C04 decl, restricted to fixed-width fields)
	cls := commandLayouts(p, w)
	nW := 0
	for _, cl := range cls {
		if cl.marshal == nil || cl.un == nil {
			continue
		}
		pos := p.Rel(cl.marshal.Pos())
		st := cl.nt.Underlying().(*types.Struct)
		ft := map[string]types.Type{}
		for i := 0; i < st.NumFields(); i++ {
			ft[st.Field(i).Name()] = st.Field(i).Type()
		}
		for _, dir := range []struct {
			name string
			as   []codec.Atom
		}{{"encode", append(append([]codec.Atom{}, cl.encP...), cl.encD...)}, {"decode", append(append([]codec.Atom{}, cl.decP...), cl.decD...)}} {
			for _, a := range flatten(dir.as) {
				if a.Kind != "fixed" || a.Field == "" {
					continue
				}
				t := ft[baseField(a.Field)]
				if t == nil {
					continue
				}
				if strings.Contains(a.Field, "[") {
					switch u := t.Underlying().(type) {
					case *types.Array:
						t = u.Elem()
					case *types.Slice:
						t = u.Elem()
					}
				}
				if strings.Contains(a.Field, ".") {
					continue // sub-field of a nested struct
				}
				tw := typeWidth(t)
				if tw == 0 {
					continue
				}
				nW++
				construct := fmt.Sprintf("%s %s %s", cl.name, dir.name, a.Field)
				if tw == a.Width {
					r.OK("width", construct, pos, fmt.Sprintf("%d bytes = width of %s", tw, types.TypeString(t, nil)))
				} else {
					r.Fail("width", construct, pos, fmt.Sprintf("%s is %d bytes on the wire, declared type %s is %d bytes", a.Field, a.Width, types.TypeString(t, nil), tw))
				}
			}
		}
	}
	r.Floor("width", 550)
	r.Extra["fixed_width_fields_checked"] = nW
}

// accessorSubject names what an accessor call reads/writes (field or expression), for stable keys.
func accessorSubject(w *prove.World, fn *ssa.Function, call *ssa.Call, name string) string {
	e := codec.NewExt(w, fn)
	args := call.Common().Args
	if strings.HasPrefix(name, "Put") || strings.HasPrefix(name, "Append") {
		f, ex, _ := e.ValueSrc(args[len(args)-1])
		if f != "" {
			return f
		}
		return "(" + ex + ")"
	}
	// a read: name the field the value is stored to, if any
	var v ssa.Value = call
	for steps := 0; steps < 4; steps++ {
		refs := v.Referrers()
		if refs == nil || len(*refs) == 0 {
			break
		}
		var next ssa.Value
		for _, r := range *refs {
			switch y := r.(type) {
			case *ssa.Store:
				if y.Val == v {
					if pth, ok := e.FieldPath(y.Addr); ok {
						return pth
					}
				}
			case *ssa.Convert:
				next = y
			case *ssa.ChangeType:
				next = y
			}
		}
		if next == nil {
			break
		}
		v = next
	}
	return "(value)"
}

// c05WordPack: the side condition of the Parameters exemption.
func c05WordPack(c *Ctx, w *prove.World) {
	p, r := c.P, c.R
	rel := smbPrefix + "/message/parameters"
	ok := true
	why := []string{}
	// Marshal, GetBytesStream (encoder side) and Unmarshal (decoder side): the
	// layout the codec extractor reads off them holds the words as 2-byte
	// big-endian atoms — whether written with encoding/binary, with manual
	// shifts (byte(w>>8), byte(w&0xFF)) or through one another
	wordAtoms := func(as []codec.Atom) (n int, bad string, unknown string) {
		var walk func(as []codec.Atom)
		walk = func(as []codec.Atom) {
			for _, a := range as {
				switch {
				case a.Kind == "repeat" || a.Kind == "cond":
					walk(a.Body)
				case a.Kind == "unknown":
					unknown = a.Expr
				case strings.HasPrefix(a.Field, "Words"):
					n++
					if a.Kind != "fixed" || a.Width != 2 || a.Order != "BE" {
						bad = a.String()
					}
				case a.Kind == "nested" || (a.Kind == "fixed" && a.Field == "" && a.Width == 1 && a.LaneOf != nil):
					unknown = a.String()
				}
			}
		}
		walk(as)
		return
	}
	undecided := ""
	for _, m := range []string{"Marshal", "GetBytesStream", "Unmarshal"} {
		fn := p.Func(rel, "Parameters", m)
		if fn == nil {
			r.Undecided("wordpack", "Parameters."+m, "", "not found")
			return
		}
		ex := codec.NewExt(w, fn)
		var as []codec.Atom
		if m == "Unmarshal" {
			as = ex.Decoded()
		} else {
			for _, b := range fn.Blocks {
				ret, isR := b.Instrs[len(b.Instrs)-1].(*ssa.Return)
				if !isR {
					continue
				}
				if len(ret.Results) == 2 {
					if k, isK := ret.Results[1].(*ssa.Const); !isK || k.Value != nil {
						continue
					}
				}
				if k, isK := ret.Results[0].(*ssa.Const); isK && k.Value == nil {
					continue
				}
				as = append(as, ex.Seq(ret.Results[0])...)
			}
		}
		n, bad, unk := wordAtoms(as)
		switch {
		case bad != "":
			ok = false
			why = append(why, fmt.Sprintf("%s does not carry each word as 2 bytes, high byte first: %s", m, bad))
		case n == 0 || unk != "":
			if inc := ex.Incomplete(); inc != "" {
				unk = inc
			}
			if unk == "" {
				unk = "no atom of the Words field in its layout [" + codec.Render(as) + "]"
			}
			undecided = m + ": " + unk
		}
	}
	if undecided != "" && ok {
		c.NotDecided("wordpack", "Parameters word packing", "", "layout not read completely — "+undecided)
		return
	}
	// AddWordsFromBytesStream: word = uint16(b[i])<<8 | uint16(b[i+1])
	if fn := p.Func(rel, "Parameters", "AddWordsFromBytesStream"); fn != nil {
		found := false
		sawPack := false
		for _, b := range fn.Blocks {
			for _, in := range b.Instrs {
				bo, isB := in.(*ssa.BinOp)
				if !isB || bo.Op != token.OR {
					continue
				}
				sh, isSh := bo.X.(*ssa.BinOp)
				if !isSh || sh.Op != token.SHL {
					continue
				}
				if k, isK := sh.Y.(*ssa.Const); isK && k.Value != nil && constant.Compare(k.Value, token.EQL, constant.MakeInt64(8)) {
					// shifted operand is b[i], other operand is b[i+1]
					i1 := indexOf(sh.X)
					i2 := indexOf(bo.Y)
					if i1 != nil && i2 != nil {
						sawPack = true
						if add, isAdd := i2.(*ssa.BinOp); isAdd && add.Op == token.ADD && add.X == i1 {
							found = true
						} else {
							// any spelling of "the next byte": i2 == i1 + 1 proved in place (2i / 2i+1, i / i+1 …)
							cx := w.Info(fn).CtxBefore(bo)
							a, b2 := cx.Lin(i1).AddK(1), cx.Lin(i2)
							if cx.Prove(lin.GE(a, b2)) && cx.Prove(lin.LE(a, b2)) {
								found = true
							}
						}
					}
				}
			}
		}
		if !found && sawPack {
			ok = false
			why = append(why, "AddWordsFromBytesStream does not pack b[i]<<8 | b[i+1]")
		} else if !found {
			c.NotDecided("wordpack", "Parameters word packing", "", "AddWordsFromBytesStream does not build its words as (byte << 8) | byte: packing shape outside this rule's method")
			return
		}
	} else {
		ok = false
		why = append(why, "AddWordsFromBytesStream not found")
	}
	if ok {
		r.OK("wordpack", "Parameters word packing", "", "pack and unpack are both high-byte-first and Marshal/Unmarshal both big-endian: the word representation is transparent to the wire bytes")
	} else {
		r.Fail("wordpack", "Parameters word packing", "", strings.Join(why, "; "))
	}
}

func indexOf(v ssa.Value) ssa.Value {
	for {
		switch x := v.(type) {
		case *ssa.Convert:
			v = x.X
			continue
		case *ssa.UnOp:
			if x.Op == token.MUL {
				if ia, ok := x.X.(*ssa.IndexAddr); ok {
					return ia.Index
				}
			}
		}
		return nil
	}
}

func c05AndX(c *Ctx, w *prove.World) {
	p, r := c.P, c.R
	rel := smbPrefix + "/message/commands/andx"
	want := []string{"AndXCommand fixed 1 ", "AndXReserved fixed 1 ", "AndXOffset fixed 2"}
	if fn := p.Func(rel, "AndX", "Marshal"); fn != nil {
		enc := encStreams(w, fn)["out"]
		checkAndXLayout(c, "AndX.Marshal", p.Rel(fn.Pos()), enc, want)
	} else {
		r.Undecided("andx", "AndX.Marshal", "", "not found")
	}
	if fn := p.Func(rel, "AndX", "Unmarshal"); fn != nil {
		_, dec := decStreams(w, fn)
		checkAndXLayout(c, "AndX.Unmarshal", p.Rel(fn.Pos()), dec, want)
	} else {
		r.Undecided("andx", "AndX.Unmarshal", "", "not found")
	}
	// GetParameters: words routed through Parameters' high-byte-first packing
	if fn := p.Func(rel, "AndX", "GetParameters"); fn != nil {
		e := codec.NewExt(w, fn)
		var elems []codec.Atom
		var layouts []string
		for _, b := range fn.Blocks {
			if ret, ok := b.Instrs[len(b.Instrs)-1].(*ssa.Return); ok && len(ret.Results) == 1 {
				elems = e.Seq(ret.Results[0])
				layouts = append(layouts, codec.Render(elems))
			}
		}
		pos := p.Rel(fn.Pos())
		// one layout whatever the field values are: a return that replaces a field by a
		// constant for some values (a "stale offset" cleared when no command follows) does not
		// carry the field to the wire
		same := true
		for _, l := range layouts {
			if l != layouts[0] {
				same = false
			}
		}
		if len(layouts) > 1 && !same {
			r.Fail("andx", "AndX.GetParameters: one layout on every path", pos, "the words depend on the data: "+strings.Join(layouts, "  |  ")+" — some field values are not carried to the wire")
		} else if len(layouts) > 0 {
			r.OK("andx", "AndX.GetParameters: one layout on every path", pos, fmt.Sprintf("%d return(s), one layout", len(layouts)))
		}
		if len(elems) != 2 {
			r.Undecided("andx", "AndX.GetParameters", pos, fmt.Sprintf("expected two words, got %s", codec.Render(elems)))
			return
		}
		if strings.Contains(elems[0].Expr, "AndXCommand << 8") && strings.Contains(elems[0].Expr, "AndXReserved") {
			r.OK("andx", "AndX.GetParameters word 0", pos, "AndXCommand in the high byte, AndXReserved in the low byte: with high-byte-first packing the wire bytes are command, reserved")
		} else {
			r.Fail("andx", "AndX.GetParameters word 0", pos, "word 0 is not AndXCommand<<8 | AndXReserved: "+elems[0].String())
		}
		// word 1: the offset must reach the wire low byte first, i.e. be byte-swapped before the high-byte-first packing
		if elems[1].Field == "AndXOffset" {
			r.Fail("andx", "AndX.GetParameters word 1 (AndXOffset)", pos, "AndXOffset is handed to the high-byte-first word packing unchanged, so it reaches the wire big-endian (MS-CIFS: little-endian)")
		} else if strings.Contains(elems[1].Expr, "AndXOffset") && strings.Contains(elems[1].Expr, "8") {
			r.OK("andx", "AndX.GetParameters word 1 (AndXOffset)", pos, "AndXOffset is byte-swapped before the high-byte-first word packing: little-endian on the wire")
		} else {
			r.Undecided("andx", "AndX.GetParameters word 1 (AndXOffset)", pos, "unrecognised: "+elems[1].String())
		}
	} else {
		r.Undecided("andx", "AndX.GetParameters", "", "not found")
	}
}

func checkAndXLayout(c *Ctx, key, pos string, as []codec.Atom, want []string) {
	r := c.R
	if why := untraced(as, strings.HasSuffix(key, "Marshal")); why != "" {
		c.NotDecided("andx", key, pos, why)
		return
	}
	var got []string
	for _, a := range as {
		got = append(got, strings.TrimSuffix(strings.TrimSuffix(atomSig(a), "LE"), "BE"))
	}
	if len(got) == len(want) {
		ok := true
		for i := range got {
			if strings.TrimSpace(got[i]) != strings.TrimSpace(want[i]) {
				ok = false
			}
		}
		if ok {
			r.OK("andx", key, pos, "layout AndXCommand(1) AndXReserved(1) AndXOffset(2)")
			return
		}
	}
	r.Fail("andx", key, pos, fmt.Sprintf("layout is [%s], MS-CIFS 2.2.3.4 prescribes AndXCommand(1) AndXReserved(1) AndXOffset(2)", strings.Join(got, "; ")))
}

func c05Dialects(c *Ctx, w *prove.World) {
	p, r := c.P, c.R
	rel := smbPrefix + "/dialects"
	fn := p.Func(rel, "Dialects", "Marshal")
	if fn == nil {
		r.Undecided("dialects", "Dialects.Marshal", "", "not found")
		return
	}
	pos := p.Rel(fn.Pos())
	enc := encStreams(w, fn)["out"]
	fmtVal := constOf(p, smbPrefix+"/types", "SMB_STRING_BUFFER_FORMAT_NULL_TERMINATED_OEM_STRING")
	ok := false
	why := "layout " + codec.Render(enc)
	if len(enc) == 1 && enc[0].Kind == "repeat" && len(enc[0].Body) == 3 {
		b := enc[0].Body
		if b[0].Kind == "const" && b[0].Expr == fmtVal && b[1].Kind == "bytes" && strings.HasPrefix(b[1].Field, "Dialects") && b[2].Kind == "const" && b[2].Expr == "0" {
			ok = true
		}
	}
	if !ok && len(enc) == 3 {
		// the same three atoms emitted per iteration into a bytes.Buffer / pre-sized buffer
		// (not folded into a repeat): all three sit inside the loop over Dialects
		b := enc
		if b[0].Kind == "const" && b[0].Expr == fmtVal && b[0].Cond && b[1].Kind == "bytes" && strings.HasPrefix(b[1].Field, "Dialects[") && b[1].Cond && b[2].Kind == "const" && b[2].Expr == "0" && b[2].Cond {
			ok = true
		}
	}
	joined := false
	if !ok {
		// start + strings.Join(names, end+start) + end: the same bytes as one
		// (format, name, NUL) triple per dialect — provided the list is not empty
		if v, msg := c05DialectsJoin(fn, fmtVal); v == 1 {
			ok, joined = true, true
		} else if v == -1 {
			why = msg
		}
	}
	if !ok && !joined && hasUnknown(enc) != "" && !strings.HasPrefix(why, "strings.Join") {
		c.NotDecided("dialects", "Dialects.Marshal", pos, "layout not recognised: "+hasUnknown(enc))
	} else if ok {
		r.OK("dialects", "Dialects.Marshal", pos, "per dialect: format byte "+fmtVal+", name, NUL")
	} else {
		r.Fail("dialects", "Dialects.Marshal", pos, "each dialect must carry its own 0x02 format byte and NUL terminator: "+why)
	}
	// decoder: the format byte comparison sits inside a loop
	un := p.Func(rel, "Dialects", "Unmarshal")
	if un == nil {
		r.Undecided("dialects", "Dialects.Unmarshal", "", "not found")
		return
	}
	inLoop := false
	found := false
	// the per-entry check may live in a helper called from the loop (two levels)
	if !dialectsCompareIn(un, fmtVal) {
		for _, b := range un.Blocks {
			for _, in := range b.Instrs {
				ci, isCall := in.(ssa.CallInstruction)
				if !isCall {
					continue
				}
				g := ci.Common().StaticCallee()
				if g == nil || g.Blocks == nil || g.Pkg != un.Pkg {
					continue
				}
				if dialectsCompareIn(g, fmtVal) {
					found = true
					for _, h := range un.Blocks {
						for _, pr := range h.Preds {
							if h.Dominates(pr) && (h == b || h.Dominates(b)) && reachesBlock(b, pr) {
								inLoop = true
							}
						}
					}
				}
			}
		}
	}
	for _, b := range un.Blocks {
		for _, in := range b.Instrs {
			bo, isB := in.(*ssa.BinOp)
			if !isB || (bo.Op != token.NEQ && bo.Op != token.EQL) {
				continue
			}
			for _, side := range []ssa.Value{bo.X, bo.Y} {
				if k, isK := side.(*ssa.Const); isK && k.Value != nil && k.Value.ExactString() == fmtVal {
					if _, isByte := k.Type().Underlying().(*types.Basic); isByte {
						found = true
						for _, h := range un.Blocks {
							for _, pr := range h.Preds {
								if h.Dominates(pr) && (h == b || h.Dominates(b)) && reachesBlock(b, pr) {
									inLoop = true
								}
							}
						}
					}
				}
			}
		}
	}
	switch {
	case !found:
		r.Fail("dialects", "Dialects.Unmarshal", p.Rel(un.Pos()), "the decoder never compares a byte with the 0x02 buffer format")
	case !inLoop:
		r.Fail("dialects", "Dialects.Unmarshal", p.Rel(un.Pos()), "the 0x02 buffer format is checked once, outside the per-dialect loop")
	default:
		r.OK("dialects", "Dialects.Unmarshal", p.Rel(un.Pos()), "format byte checked per dialect inside the loop")
	}
}

func reachesBlock(from, to *ssa.BasicBlock) bool {
	seen := map[*ssa.BasicBlock]bool{}
	work := []*ssa.BasicBlock{from}
	for len(work) > 0 {
		b := work[len(work)-1]
		work = work[:len(work)-1]
		if b == to {
			return true
		}
		if seen[b] {
			continue
		}
		seen[b] = true
		work = append(work, b.Succs...)
	}
	return false
}

func constOf(p *load.Program, rel, name string) string {
	pk := p.Pkg(rel)
	if pk == nil {
		return ""
	}
	if k, ok := pk.Types.Scope().Lookup(name).(*types.Const); ok {
		return k.Val().ExactString()
	}
	return ""
}

func c05BufFormat(c *Ctx, w *prove.World) {
	p, r := c.P, c.R
	pk := p.Pkg(smbPrefix + "/types")
	if pk == nil {
		r.Undecided("bufformat", "types package", "", "not found")
		return
	}
	vals := map[string]string{}
	var names []string
	sc := pk.Types.Scope()
	for _, n := range sc.Names() {
		if !strings.HasPrefix(n, "SMB_STRING_BUFFER_FORMAT_") {
			continue
		}
		if k, ok := sc.Lookup(n).(*types.Const); ok {
			vals[n] = k.Val().ExactString()
			names = append(names, n)
		}
	}
	sort.Strings(names)
	seen := map[string]string{}
	okVals := true
	for _, n := range names {
		v := vals[n]
		if other, dup := seen[v]; dup {
			r.Fail("bufformat", n, "", "same value as "+other)
			okVals = false
		}
		seen[v] = n
		if v < "1" || v > "5" || len(v) != 1 {
			r.Fail("bufformat", n, "", "value "+v+" is outside 1..5")
			okVals = false
		}
	}
	if len(names) != 5 {
		r.Fail("bufformat", "SMB_STRING_BUFFER_FORMAT_*", "", fmt.Sprintf("%d constants declared, MS-CIFS defines 5 buffer formats", len(names)))
	} else if okVals {
		r.OK("bufformat", "SMB_STRING_BUFFER_FORMAT_*", "", "five distinct constants 1..5")
	}
	// every alternative of SMB_STRING.Marshal starts with the BufferFormat byte; the switches compare against exactly these constants
	for _, m := range []string{"Marshal", "Unmarshal"} {
		fn := p.Func(smbPrefix+"/types", "SMB_STRING", m)
		if fn == nil {
			r.Undecided("bufformat", "SMB_STRING."+m, "", "not found")
			continue
		}
		cases := map[string]bool{}
		for _, b := range fn.Blocks {
			for _, in := range b.Instrs {
				bo, ok := in.(*ssa.BinOp)
				if !ok || bo.Op != token.EQL {
					continue
				}
				for _, pair := range [][2]ssa.Value{{bo.X, bo.Y}, {bo.Y, bo.X}} {
					k, isK := pair[1].(*ssa.Const)
					if !isK || k.Value == nil {
						continue
					}
					e := codec.NewExt(w, fn)
					f, _, _ := e.ValueSrc(pair[0])
					if f == "BufferFormat" {
						cases[k.Value.ExactString()] = true
					}
				}
			}
		}
		var missing, extra []string
		for v, n := range seen {
			if !cases[v] {
				missing = append(missing, n)
			}
		}
		for v := range cases {
			if _, ok := seen[v]; !ok {
				extra = append(extra, v)
			}
		}
		sort.Strings(missing)
		sort.Strings(extra)
		pos := p.Rel(fn.Pos())
		if len(cases) == 0 {
			c.NotDecided("bufformat", "SMB_STRING."+m+" cases", pos, "no comparison of BufferFormat with a constant found: the dispatch is not a switch/if over the field (table lookup?)")
		} else if len(missing) == 0 && len(extra) == 0 {
			r.OK("bufformat", "SMB_STRING."+m+" cases", pos, "switches over exactly the five buffer formats")
		} else {
			r.Fail("bufformat", "SMB_STRING."+m+" cases", pos, fmt.Sprintf("missing cases %v, cases on undeclared values %v", missing, extra))
		}
		if m == "Marshal" {
			enc := encStreams(w, fn)
			ok := len(enc) > 0
			for _, k := range sortedKeys(enc) {
				if len(enc[k]) == 0 || enc[k][0].Field != "BufferFormat" || enc[k][0].Width != 1 {
					ok = false
				}
			}
			if ok {
				r.OK("bufformat", "SMB_STRING.Marshal first byte", pos, "every alternative starts with the BufferFormat byte")
			} else {
				r.Fail("bufformat", "SMB_STRING.Marshal first byte", pos, "an alternative does not start with the BufferFormat byte")
			}
		}
	}
}

// dialectsCompareIn: fn compares a byte with the constant buffer-format value.
func dialectsCompareIn(fn *ssa.Function, fmtVal string) bool {
	for _, b := range fn.Blocks {
		for _, in := range b.Instrs {
			bo, isB := in.(*ssa.BinOp)
			if !isB || (bo.Op != token.NEQ && bo.Op != token.EQL) {
				continue
			}
			for _, side := range []ssa.Value{bo.X, bo.Y} {
				if k, isK := side.(*ssa.Const); isK && k.Value != nil && k.Value.ExactString() == fmtVal {
					if _, isByte := k.Type().Underlying().(*types.Basic); isByte {
						return true
					}
				}
			}
		}
	}
	return false
}

// c05DialectsJoin reads `prefix + strings.Join(d.Dialects, sep) + suffix` as the
// returned bytes. Returns 1 when prefix is the format byte, suffix is NUL, sep is
// NUL+format and the join is only reached for a non-empty list; -1 with a reason
// when the join form is there but one of these is wrong; 0 when there is no such form.
func c05DialectsJoin(fn *ssa.Function, fmtVal string) (int, string) {
	fb, err := strconv.Atoi(fmtVal)
	if err != nil {
		return 0, ""
	}
	start, end := string(rune(fb)), "\x00"
	for _, b := range fn.Blocks {
		ret, isRet := b.Instrs[len(b.Instrs)-1].(*ssa.Return)
		if !isRet || len(ret.Results) == 0 {
			continue
		}
		v := ret.Results[0]
		for {
			if cv, ok := v.(*ssa.Convert); ok {
				v = cv.X
				continue
			}
			if ct, ok := v.(*ssa.ChangeType); ok {
				v = ct.X
				continue
			}
			break
		}
		// flatten the concatenation
		var parts []ssa.Value
		var flat func(x ssa.Value)
		flat = func(x ssa.Value) {
			if bo, ok := x.(*ssa.BinOp); ok && bo.Op == token.ADD {
				flat(bo.X)
				flat(bo.Y)
				return
			}
			parts = append(parts, x)
		}
		flat(v)
		var join *ssa.Call
		ji := -1
		for i, pt := range parts {
			if call, ok := pt.(*ssa.Call); ok && prove.StaticName(call.Common()) == "strings.Join" {
				join, ji = call, i
			}
		}
		if join == nil {
			continue
		}
		cs := func(x ssa.Value) (string, bool) {
			k, ok := x.(*ssa.Const)
			if !ok || k.Value == nil || k.Value.Kind() != constant.String {
				return "", false
			}
			return constant.StringVal(k.Value), true
		}
		pre, suf := "", ""
		for i, pt := range parts {
			if i == ji {
				continue
			}
			str, ok := cs(pt)
			if !ok {
				return 0, ""
			}
			if i < ji {
				pre += str
			} else {
				suf += str
			}
		}
		sep, ok := cs(join.Common().Args[1])
		if !ok {
			return 0, ""
		}
		switch {
		case pre != start:
			return -1, fmt.Sprintf("strings.Join form: the list starts with %q, not with the format byte %q", pre, start)
		case suf != end:
			return -1, fmt.Sprintf("strings.Join form: the list ends with %q, not with the NUL terminator of the last dialect", suf)
		case sep != end+start:
			return -1, fmt.Sprintf("strings.Join form: entries are separated by %q, not by NUL followed by the format byte", sep)
		}
		// reached only for a non-empty list: some dominating test of len(list) against 0
		guarded := false
		for x := b; x != nil; x = x.Idom() {
			d := x.Idom()
			if d == nil {
				break
			}
			iff, ok := d.Instrs[len(d.Instrs)-1].(*ssa.If)
			if !ok || len(x.Preds) != 1 {
				continue
			}
			bo, ok := iff.Cond.(*ssa.BinOp)
			if !ok {
				continue
			}
			call, isLen := bo.X.(*ssa.Call)
			k, isK := bo.Y.(*ssa.Const)
			if !isLen || !isK || k.Value == nil || k.Value.ExactString() != "0" {
				continue
			}
			if bi, isB := call.Call.Value.(*ssa.Builtin); !isB || bi.Name() != "len" {
				continue
			}
			onTrue := d.Succs[0] == x
			switch bo.Op {
			case token.EQL:
				guarded = guarded || !onTrue
			case token.NEQ, token.GTR:
				guarded = guarded || onTrue
			}
		}
		if !guarded {
			return -1, "strings.Join form without a guard for the empty list: zero dialects are encoded as a lone format byte and NUL, i.e. one empty dialect"
		}
		return 1, ""
	}
	return 0, ""
}
