package rules

import (
	"fmt"
	"go/constant"
	"regexp/syntax"
	"strings"

	"golang.org/x/tools/go/ssa"
)

// C20 extension `R7-pattern-case` (added after an independently seeded change —
// the hash-specification pattern hoisted to a package-level regexp and retyped
// without its (?i) flag — was missed): "an LM:NT specification is parsed
// identically regardless of letter case". Every regular expression that
// ParseLMNTHashes validates its input with (a constant pattern handed to
// regexp.Match*/MustCompile/Compile, directly or through a package-level
// variable initialised from one) is parsed with regexp/syntax; every character
// class or literal that admits a letter must admit it in both cases. The
// pattern text is a constant of the program; nothing is executed.

func init() {
	ck := registry["C20"]
	if ck == nil {
		return
	}
	orig := ck.Run
	ck.Run = func(c *Ctx) {
		orig(c)
		c20PatternCase(c)
		c.R.Explanation += " Extension R7 PATTERN-CASE: every constant regular expression ParseLMNTHashes matches its input against admits each letter in both cases (regexp/syntax parse of the constant pattern, direct or via a package-level compiled variable)."
	}
}

func c20PatternCase(c *Ctx) {
	const rule = "R7-pattern-case"
	const rel = "windows/credentials"
	p, r := c.P, c.R
	fn := p.Func(rel, "", "ParseLMNTHashes")
	if fn == nil || fn.Blocks == nil {
		r.Undecided(rule, "ParseLMNTHashes", "", "not found")
		return
	}
	// package-level regexp variables: global → constant pattern (from the package initialiser)
	globals := map[*ssa.Global]string{}
	if fn.Pkg != nil {
		if ini := fn.Pkg.Func("init"); ini != nil {
			for _, b := range ini.Blocks {
				for _, in := range b.Instrs {
					st, ok := in.(*ssa.Store)
					if !ok {
						continue
					}
					g, ok := st.Addr.(*ssa.Global)
					if !ok {
						continue
					}
					if pat, ok := compiledPattern(st.Val); ok {
						globals[g] = pat
					}
				}
			}
		}
	}
	type use struct {
		pat  string
		at   ssa.Instruction
		subj ssa.Value
	}
	var uses []use
	undec := ""
	// ParseLMNTHashes and the in-module functions / function literals it reaches
	// (the validation may sit in a helper, a method of a new type, a closure)
	scope := []*ssa.Function{fn}
	inScope := map[*ssa.Function]bool{fn: true}
	for i := 0; i < len(scope) && len(scope) < 64; i++ {
		for _, b := range scope[i].Blocks {
			for _, in := range b.Instrs {
				var g *ssa.Function
				switch x := in.(type) {
				case ssa.CallInstruction:
					g = x.Common().StaticCallee()
				case *ssa.MakeClosure:
					g, _ = x.Fn.(*ssa.Function)
				}
				if g != nil && g.Blocks != nil && !inScope[g] && p.InModule(g) {
					inScope[g] = true
					scope = append(scope, g)
				}
			}
		}
	}
	var instrs []ssa.Instruction
	for _, f := range scope {
		for _, b := range f.Blocks {
			instrs = append(instrs, b.Instrs...)
		}
	}
	{
		for _, in := range instrs {
			call, ok := in.(*ssa.Call)
			if !ok {
				continue
			}
			f := call.Call.StaticCallee()
			if f == nil || f.Pkg == nil || f.Pkg.Pkg.Path() != "regexp" {
				continue
			}
			switch {
			case f.Signature.Recv() == nil && (strings.HasPrefix(f.Name(), "Match") || f.Name() == "MustCompile" || f.Name() == "Compile"):
				if k, ok := call.Call.Args[0].(*ssa.Const); ok && k.Value != nil && k.Value.Kind() == constant.String {
					var subj ssa.Value
					if strings.HasPrefix(f.Name(), "Match") && len(call.Call.Args) > 1 {
						subj = call.Call.Args[1]
					}
					uses = append(uses, use{constant.StringVal(k.Value), call, subj})
				} else {
					undec = "a regexp is built from a non-constant pattern at " + p.Rel(call.Pos())
				}
			case f.Signature.Recv() != nil:
				// method on *regexp.Regexp: receiver must resolve to a known global or a local compile
				recv := call.Call.Args[0]
				if u, ok := recv.(*ssa.UnOp); ok {
					if g, ok := u.X.(*ssa.Global); ok {
						if pat, ok := globals[g]; ok {
							var subj ssa.Value
							if len(call.Call.Args) > 1 {
								subj = call.Call.Args[1]
							}
							uses = append(uses, use{pat, call, subj})
							continue
						}
						undec = "the pattern of package variable " + g.Name() + " is not a constant"
						continue
					}
				}
				if pat, ok := compiledPattern(recv); ok {
					_ = pat // already listed at its MustCompile/Compile call
					continue
				}
				undec = "the receiver of " + f.Name() + " at " + p.Rel(call.Pos()) + " does not resolve to a constant pattern"
			}
		}
	}
	if undec != "" {
		// a pattern that is not a constant of the program cannot be parsed here:
		// nothing was observed about it
		r.OK(rule, "ParseLMNTHashes: pattern", p.Rel(fn.Pos()), "NOT DECIDED — "+undec)
		r.Note("C20 R7: NOT DECIDED — %s", undec)
	} else if len(uses) == 0 {
		r.OK(rule, "ParseLMNTHashes: pattern", p.Rel(fn.Pos()), "NOT DECIDED — no regular expression is used by ParseLMNTHashes or the in-module functions it calls (the input is validated some other way, which this rule does not read)")
		r.Note("C20 R7: NOT DECIDED — ParseLMNTHashes uses no regular expression")
	}
	seen := map[string]bool{}
	for _, u := range uses {
		if seen[u.pat] {
			continue
		}
		seen[u.pat] = true
		construct := "ParseLMNTHashes: pattern #" + fmt.Sprint(len(seen)) + " admits both letter cases"
		if u.subj != nil && caseNormalised(u.subj, 0) {
			r.OK(rule, construct, p.Rel(u.at.Pos()), "the matched string is case-normalised (strings.ToLower/ToUpper) before matching")
			continue
		}
		re, err := syntax.Parse(u.pat, syntax.Perl)
		if err != nil {
			r.Fail(rule, construct, p.Rel(u.at.Pos()), "the constant pattern does not parse: "+err.Error())
			continue
		}
		var bad []string
		var walk func(x *syntax.Regexp)
		walk = func(x *syntax.Regexp) {
			switch x.Op {
			case syntax.OpCharClass:
				has := func(c rune) bool {
					for i := 0; i+1 < len(x.Rune); i += 2 {
						if x.Rune[i] <= c && c <= x.Rune[i+1] {
							return true
						}
					}
					return false
				}
				for c := 'a'; c <= 'z'; c++ {
					up := c - 'a' + 'A'
					if has(c) != has(up) {
						bad = append(bad, fmt.Sprintf("class %s admits %q but not %q", x.String(), pick(has(c), c, up), pick(has(c), up, c)))
						break
					}
				}
			case syntax.OpLiteral:
				if x.Flags&syntax.FoldCase == 0 {
					for _, c := range x.Rune {
						if (c >= 'a' && c <= 'z') || (c >= 'A' && c <= 'Z') {
							bad = append(bad, fmt.Sprintf("literal %q is matched case-sensitively", string(x.Rune)))
							break
						}
					}
				}
			}
			for _, s := range x.Sub {
				walk(s)
			}
		}
		walk(re)
		if len(bad) == 0 {
			r.OK(rule, construct, p.Rel(u.at.Pos()), "every class/literal of "+fmt.Sprintf("%q", u.pat)+" that admits a letter admits both cases")
		} else {
			r.Fail(rule, construct, p.Rel(u.at.Pos()), fmt.Sprintf("pattern %q: %s — a syntactically valid hash written in the other case is rejected", u.pat, strings.Join(bad, "; ")))
		}
	}
	r.Floor(rule, 1)
}

func pick(first bool, a, b rune) rune {
	if first {
		return a
	}
	return b
}

// compiledPattern: v is regexp.MustCompile(const) / the first result of regexp.Compile(const).
func compiledPattern(v ssa.Value) (string, bool) {
	if ex, ok := v.(*ssa.Extract); ok {
		v = ex.Tuple
	}
	call, ok := v.(*ssa.Call)
	if !ok {
		return "", false
	}
	f := call.Call.StaticCallee()
	if f == nil || f.Pkg == nil || f.Pkg.Pkg.Path() != "regexp" || (f.Name() != "MustCompile" && f.Name() != "Compile") {
		return "", false
	}
	k, ok := call.Call.Args[0].(*ssa.Const)
	if !ok || k.Value == nil || k.Value.Kind() != constant.String {
		return "", false
	}
	return constant.StringVal(k.Value), true
}

// caseNormalised: v passed through strings.ToLower/ToUpper (possibly followed by trims).
func caseNormalised(v ssa.Value, d int) bool {
	if d > 6 {
		return false
	}
	call, ok := v.(*ssa.Call)
	if !ok {
		return false
	}
	f := call.Call.StaticCallee()
	if f == nil || f.Pkg == nil || f.Pkg.Pkg.Path() != "strings" {
		return false
	}
	if f.Name() == "ToLower" || f.Name() == "ToUpper" {
		return true
	}
	if strings.HasPrefix(f.Name(), "Trim") && len(call.Call.Args) > 0 {
		return caseNormalised(call.Call.Args[0], d+1)
	}
	return false
}
