package rules

import (
	"fmt"
	"go/types"
	"sort"
	"strings"

	"golang.org/x/tools/go/ssa"

	"manticheck/internal/effects"
	"manticheck/internal/report"
)

func init() { register(&Check{ID: "C17", NeedSSA: true, Run: runC17}) }

const c17Pkg = "network/netbios/nbtns"

// exported API of the name table (anchors; the rules themselves apply to every
// function of the module that can reach guarded memory, not only to these)
var c17Methods = []string{"RegisterName", "QueryName", "ReleaseName", "RefreshName", "MarkNameConflict", "CleanExpiredNames"}

func runC17(c *Ctx) {
	r := c.R
	p := c.P
	r.Explanation = "E4 lock/alias rules on go/ssa for the NBNS name table (NetBIOSNameServer.names guarded by NetBIOSNameServer.mu). " +
		"DECIDED (schedule-independent, structural, for every function of the module that can reach the table): " +
		"(lockset) every load/store of the guarded set G = {the names map field and its contents, every field of a NameRecord that is in the table, the backing array of record.Owners} " +
		"— map lookup/update/delete/range/len, field loads and stores through a *NameRecord taken from the map, indexed loads/stores, append-in-place and copy on Owners — " +
		"executes with mu held on the same receiver, established by a flow-sensitive lock-state analysis (Lock/RLock, explicit and deferred Unlock/RUnlock, deferred closures, " +
		"helpers analysed in the lock context of each of their call sites); the only exemptions are an owner object allocated in the same function and not yet published (constructor) and a NameRecord allocated in the same function before it is inserted; " +
		"(exclusive) every store, delete, map update, clear and append/copy into Owners holds the exclusive Lock (RLock suffices for loads only); " +
		"(pairing) no function returns with mu held or with a lock state that differs between paths, and every Unlock/RUnlock releases a lock held in that mode; " +
		"(reentry) no path acquires mu, directly or through an in-module callee on the same receiver, while it is already held (sync.RWMutex is not reentrant); " +
		"(escape) no result of an entry point, channel send, go statement, store outside the server object or argument of an unknown callee aliases guarded memory (a *NameRecord from the map, the map, record.Owners' backing array, interior pointers) — copy into a fresh make, append onto a nil/fresh slice, slices.Clone and string conversion de-alias; and, inbound, every reference stored into guarded memory is fresh or already table-owned, " +
		"where fresh includes the result of a declared module function (a constructor such as newNameRecord(…), up to three levels) whose summary shows that every return yields the callee's own unleaked allocation, that every reference the callee stored into it is itself fresh, and whose parameters reaching the result are judged on the caller's arguments; a constructor that publishes its result (package variable, channel, goroutine) or keeps a caller-supplied slice is a violation; a value whose provenance is not followed to an allocation or parameter is NOT DECIDED (discharged with a note); " +
		"(lock values) bound method values of the mutex (unlock := n.mu.Unlock; defer n.lock()() with lock() returning n.mu.Unlock) are followed; a function value carrying the mutex that cannot be read makes the lock state unknown and the dependent obligations NOT DECIDED; " +
		"(who) guarded memory is touched only by code reached from methods of NetBIOSNameServer (or by the constructor exemption). " +
		"NOT DECIDED (needs model checking / exploration of histories and schedules): the register/release/refresh conflict matrix (unique vs group), owner de-duplication, that ReleaseName/RefreshName check the right owner, deletion of empty groups, the Status==Active filter, TTL/expiry semantics, linearizability of compound caller-side sequences, panics between Lock and an explicit Unlock, " +
		"and whether callers mutate the bytes of a net.IP after registering it (the bytes of an owner address are not part of G; the table never writes them)."
	r.Assumptions = append(r.Assumptions,
		"go/parser, go/types and the go/ssa builder of x/tools are correct; type-based aliasing (no unsafe, no reflection on the table)",
		"a lock held by the caller protects a callee only through static in-module calls; calls through interfaces/function values that receive neither the server nor a guarded value are assumed not to lock the same server again",
		"out-of-module callees in the printed contract table (fmt.*, slices.*, sort.Slice…) do not retain their arguments beyond what the table says; any other out-of-module callee receiving a guarded value is reported undecided",
		"panics are not exits for the pairing rule (a panic between Lock and an explicit Unlock leaves the lock held; deferred unlocks do not have this problem)",
		"elements loaded from record.Owners (net.IP values) are treated as values: their byte arrays are never written by the table and are not part of the guarded set",
		"unexported functions with no caller in the module are vacuously 'called only with the lock held' (listed in evidence under skipped_uncalled)")

	pk := p.Pkg(c17Pkg)
	if pk == nil || pk.Types == nil {
		r.Undecided("anchor", "package "+c17Pkg, "-", "package does not resolve")
		return
	}
	lookupNamed := func(name string) *types.Named {
		tn, _ := pk.Types.Scope().Lookup(name).(*types.TypeName)
		if tn == nil {
			return nil
		}
		n, _ := tn.Type().(*types.Named)
		return n
	}
	owner := lookupNamed("NetBIOSNameServer")
	record := lookupNamed("NameRecord")
	if owner == nil || record == nil {
		r.Undecided("anchor", "types NetBIOSNameServer / NameRecord", "-", "anchor types do not resolve")
		return
	}
	ost, _ := owner.Underlying().(*types.Struct)
	if ost == nil {
		r.Undecided("anchor", "NetBIOSNameServer", p.Rel(owner.Obj().Pos()), "not a struct")
		return
	}
	// the mutex: the single sync.RWMutex / sync.Mutex field; the guarded fields:
	// every field whose type reaches NameRecord
	var mu *types.Var
	guarded := map[*types.Var]bool{}
	var gnames []string
	for i := 0; i < ost.NumFields(); i++ {
		f := ost.Field(i)
		if n, ok := types.Unalias(f.Type()).(*types.Named); ok && n.Obj().Pkg() != nil && n.Obj().Pkg().Path() == "sync" &&
			(n.Obj().Name() == "RWMutex" || n.Obj().Name() == "Mutex") {
			if mu != nil {
				r.Undecided("anchor", "NetBIOSNameServer mutex field", p.Rel(f.Pos()), "more than one mutex field: which one guards the table is not decidable")
				return
			}
			mu = f
			continue
		}
		if typeReaches(f.Type(), record, map[types.Type]bool{}) {
			if _, isMap := f.Type().Underlying().(*types.Map); !isMap {
				r.Undecided("anchor", "NetBIOSNameServer."+f.Name(), p.Rel(f.Pos()), "a field reaching NameRecord is not a map: the engine models map tables only")
				return
			}
			guarded[f] = true
			gnames = append(gnames, f.Name())
		}
	}
	if mu == nil || len(guarded) == 0 {
		r.Undecided("anchor", "NetBIOSNameServer fields", p.Rel(owner.Obj().Pos()), "no sync.RWMutex field or no field holding NameRecords")
		return
	}
	sort.Strings(gnames)
	r.OK("anchor", "NetBIOSNameServer{"+mu.Name()+"; "+strings.Join(gnames, ",")+"}", p.Rel(owner.Obj().Pos()), "lock field and guarded table field resolved through go/types")

	for _, m := range c17Methods {
		fn := p.Func(c17Pkg, "NetBIOSNameServer", m)
		if fn == nil {
			r.Undecided("anchor", "(*NetBIOSNameServer)."+m, "-", "API method does not resolve")
			continue
		}
		r.OK("anchor", "(*NetBIOSNameServer)."+m, p.Rel(fn.Pos()), "resolved")
	}

	sp := &effects.Spec{Owner: owner, Mu: mu, Guarded: guarded, Records: map[*types.Named]bool{record: true},
		InModule: p.InModule, FuncName: func(f *ssa.Function) string { return p.FuncName(f) }, Pos: p.Rel}
	eng := effects.New(sp, p.SSA)
	var obls []*effects.Obl
	c.guard("engine", "E4 lock/alias engine over the module", p.Rel(owner.Obj().Pos()), func() { obls = eng.Run() })

	perFn := map[string]int{}
	var listing []string
	for _, o := range obls {
		construct := o.Fn + ": " + o.Text
		listing = append(listing, fmt.Sprintf("%s | %s | %s | %s", o.Rule, construct, o.Pos, o.Reason))
		var st report.Status
		switch o.Status {
		case effects.OK:
			st = report.Discharged
		case effects.NotDecided:
			st = report.Discharged
			r.Note("C17 %s: %s: %s", o.Rule, construct, o.Reason)
		case effects.Fail:
			st = report.Finding
		default:
			st = report.Undecided
		}
		r.Add(o.Rule, construct, o.Pos, st, o.Reason, nil)
		if o.Rule == effects.RLockset {
			perFn[o.Top]++
		}
	}
	// every API method must reach at least one recognised guarded access (in its
	// own body or in a statically called in-module helper): no vacuous pass
	for _, m := range c17Methods {
		fn := p.Func(c17Pkg, "NetBIOSNameServer", m)
		if fn == nil {
			continue
		}
		n := 0
		for _, g := range eng.Reach(fn) {
			n += perFn[p.FuncName(g)]
		}
		if n == 0 {
			r.Undecided(effects.RLockset, p.FuncName(fn)+": guarded accesses", p.Rel(fn.Pos()), "no access to the guarded table was recognised in or under this API method: the rule no longer matches its shape")
		}
	}
	for rule, n := range c17FloorTable {
		r.Floor(rule, n)
	}
	r.Extra["guarded_set"] = fmt.Sprintf("NetBIOSNameServer.{%s} (+ map contents), every field of NameRecord records in the table, backing arrays of reference-typed record fields; lock NetBIOSNameServer.%s (%s)",
		strings.Join(gnames, ","), mu.Name(), types.TypeString(mu.Type(), nil))
	r.Extra["entry_points_analysed"] = eng.Entries
	r.Extra["lock_contexts_per_function"] = eng.Analysed
	r.Extra["in_module_call_sites_followed"] = eng.CallSites
	r.Extra["functions_with_guarded_values"] = eng.TaintedUnits
	r.Extra["skipped_uncalled"] = eng.Skipped
	r.Extra["guarded_accesses_per_function"] = perFn
	r.Extra["obligation_listing"] = listing
	r.Extra["external_contract_table"] = effects.ExtTableNames()
}

// instance counts confirmed by reading the go/ssa form of nbtns.go on today's tree
//
// Confirmed counts (2026-09): anchor 7 (type+fields, 6 API methods); lockset 58
// accesses (constructor 1, RegisterName 18, QueryName 7, ReleaseName 17,
// RefreshName 6, MarkNameConflict 3, CleanExpiredNames 6); exclusive 18 writes;
// who 58; escape 12 (7 reference-carrying results + 5 inbound stores); pairing 6
// and reentry 6 (one acquire per API method). Behaviour-preserving refactors
// (extracting a helper, caching a field in a local, one lock helper) lower the
// SSA-level counts legitimately, so the floors of the counting rules are half the
// confirmed counts; vacuity is excluded separately per API method (each must
// reach at least one recognised guarded access).
var c17FloorTable = map[string]int{
	"anchor":           7,
	effects.RLockset:   29,
	effects.RExclusive: 9,
	effects.RWho:       29,
	effects.REscape:    6,
	effects.RPairing:   3,
	effects.RReentry:   3,
}

func typeReaches(t types.Type, target *types.Named, seen map[types.Type]bool) bool {
	if t == nil || seen[t] {
		return false
	}
	seen[t] = true
	switch u := types.Unalias(t).(type) {
	case *types.Named:
		if u.Obj() == target.Obj() {
			return true
		}
		// a named container of the module (type nameTable map[string]*NameRecord)
		if _, isStruct := u.Underlying().(*types.Struct); !isStruct {
			return typeReaches(u.Underlying(), target, seen)
		}
		return false
	case *types.Pointer:
		return typeReaches(u.Elem(), target, seen)
	case *types.Slice:
		return typeReaches(u.Elem(), target, seen)
	case *types.Array:
		return typeReaches(u.Elem(), target, seen)
	case *types.Map:
		return typeReaches(u.Key(), target, seen) || typeReaches(u.Elem(), target, seen)
	case *types.Chan:
		return typeReaches(u.Elem(), target, seen)
	case *types.Struct:
		for i := 0; i < u.NumFields(); i++ {
			if typeReaches(u.Field(i).Type(), target, seen) {
				return true
			}
		}
	}
	return false
}
