package rules

import (
	"go/constant"
	"bytes"
	"fmt"
	"go/token"
	"go/types"
	"math/big"
	"os"
	"sort"
	"strings"

	"golang.org/x/tools/go/ssa"

	"manticheck/internal/codec"
	"manticheck/internal/lin"
	"manticheck/internal/prove"
	"manticheck/internal/report"
)

func init() { register(&Check{ID: "C08", NeedSSA: true, Run: runC08}) }

const (
	c08NTLM    = "network/smb/smb_v10/spnego/ntlm"
	c08SPNEGO  = "network/smb/smb_v10/spnego"
	c08Version = "network/smb/smb_v10/spnego/ntlm/version"
	c08UTF16   = "utils/encoding/utf16"
)

// Specification tables (MS-NLMP 2.2.1.1 / 2.2.1.3). Offsets in bytes; every
// multi-byte integer little-endian.

type c08Desc struct {
	name string // MS-NLMP field name of the (Len, MaxLen, BufferOffset) triple
	off  int
	// role: where the designated bytes must come from
	param  int // index of the string parameter (names); -1 otherwise
	result int // tuple index of calculateNTLMv?Response (responses); -1 otherwise
}

type c08Msg struct {
	fn        string
	typeConst string
	msgType   int64
	flagsOff  int
	verOff    int
	micOff    int // -1: none
	header    int
	descs     []c08Desc
}

var c08Negotiate = c08Msg{
	fn: "CreateNegotiateMessage", typeConst: "NTLM_NEGOTIATE", msgType: 1,
	flagsOff: 12, verOff: 32, micOff: -1, header: 40,
	descs: []c08Desc{
		{"DomainNameFields", 16, 0, -1},
		{"WorkstationFields", 24, 1, -1},
	},
}

var c08Authenticate = c08Msg{
	fn: "CreateAuthenticateMessage", typeConst: "NTLM_AUTHENTICATE", msgType: 3,
	flagsOff: 60, verOff: 64, micOff: 72, header: 88,
	descs: []c08Desc{
		{"LmChallengeResponseFields", 12, -1, 0},
		{"NtChallengeResponseFields", 20, -1, 1},
		{"DomainNameFields", 28, 3, -1},
		{"UserNameFields", 36, 1, -1},
		{"WorkstationFields", 44, 4, -1},
		{"EncryptedRandomSessionKeyFields", 52, -1, -1},
	},
}

var c08Signature = []byte("NTLMSSP\x00")

type c08 struct {
	*Ctx
	w *prove.World
	// loopGuards: the error-exit tests of the counted table loops of the builder
	// being analysed (for _, f := range fields { if len(f) > 0xFFFF { return … } })
	loopGuards []codec.LoopGuard
	nd         int // NOT DECIDED entities so far (c08_complete.go)
	builderND  map[string]bool
}

func (c *c08) fname(fn *ssa.Function) string { return c.P.FuncName(fn) }

func (c *c08) pos(p token.Pos) string { return c.P.Rel(p) }

func (c *c08) ipos(in ssa.Instruction) string {
	if in == nil {
		return "-"
	}
	return c.P.Rel(in.Pos())
}

func runC08(cx *Ctx) {
	r := cx.R
	c := &c08{Ctx: cx, w: prove.NewWorld(cx.P)}
	r.Explanation = "Static, structural. DECIDED — " +
		"R1 (layout): the byte sequence returned by ntlm.CreateNegotiateMessage / CreateAuthenticateMessage, read off go/ssa (append chains, make+PutUintN, AppendUintN, fixed-offset writes into a constant-size header — also under a condition, which yields the bytes or the buffer's zeros —, one buffer made at the final computed size with copies at symbolic offsets that must tile it exactly, bytes.Buffer, up to two levels of in-module helpers, and counted loops over a local [][]byte literal, which are unrolled statically: trip count from the loop's own test, one activation per iteration), has at the MS-NLMP offsets: the 8-byte NTLM_SIGNATURE global (initialised once, never written, = \"NTLMSSP\\0\"), MessageType 4LE = NTLM_NEGOTIATE(1)/NTLM_AUTHENTICATE(3), the (Len 2LE, MaxLen 2LE, Offset 4LE) triples, NegotiateFlags 4LE, an 8-byte VERSION (version.Version.Marshal, itself checked against the VERSION layout in both directions) and for AUTHENTICATE a 16-byte MIC; the fixed part is exactly 40/88 bytes and the payload starts there. " +
		"R2 (descriptor arithmetic, symbolic over len(payload) terms): for every descriptor Len and MaxLen are the length of one payload value P, Offset equals — as a linear form — the position at which P is appended (header + Σ lengths of the payloads appended before it), every appended payload is designated by exactly one descriptor and appended once, the response descriptors designate the matching results of calculateNTLMv?Response; and (E1) the uint16/uint32 narrowings of length and offset are guarded so they cannot truncate (for a conversion inside a helper or a loop iteration the quantity converted by that activation is bounded at the outermost call site). In-bounds and pairwise non-overlap of all designated ranges follow for all inputs. " +
		"R3 (character set): on the paths where the Unicode test is true every name payload is produced by utf16.EncodeUTF16LE of the right parameter (optionally upper-cased), on the other paths by a []byte(string) conversion and never by EncodeUTF16LE — directly or in a shared encoding helper whose own branches on the test are followed; NEGOTIATE sets exactly UNICODE resp. OEM on those paths (also when the flags are assembled by a helper); AUTHENTICATE tests NTLMSSP_NEGOTIATE_UNICODE on challenge.NegotiateFlags and echoes that same field. " +
		"R4 (parsers): ParseChallengeMessage moves the MS-NLMP CHALLENGE fields (signature 0..8 compared with NTLM_SIGNATURE by bytes.Equal / bytes.HasPrefix / string comparison, type 8 = NTLM_CHALLENGE enforced, TargetNameFields 12, flags 20, server challenge 24..32, reserved 32..40, TargetInfoFields 40, version 48..56) little-endian into the struct it returns; each payload is data[Offset : Offset+Len] with both taken from that descriptor — inline or in a payload helper (up to two levels, integer accessors included, nested windows composed), read at its call site — and the slice proved in bounds by E1 from the dominating guard (so the guard tested the very values sliced); ParseTargetInfo walks AvId 2LE, AvLen 2LE, value[AvLen], advances by 4+AvLen (an integer offset or a re-sliced tail), stores the value under AvId and stops at MsvAvEOL. " +
		"R5 (SPNEGO framing): encodeLength returns one byte for < 128 and otherwise ceil(bits/8) bytes most-significant first (octet count by a shift loop, (bits.Len+7)/8 or a ladder of range tests proved by E1; octets by a fill loop or the tail of an 8-byte big-endian image); CreateNegTokenInit/Resp — directly or through a shared framing helper — emit 0x60, then the short form or 0x80|n followed by encodeLength's n bytes (alternatively the marker iff >= 128 followed on both paths by encodeLength, or a length helper returning those alternatives), of exactly the combined length of the two DER blobs that follow; ParseNegTokenResp/ExtractNTLMToken — directly or through a header helper whose error is checked — check 0x60 and skip 2+(b1&0x7F) bytes when b1&0x80 is set, else 2. " +
		"ALSO READ: a running payload offset kept in a captured variable or a cursor struct and handed out by a closure / method (the cell's operations are replayed symbolically in dominance order), an offset table filled by a counted loop and read back by constant index, a decoded descriptor carried in a struct value or returned as several results (a field load denotes the one value stored there; helper results are read in their activation), a message accumulated by a local writer object with append-only methods, guards written as a counted loop over a table of the payloads or moved into a validating helper (error or bool verdict, read at its call site), NTLM_SIGNATURE as a byte literal, the Unicode test in a predicate, the v1/v2 response dispatch in a helper. " +
		"COMPLETENESS BEFORE VERDICT: a violation is reported only for something observed in a completely extracted flow (a wrong byte order, offset, width, constant, producer, a swapped field, overlapping / truncated / non-tiling writes, a header of variable size, a guard read in full that is too weak or skips a row, a conversion whose operand has no bound although nothing that could establish one was left unread). When the data a rule reasons about is handed to code that was not followed (an in-module function or closure that can reject it, a cursor object, a callback), or has a shape that is not read (a loop that is not counted, several success returns, an unresolved term in an offset), the entity is recorded as OK 'NOT DECIDED — <what escaped and where>' with a run note, its instances are credited to the floors, and no violation is raised; a missing anchor, a type-check failure or a panic of the checker still fails. " +
		"NOT DECIDED — the DER produced/consumed by encoding/asn1 (so the SPNEGO round trip for all token lengths, including the empty token, is not established), that a parsed CHALLENGE equals what a peer sent beyond the byte-lane map above, the numeric content of the responses (C02) and of EncodeUTF16LE (C01), the OEM code page, and receivers' treatment of zero-length fields."
	r.Assumptions = append(r.Assumptions,
		"go/ssa of x/tools v0.50.0 and go/types are trusted; encoding/binary PutUintN/UintN/AppendUintN write/read N/8 bytes in the stated order; append(s, t...) yields s followed by t; bytes.Buffer.Write* append",
		"the total length of the slices live in one call is below 2^62 (int arithmetic on lengths does not wrap)",
		"specification tables (MS-NLMP 2.2.1.1-3, 2.2.2.1, 2.2.2.10; X.690 8.1.3) transcribed by hand")

	if want := os.Getenv("C08_DUMP"); want != "" { // debugging aid: SSA of the named functions
		for _, fn := range c.w.Funcs {
			for _, n := range strings.Split(want, ",") {
				if fn.Name() == n {
					fn.WriteTo(os.Stderr)
				}
			}
		}
	}
	sigGlobal := c.signatureGlobal()
	c.versionLayout()
	neg := c.builder(c08Negotiate, sigGlobal)
	auth := c.builder(c08Authenticate, sigGlobal)
	c.charset(c08Negotiate, neg)
	c.charset(c08Authenticate, auth)
	c.parseChallenge(sigGlobal)
	c.parseTargetInfo()
	c.spnego()

	r.Extra["functions_analysed"] = []string{
		c08NTLM + ".CreateNegotiateMessage", c08NTLM + ".CreateAuthenticateMessage", c08NTLM + ".ParseChallengeMessage", c08NTLM + ".ParseTargetInfo",
		c08Version + ".Version.Marshal", c08Version + ".Version.Unmarshal",
		c08SPNEGO + ".encodeLength", c08SPNEGO + ".CreateNegTokenInit", c08SPNEGO + ".CreateNegTokenResp", c08SPNEGO + ".ParseNegTokenResp", c08SPNEGO + ".ExtractNTLMToken",
	}
	r.Extra["module_functions_scanned_for_signature_writes"] = len(c.w.Funcs)
	r.Extra["spec_tables"] = map[string]any{
		"NEGOTIATE":    "Signature 0/8, MessageType 8/4=1, NegotiateFlags 12/4, DomainNameFields 16/(2,2,4), WorkstationFields 24/(2,2,4), Version 32/8, payload 40",
		"AUTHENTICATE": "Signature 0/8, MessageType 8/4=3, Lm 12, Nt 20, Domain 28, User 36, Workstation 44, SessionKey 52 (each 2,2,4), NegotiateFlags 60/4, Version 64/8, MIC 72/16, payload 88",
		"CHALLENGE":    "Signature 0/8, MessageType 8/4=2, TargetNameFields 12/(2,2,4), NegotiateFlags 20/4, ServerChallenge 24/8, Reserved 32/8, TargetInfoFields 40/(2,2,4), Version 48/8",
		"VERSION":      "ProductMajorVersion 0/1, ProductMinorVersion 1/1, ProductBuild 2/2LE, Reserved 4/3, NTLMRevision 7/1",
		"AV_PAIR":      "AvId 2LE, AvLen 2LE, Value[AvLen]; MsvAvEOL = 0 terminates",
		"DER length":   "< 128: one octet; else 0x80|n then n octets, most significant first; GSS-API InitialContextToken tag 0x60",
	}

	r.Floor("R1.signature-global", 1)
	r.Floor("R1.layout", 2)
	r.Floor("R1.signature", 2)
	r.Floor("R1.message-type", 2)
	r.Floor("R1.field", 2+1+2+3*8) // flags×2, MIC, version×2, 3 atoms for each of the 2+6 descriptors
	r.Floor("R1.header-size", 2)
	r.Floor("R1.version-layout", 2)
	r.Floor("R2.desc-len", 8)
	r.Floor("R2.desc-offset", 8)
	r.Floor("R2.desc-narrow", 8)
	r.Floor("R2.desc-role", 2)
	r.Floor("R2.payload-cover", 2)
	r.Floor("R3.charset-flag", 2)
	r.Floor("R3.charset-name", 10)
	r.Floor("R4.challenge-field", 8)
	r.Floor("R4.challenge-check", 2)
	r.Floor("R4.challenge-desc", 2)
	r.Floor("R4.avpair", 5)
	r.Floor("R5.encode-length", 3)
	r.Floor("R5.gss-header", 2)
	r.Floor("R5.gss-skip", 2)
	r.Floor("R5.gss-tag", 2)
}

// ---------------------------------------------------------------------------
// R1: NTLM_SIGNATURE is a write-once global holding "NTLMSSP\0".

func (c *c08) signatureGlobal() *ssa.Global {
	const rule = "R1.signature-global"
	construct := c08NTLM + ".NTLM_SIGNATURE"
	sp := c.P.SSAPkgs[c.P.ModPath+"/"+c08NTLM]
	if sp == nil {
		c.R.Undecided(rule, construct, "-", "package "+c08NTLM+" not found")
		return nil
	}
	g, _ := sp.Members["NTLM_SIGNATURE"].(*ssa.Global)
	if g == nil {
		c.R.Undecided(rule, construct, "-", "package variable NTLM_SIGNATURE not found")
		return nil
	}
	bs, ok := codec.GlobalConstBytes(g)
	if !ok {
		c.notDecided(rule, construct, c.pos(g.Pos()), "NTLM_SIGNATURE is not initialised exactly once from a constant string or byte literal: its content is not read off")
		return g
	}
	if !bytes.Equal(bs, c08Signature) {
		c.R.Fail(rule, construct, c.pos(g.Pos()), fmt.Sprintf("NTLM_SIGNATURE is %q, MS-NLMP requires %q", bs, c08Signature))
		return g
	}
	// no function of the module writes the variable or its elements
	for _, fn := range c.w.Funcs {
		for _, b := range fn.Blocks {
			for _, in := range b.Instrs {
				switch x := in.(type) {
				case *ssa.Store:
					if x.Addr == ssa.Value(g) && !(fn.Pkg == sp && fn.Name() == "init") {
						c.R.Fail(rule, construct, c.ipos(in), "NTLM_SIGNATURE is assigned in "+c.fname(fn))
						return g
					}
					if x.Val == ssa.Value(g) {
						c.notDecided(rule, construct, c.ipos(in), "the address of NTLM_SIGNATURE is stored in "+c.fname(fn)+"; writes through it are not followed")
						return g
					}
				case *ssa.UnOp:
					if x.Op == token.MUL && x.X == ssa.Value(g) {
						if why := c08ReadOnlyUses(x); why != "" {
							c.notDecided(rule, construct, c.ipos(in), "in "+c.fname(fn)+" the loaded NTLM_SIGNATURE slice "+why+"; whether that writes it is not followed")
							return g
						}
					}
				}
			}
		}
	}
	c.R.OK(rule, construct, c.pos(g.Pos()), "initialised once to \"NTLMSSP\\0\"; no assignment and no element store in the module")
	return g
}

var c08ReadOnlyDepth int

// c08ReadOnlyUses: slice value v is only read (append source, comparison, copy source, len).
func c08ReadOnlyUses(v ssa.Value) string {
	if v.Referrers() == nil {
		return ""
	}
	for _, r := range *v.Referrers() {
		switch x := r.(type) {
		case *ssa.DebugRef:
		case ssa.CallInstruction:
			cc := x.Common()
			if b, ok := cc.Value.(*ssa.Builtin); ok {
				switch b.Name() {
				case "len", "cap":
					continue
				case "append":
					if len(cc.Args) > 1 && cc.Args[1] == v && cc.Args[0] != v {
						continue
					}
				case "copy":
					if cc.Args[1] == v && cc.Args[0] != v {
						continue
					}
				}
				return "is used as the destination of " + b.Name()
			}
			if f := cc.StaticCallee(); f != nil {
				switch f.String() {
				case "bytes.Equal", "bytes.HasPrefix", "bytes.Compare", "(*bytes.Buffer).Write", "(*strings.Builder).Write", "bytes.Clone", "slices.Clone", "bytes.Contains", "bytes.Index":
					continue
				}
				// a function with a body: what it does with the parameter the slice is bound to
				if f.Blocks != nil && !cc.IsInvoke() && c08ReadOnlyDepth < 2 {
					ok := true
					for i, a := range cc.Args {
						if a != v {
							continue
						}
						if i >= len(f.Params) {
							ok = false
							break
						}
						c08ReadOnlyDepth++
						why := c08ReadOnlyUses(f.Params[i])
						c08ReadOnlyDepth--
						if why != "" {
							ok = false
						}
					}
					if ok {
						continue
					}
				}
			}
			return "is passed to a call that may write it"
		case *ssa.IndexAddr:
			for _, rr := range *x.Referrers() {
				if u, ok := rr.(*ssa.UnOp); ok && u.Op == token.MUL {
					continue
				}
				return "is written through"
			}
		case *ssa.Lookup, *ssa.Index:
		case *ssa.Convert:
			if !c08IsString(x.Type()) {
				return "is converted to " + x.Type().String()
			}
		case *ssa.Slice:
			if why := c08ReadOnlyUses(x); why != "" {
				return why
			}
		default:
			return fmt.Sprintf("is used by %T", r)
		}
	}
	return ""
}

// ---------------------------------------------------------------------------
// R1/R2: the builders.

type c08Placed struct {
	p   *codec.Piece
	off lin.Form
}

// c08Built is what the charset rule needs from a builder.
type c08Built struct {
	fn       *ssa.Function
	payload  map[string]ssa.Value // descriptor name → payload value P
	flagsVal ssa.Value
}

func (c *c08) place(z *codec.Sym, ps []*codec.Piece) (out []c08Placed, total lin.Form, why string) {
	off := lin.K(0)
	for _, p := range ps {
		if p.Kind == "unknown" {
			return out, off, p.Why
		}
		w, ok := z.WidthOf(p)
		if !ok {
			return out, off, "a piece of undeterminable width: " + p.String()
		}
		out = append(out, c08Placed{p, off})
		off = off.Add(w)
	}
	return out, off, ""
}

func c08FormConst(f lin.Form) (int64, bool) {
	k, ok := f.ConstVal()
	if !ok || !k.IsInt64() {
		return 0, false
	}
	return k.Int64(), true
}

func (c *c08) builder(spec c08Msg, sig *ssa.Global) *c08Built {
	fn := c.P.Func(c08NTLM, "", spec.fn)
	name := c08NTLM + "." + spec.fn
	if fn == nil || fn.Blocks == nil {
		c.R.Undecided("R1.layout", name, "-", "anchor function not found")
		return nil
	}
	var res *c08Built
	nRole := 0
	for _, d := range spec.descs {
		if d.result >= 0 {
			nRole++
		}
	}
	nField := 2 + 3*len(spec.descs)
	if spec.micOff >= 0 {
		nField++
	}
	nd0, bad0 := c.nd, c.violations()
	c.entity(map[string]int{"R1.layout": 1, "R1.signature": 1, "R1.message-type": 1, "R1.field": nField, "R1.header-size": 1,
		"R2.desc-len": len(spec.descs), "R2.desc-offset": len(spec.descs), "R2.desc-narrow": len(spec.descs), "R2.desc-role": nRole, "R2.payload-cover": 1},
		func() {
			c.guard("R1.layout", name, c.pos(fn.Pos()), func() { res = c.builder1(spec, sig, fn, name) })
		})
	if c.nd > nd0 || (res == nil && c.violations() > bad0) {
		if c.builderND == nil {
			c.builderND = map[string]bool{}
		}
		c.builderND[spec.fn] = true
	}
	return res
}

func (c *c08) builder1(spec c08Msg, sig *ssa.Global, fn *ssa.Function, name string) *c08Built {
	r := c.R
	st := codec.NewStreamer(fn, c.P.InModule)
	rets := st.Returns()
	if len(rets) != 1 {
		c.notDecided("R1.layout", name, c.pos(fn.Pos()), fmt.Sprintf("the builder has %d success returns; the message is read off exactly one", len(rets)))
		return nil
	}
	pieces := st.Stream(rets[0])
	z := codec.NewSym()
	fi := c.w.Info(fn)
	z.LoadRep = fi.LoadRep
	c.loopGuards = append(st.LoopGuards(), st.CallGuards()...)
	if os.Getenv("C08_DEBUG") != "" {
		for _, p := range pieces {
			fmt.Fprintln(os.Stderr, "piece", p.String(), "why:", p.Why)
		}
	}
	// Observed layout defects of a buffer all of whose writes were read: two writes
	// cover the same bytes, or the writes leave a hole / end before the buffer does.
	for _, p := range pieces {
		if p.Kind == "bytes" && (strings.Contains(p.Why, "do not tile the buffer") || strings.Contains(p.Why, "do not fill the buffer") || strings.Contains(p.Why, "overlapping writes") || strings.Contains(p.Why, "a copy truncates its source")) && p.Width < 0 {
			r.Fail("R1.layout", name, c.ipos(p.At), "the message buffer is written inconsistently: "+p.Why+" (every write to it was read; fields overlap or leave a hole)")
			return nil
		}
	}
	placed, total, why := c.place(z, pieces)
	if why != "" {
		// Observed, not unreadable: within the fixed part a join of alternatives of
		// different constant widths (a field emitted on one path and absent on
		// another) — the fixed header then has no fixed size.
		if k, isK := c08FormConst(total); isK && k < int64(spec.header) && len(placed) < len(pieces) {
			if q := pieces[len(placed)]; q.Kind == "alt" && q.Width < 0 {
				widths, allK := []string{}, true
				for _, a := range q.Alts {
					w, ok := codec.ConstWidth(a.Pieces)
					if !ok {
						allK = false
					}
					widths = append(widths, fmt.Sprint(w))
				}
				if allK {
					r.OK("R1.layout", name, c.pos(fn.Pos()), codec.RenderPieces(pieces))
					r.Fail("R1.header-size", name+": header size", c.ipos(q.At), fmt.Sprintf("at offset %d of the fixed part the message carries %s: alternatives of %s bytes, so the %d-byte fixed header has no fixed size and every later field moves", k, q.String(), strings.Join(widths, " | "), spec.header))
					return nil
				}
			}
		}
		pos := c.pos(fn.Pos())
		for _, p := range pieces {
			if p.Kind == "unknown" && p.At != nil {
				pos = c.ipos(p.At)
			}
		}
		c.notDecided("R1.layout", name, pos, "the returned byte sequence cannot be read off: "+why+" (layout so far: "+codec.RenderPieces(pieces)+")")
		return nil
	}
	r.Extra["layout "+spec.fn] = codec.RenderPieces(pieces)
	// the fixed part (or all of it) hidden in a run whose content was not read off
	// for a stated reason: one NOT DECIDED for the builder instead of one per field
	for _, pl := range placed {
		k, isK := c08FormConst(pl.off)
		if !isK || k >= int64(spec.header) {
			break
		}
		if pl.p.Width < 0 {
			if pl.p.Kind == "bytes" && pl.p.Why != "" {
				c.notDecided("R1.layout", name, c.ipos(pl.p.At), fmt.Sprintf("from offset %d on the message is the run %s, whose content is not read off: %s", k, pl.p.String(), pl.p.Why))
				return nil
			}
			break
		}
	}
	r.OK("R1.layout", name, c.pos(fn.Pos()), codec.RenderPieces(pieces))

	// split into the constant-offset fixed part and the payload
	fixed := map[int64]*codec.Piece{}
	inner := map[int64]*codec.Piece{} // fields inside fixed-width helper results
	var expand func(base int64, ps []*codec.Piece)
	expand = func(base int64, ps []*codec.Piece) {
		o := base
		for _, q := range ps {
			if q.Width < 0 {
				return
			}
			if _, dup := inner[o]; !dup {
				inner[o] = q
			}
			if q.Kind == "nested" {
				expand(o, q.Inner)
			}
			o += int64(q.Width)
		}
	}
	var payload []c08Placed
	fixedEnd := int64(0)
	inFixed := true
	for _, pl := range placed {
		k, isK := c08FormConst(pl.off)
		if inFixed && isK && pl.p.Width >= 0 && k < int64(spec.header) {
			fixed[k] = pl.p
			if pl.p.Kind == "nested" {
				expand(k, pl.p.Inner)
			}
			fixedEnd = k + int64(pl.p.Width)
			continue
		}
		inFixed = false
		payload = append(payload, pl)
	}
	covering := func(off int64) *codec.Piece {
		for k, q := range fixed {
			if k <= off && off < k+int64(q.Width) {
				return q
			}
		}
		return nil
	}

	var deferred []func(decided bool)
	at := func(rule, what string, off, width int) *codec.Piece {
		construct := name + ": " + what
		p := fixed[int64(off)]
		if p == nil || p.Width != width {
			if q := inner[int64(off)]; q != nil && q.Width == width {
				return q
			}
		}
		if p == nil {
			if q := covering(int64(off)); q != nil && (q.Kind == "bytes" || q.Kind == "nested") {
				if strings.Contains(q.Why, "overlapping writes") {
					// observed: two writes into the header buffer cover the same bytes
					r.Fail(rule, construct, c.ipos(q.At), fmt.Sprintf("offset %d lies inside %s: %s (a later write clobbers an earlier field)", off, q.String(), q.Why))
					return nil
				}
				c.notDecided(rule, construct, c.ipos(q.At), fmt.Sprintf("offset %d lies inside %s, whose content cannot be read off", off, q.String()))
				return nil
			}
			msg := fmt.Sprintf("no field starts at offset %d of the fixed header (MS-NLMP places %s there); header layout: %s", off, what, codec.RenderPieces(pieces))
			if int64(off) >= fixedEnd && len(payload) > 0 {
				// The offset lies in or behind the first variable-length run. If that run
				// is a payload some descriptor designates, the fixed part really ends
				// early; if it is a run of unknown content (the message accumulated in an
				// object that was not followed), the header is hidden inside it. Decided
				// once the descriptors have been matched.
				deferred = append(deferred, func(decided bool) {
					if decided {
						r.Fail(rule, construct, c.pos(fn.Pos()), msg)
					} else {
						c.notDecided(rule, construct, c.pos(fn.Pos()), fmt.Sprintf("offset %d (%s) lies in or behind the variable-length run %s, which no descriptor designates and whose content is not read off", off, what, payload[0].p.String()))
					}
				})
				return nil
			}
			r.Fail(rule, construct, c.pos(fn.Pos()), msg)
			return nil
		}
		if p.Width != width {
			if (p.Kind == "bytes" || p.Kind == "nested") && strings.Contains(p.Why, "overlapping writes") {
				r.Fail(rule, construct, c.ipos(p.At), fmt.Sprintf("offset %d starts %s: %s (a later write clobbers an earlier field)", off, p.String(), p.Why))
				return nil
			}
			if p.Kind == "bytes" || p.Kind == "nested" {
				c.notDecided(rule, construct, c.ipos(p.At), fmt.Sprintf("offset %d starts %s, whose content cannot be read off", off, p.String()))
				return nil
			}
			r.Fail(rule, construct, c.ipos(p.At), fmt.Sprintf("the field at offset %d is %d bytes wide, MS-NLMP %s is %d", off, p.Width, what, width))
			return nil
		}
		return p
	}
	intAt := func(rule, what string, off, width int) *codec.Piece {
		p := at(rule, what, off, width)
		if p == nil {
			return nil
		}
		construct := name + ": " + what
		if p.Kind == "zero" || p.Kind == "const" || p.Kind == "byte" {
			r.Fail(rule, construct, c.ipos(p.At), fmt.Sprintf("offset %d holds %s, expected a %d-byte little-endian integer", off, p.String(), width))
			return nil
		}
		if p.Kind != "int" {
			c.notDecided(rule, construct, c.ipos(p.At), fmt.Sprintf("offset %d holds %s, which cannot be read as a %d-byte integer", off, p.String(), width))
			return nil
		}
		if p.Order != "LE" {
			r.Fail(rule, construct, c.ipos(p.At), fmt.Sprintf("%s at offset %d is written %s; every NTLMSSP integer is little-endian", what, off, p.Order))
			q := *p
			q.Why = "wrong order" // reported; keep analysing the value it carries
			return &q
		}
		return p
	}

	// signature
	if p := at("R1.signature", "Signature", 0, 8); p != nil {
		construct := name + ": Signature"
		switch {
		case p.Kind == "global" && sig != nil && p.Src == ssa.Value(sig):
			r.OK("R1.signature", construct, c.ipos(p.At), "bytes 0..8 are the NTLM_SIGNATURE global")
		case (p.Kind == "const" || p.Kind == "global") && bytes.Equal(p.Const, c08Signature):
			r.OK("R1.signature", construct, c.ipos(p.At), "bytes 0..8 are the constant \"NTLMSSP\\0\"")
		case p.Kind == "bytes" || p.Kind == "nested" || p.Kind == "alt" || (p.Kind == "global" && p.Const == nil):
			// a value whose content was not read off (a parameter of a shared header
			// helper, another package variable …)
			c.notDecided("R1.signature", construct, c.ipos(p.At), "bytes 0..8 are "+p.String()+", whose content is not read off")
		default:
			r.Fail("R1.signature", construct, c.ipos(p.At), "bytes 0..8 are "+p.String()+", not the NTLMSSP signature")
		}
	}
	// message type
	if p := intAt("R1.message-type", "MessageType", 8, 4); p != nil && p.Why == "" {
		construct := name + ": MessageType"
		want, okc := c08PkgConst(c.P, c08NTLM, spec.typeConst)
		pv, _ := codec.Resolve(c08Strip(p.Val), p.Frame) // a shared header helper takes the type as a parameter
		got, isK := c08ConstInt(pv)
		switch {
		case !okc:
			r.Undecided("R1.message-type", construct, c.ipos(p.At), "constant "+spec.typeConst+" not found")
		case want.Int64() != spec.msgType:
			r.Fail("R1.message-type", construct, c.ipos(p.At), fmt.Sprintf("%s = %s, MS-NLMP value is %d", spec.typeConst, want, spec.msgType))
		case !isK:
			c.notDecided("R1.message-type", construct, c.ipos(p.At), "the MessageType written is "+pv.Name()+", a value that does not resolve to a constant")
		case got.Cmp(want) != 0:
			r.Fail("R1.message-type", construct, c.ipos(p.At), fmt.Sprintf("MessageType written is %s, must be %s = %d", got, spec.typeConst, spec.msgType))
		default:
			r.OK("R1.message-type", construct, c.ipos(p.At), fmt.Sprintf("4LE constant %d = %s", spec.msgType, spec.typeConst))
		}
	}
	built := &c08Built{fn: fn, payload: map[string]ssa.Value{}}
	// flags
	if p := intAt("R1.field", "NegotiateFlags", spec.flagsOff, 4); p != nil {
		if fv, ffr := codec.Resolve(c08Strip(p.Val), p.Frame); ffr == nil {
			built.flagsVal = fv
		}
		if _, isK := c08ConstInt(p.Val); isK && fn.Name() == c08Authenticate.fn {
			r.Fail("R1.field", name+": NegotiateFlags", c.ipos(p.At), "AUTHENTICATE flags are a constant")
		} else if p.Why == "" {
			r.OK("R1.field", name+": NegotiateFlags", c.ipos(p.At), fmt.Sprintf("4LE at %d", spec.flagsOff))
		}
	}
	// version
	if p := at("R1.field", "Version", spec.verOff, 8); p != nil {
		c.versionPiece(name, p)
	}
	// MIC
	if spec.micOff >= 0 {
		if p := at("R1.field", "MIC", spec.micOff, 16); p != nil {
			if p.Kind == "zero" || p.Kind == "bytes" {
				r.OK("R1.field", name+": MIC", c.ipos(p.At), "16 bytes at 72 ("+p.String()+")")
			} else if p.Kind == "nested" || p.Kind == "alt" || p.Kind == "global" {
				c.notDecided("R1.field", name+": MIC", c.ipos(p.At), "the 16 bytes at 72 are "+p.String()+", whose content is not read off")
			} else {
				r.Fail("R1.field", name+": MIC", c.ipos(p.At), "the 16 bytes at 72 are "+p.String())
			}
		}
	}
	// header size
	{
		construct := name + ": header size"
		first := int64(-1)
		if len(payload) > 0 {
			first, _ = c08FormConst(payload[0].off)
		} else if k, ok := c08FormConst(total); ok {
			first = k
		}
		switch {
		case (fixedEnd != int64(spec.header) || first != int64(spec.header)) && fixedEnd < int64(spec.header) && len(payload) > 0:
			msg := fmt.Sprintf("the fixed fields end at %d and the payload starts at %d; MS-NLMP fixed part is %d bytes", fixedEnd, first, spec.header)
			deferred = append(deferred, func(decided bool) {
				if decided {
					r.Fail("R1.header-size", construct, c.pos(fn.Pos()), msg)
				} else {
					c.notDecided("R1.header-size", construct, c.pos(fn.Pos()), fmt.Sprintf("the constant-offset part read off ends at %d, followed by the run %s, which no descriptor designates and whose content is not read off", fixedEnd, payload[0].p.String()))
				}
			})
		case fixedEnd != int64(spec.header) || first != int64(spec.header):
			r.Fail("R1.header-size", construct, c.pos(fn.Pos()), fmt.Sprintf("the fixed fields end at %d and the payload starts at %d; MS-NLMP fixed part is %d bytes", fixedEnd, first, spec.header))
		default:
			r.OK("R1.header-size", construct, c.pos(fn.Pos()), fmt.Sprintf("fixed fields sum to %d; payload starts at %d", fixedEnd, spec.header))
		}
	}

	// descriptors
	type designated struct {
		desc  string
		first int // index into payload
		n     int
	}
	var des []designated
	boundaries := []lin.Form{}
	for _, pl := range payload {
		boundaries = append(boundaries, pl.off)
	}
	boundaries = append(boundaries, total)
	if len(payload) == 0 {
		boundaries = []lin.Form{total}
	}
	skipped := map[string]bool{} // descriptors whose payload was not identified
	offUndecided := false
	var unmatched []func(decided bool)
	for _, d := range spec.descs {
		lenP := intAt("R1.field", d.name+".Len", d.off, 2)
		maxP := intAt("R1.field", d.name+".MaxLen", d.off+2, 2)
		offP := intAt("R1.field", d.name+".BufferOffset", d.off+4, 4)
		if lenP != nil && lenP.Why == "" {
			r.OK("R1.field", name+": "+d.name+".Len", c.ipos(lenP.At), fmt.Sprintf("2LE at %d", d.off))
		}
		if maxP != nil && maxP.Why == "" {
			r.OK("R1.field", name+": "+d.name+".MaxLen", c.ipos(maxP.At), fmt.Sprintf("2LE at %d", d.off+2))
		}
		if offP != nil && offP.Why == "" {
			r.OK("R1.field", name+": "+d.name+".BufferOffset", c.ipos(offP.At), fmt.Sprintf("4LE at %d", d.off+4))
		}
		if lenP == nil || maxP == nil || offP == nil {
			continue
		}
		// R2 desc-len
		construct := name + ": " + d.name
		P, pfr, _, _ := c08LenArg(lenP.Val, lenP.Frame)
		lf, mf := z.OfIn(lenP.Val, lenP.Frame), z.OfIn(maxP.Val, maxP.Frame)
		if P == nil {
			// n := len(P) kept in a variable, a length handed down through a helper …:
			// the form says which payload it is
			if ts := lf.Terms(); len(ts) == 1 && lf.C.Sign() == 0 && lf.Coef[ts[0]].IsInt64() && lf.Coef[ts[0]].Int64() == 1 {
				if v, isLen := z.TermValue(ts[0]); isLen {
					P, pfr = v, z.TermFrame(ts[0])
				}
			}
		}
		if P == nil {
			if op := c08OpaqueTerm(z, lf); op != "" {
				c.notDecided("R2.desc-len", construct, c.ipos(lenP.At), "Len = "+z.String(lf)+": "+op+" is not resolved to the length of a payload")
			} else {
				r.Fail("R2.desc-len", construct, c.ipos(lenP.At), "Len = "+z.String(lf)+" is not the length of one payload")
			}
			skipped[d.name] = true
			continue
		}
		if pfr != nil {
			where := "one iteration of a loop"
			if pfr.Callee != nil {
				where = "helper " + pfr.Callee.Name()
			}
			c.notDecided("R2.desc-len", construct, c.ipos(lenP.At), "the payload whose length is written is a value local to "+where)
			skipped[d.name] = true
			continue
		}
		switch {
		case !lf.Equal(mf):
			if op := c08OpaqueTerm(z, mf); op != "" {
				c.notDecided("R2.desc-len", construct, c.ipos(maxP.At), "MaxLen = "+z.String(mf)+": "+op+" is not resolved to the length of a payload")
				skipped[d.name] = true
				continue
			}
			r.Fail("R2.desc-len", construct, c.ipos(maxP.At), fmt.Sprintf("Len = %s but MaxLen = %s (must both be the length of the same payload)", z.String(lf), z.String(mf)))
		case !lf.Equal(z.LenOf(P)):
			c.notDecided("R2.desc-len", construct, c.ipos(lenP.At), "Len form "+z.String(lf)+" is not len(P)")
			skipped[d.name] = true
			continue
		default:
			r.OK("R2.desc-len", construct, c.ipos(lenP.At), "Len = MaxLen = "+z.String(lf))
		}
		built.payload[d.name] = P

		// R2 desc-narrow (E1)
		c.narrowing(name, d.name, fn, z, lenP, maxP, offP)

		// R2 desc-offset: locate P among the appended payload pieces
		of := z.OfIn(offP.Val, offP.Frame)
		if op := c08OpaqueTerm(z, of); op != "" {
			// the offset depends on a quantity the symbolic evaluation did not resolve
			// (a helper result, a value read back from memory, a loop-carried
			// variable): nothing about it was observed
			why := ""
			if call, isCall := c08Strip(offP.Val).(*ssa.Call); isCall {
				why = z.CellNote(call)
			}
			if why != "" {
				why = " (" + why + ")"
			}
			c.notDecided("R2.desc-offset", construct, c.ipos(offP.At), "BufferOffset = "+z.String(of)+": "+op+" is not resolved to lengths of payloads"+why)
			offUndecided = true
			continue
		}
		S := st.Stream(P)
		if len(S) == 0 {
			// empty payload: the offset must be one of the piece boundaries (in bounds)
			ok := false
			for _, b := range boundaries {
				if b.Equal(of) {
					ok = true
				}
			}
			if ok {
				r.OK("R2.desc-offset", construct, c.ipos(offP.At), "payload is empty by construction; BufferOffset = "+z.String(of)+" is a payload boundary inside the message")
			} else {
				r.Fail("R2.desc-offset", construct, c.ipos(offP.At), "payload is empty by construction but BufferOffset = "+z.String(of)+" is not a position inside the message (payload boundaries: "+c08Forms(z, boundaries)+")")
			}
			continue
		}
		var hits []int
		for i, pl := range payload {
			if pl.p == S[0] {
				hits = append(hits, i)
			}
		}
		switch {
		case len(hits) == 0:
			unmatched = append(unmatched, func(decided bool) {
				if decided {
					r.Fail("R2.desc-offset", construct, c.ipos(offP.At), fmt.Sprintf("the payload %s whose length the descriptor carries is never appended after the header", z.String(lf)))
				} else {
					c.notDecided("R2.desc-offset", construct, c.ipos(offP.At), fmt.Sprintf("the payload %s whose length the descriptor carries is not among the appended runs, and a run of another origin is appended: the two could not be identified with each other", z.String(lf)))
				}
			})
			continue
		case len(hits) > 1:
			r.Fail("R2.desc-offset", construct, c.ipos(payload[hits[1]].p.At), fmt.Sprintf("the payload of %s is appended %d times; a descriptor can designate only one range", d.name, len(hits)))
			for _, h := range hits {
				des = append(des, designated{d.name, h, len(S)})
			}
			continue
		}
		h := hits[0]
		contiguous := h+len(S) <= len(payload)
		for k := 0; contiguous && k < len(S); k++ {
			if payload[h+k].p != S[k] {
				contiguous = false
			}
		}
		if !contiguous {
			c.notDecided("R2.desc-offset", construct, c.ipos(offP.At), "the payload's pieces are not appended contiguously")
			offUndecided = true
			continue
		}
		des = append(des, designated{d.name, h, len(S)})
		if payload[h].off.Equal(of) {
			r.OK("R2.desc-offset", construct, c.ipos(offP.At), "BufferOffset = position of the payload = "+z.String(of))
		} else {
			r.Fail("R2.desc-offset", construct, c.ipos(offP.At), fmt.Sprintf("BufferOffset = %s but the payload is appended at %s: the descriptor does not designate the bytes of its field", z.String(of), z.String(payload[h].off)))
		}
	}
	// R2 payload-cover
	{
		construct := name + ": payload"
		cover := make([]int, len(payload))
		for _, d := range des {
			for k := 0; k < d.n && d.first+k < len(cover); k++ {
				cover[d.first+k]++
			}
		}
		bad, undesignated := "", false
		for i, n := range cover {
			if n == 0 {
				bad = fmt.Sprintf("the run %s appended at %s is not designated by any descriptor", payload[i].p.String(), z.String(payload[i].off))
				undesignated = true
				break
			}
			if n > 1 {
				bad = fmt.Sprintf("the run appended at %s is designated by %d descriptors", z.String(payload[i].off), n)
				break
			}
		}
		// fields looked for in or behind the first variable-length run
		hidden := len(deferred) > 0 && len(cover) > 0 && cover[0] == 0
		for _, f := range deferred {
			f(!hidden)
		}
		if hidden {
			offUndecided = true
		}
		// a descriptor whose payload is not found among the runs AND a run that no
		// descriptor designates: most likely the same bytes under two identities
		// (a copy, a re-encoding) — the match is incomplete, nothing was observed
		for _, f := range unmatched {
			f(!undesignated)
		}
		switch {
		case undesignated && (len(unmatched) > 0 || len(skipped) > 0 || offUndecided):
			c.notDecided("R2.payload-cover", construct, c.pos(fn.Pos()), bad+"; not every descriptor's payload could be identified (see R2.desc-len / R2.desc-offset)")
		case bad != "":
			r.Fail("R2.payload-cover", construct, c.pos(fn.Pos()), bad)
		default:
			var order []string
			sort.Slice(des, func(i, j int) bool { return des[i].first < des[j].first })
			for _, d := range des {
				order = append(order, d.desc)
			}
			r.OK("R2.payload-cover", construct, c.pos(fn.Pos()), fmt.Sprintf("%d payload runs, each designated by exactly one descriptor; order: %s; total = %s", len(payload), strings.Join(order, ", "), z.String(total)))
		}
	}
	// R2 desc-role for the response fields
	for _, d := range spec.descs {
		if d.result < 0 {
			continue
		}
		P := built.payload[d.name]
		if P == nil {
			continue
		}
		construct := name + ": " + d.name
		bad, nd := c.responseRole(P, d, 0)
		switch {
		case bad != "":
			r.Fail("R2.desc-role", construct, c.pos(fn.Pos()), "the designated payload is "+bad)
		case nd != "":
			c.notDecided("R2.desc-role", construct, c.pos(fn.Pos()), "the designated payload is "+nd)
		default:
			r.OK("R2.desc-role", construct, c.pos(fn.Pos()), fmt.Sprintf("payload is result #%d of calculateNTLMv1Response/calculateNTLMv2Response on every path", d.result))
		}
	}
	return built
}

// responseRole: every value that can flow into P is result #d.result of
// calculateNTLMv1Response / calculateNTLMv2Response — directly, or as the same
// result of an in-module helper that dispatches to them (up to two levels).
// bad: a result of those functions at another index, or of none of them, was
// observed; nd: the origin could not be followed.
func (c *c08) responseRole(P ssa.Value, d c08Desc, depth int) (bad, nd string) {
	v1 := c.P.Func(c08NTLM, "", "calculateNTLMv1Response")
	v2 := c.P.Func(c08NTLM, "", "calculateNTLMv2Response")
	var bv *c08BranchView
	leaves := bv.leaves(P)
	if len(leaves) == 0 {
		return "nothing", ""
	}
	for _, l := range leaves {
		if k, isK := l.(*ssa.Const); isK && k.Value == nil {
			continue // the zero value on an error path
		}
		ex, ok := l.(*ssa.Extract)
		if !ok {
			return "", "a value that is not a result of a call: " + l.Name()
		}
		_, f := c08StaticCall(ex.Tuple)
		switch {
		case f != nil && (f == v1 || f == v2):
			if ex.Index != d.result {
				return fmt.Sprintf("result #%d of %s (the %s descriptor must carry result #%d)", ex.Index, f.Name(), d.name, d.result), ""
			}
		case f != nil && f.Blocks != nil && c.P.InModule(f) && depth < 2:
			// a dispatching helper: the same result index of every return
			n := 0
			for _, b := range f.Blocks {
				ret, isRet := b.Instrs[len(b.Instrs)-1].(*ssa.Return)
				if !isRet || ex.Index >= len(ret.Results) {
					continue
				}
				n++
				b1, n1 := c.responseRole(ret.Results[ex.Index], d, depth+1)
				if b1 != "" {
					return b1 + " (in helper " + f.Name() + ")", ""
				}
				if n1 != "" {
					return "", n1 + " (in helper " + f.Name() + ")"
				}
			}
			if n == 0 {
				return "", "a result of " + f.Name() + ", which never returns"
			}
		default:
			name := "a dynamic call"
			if f != nil {
				name = f.Name()
			}
			return "", "a result of " + name + ", which is not followed"
		}
	}
	return "", ""
}

func c08Forms(z *codec.Sym, fs []lin.Form) string {
	var s []string
	for _, f := range fs {
		s = append(s, z.String(f))
	}
	return strings.Join(s, "; ")
}

// c08LenArg: v = uintN(len(P)) → P (with the frame it lives in) and the
// outermost narrowing conversion (with its frame). Parameters of inlined
// helpers are followed to the arguments they are bound to.
func c08LenArg(v ssa.Value, fr *codec.Frame) (P ssa.Value, pfr *codec.Frame, conv *ssa.Convert, cfr *codec.Frame) {
	for d := 0; d < 16; d++ {
		switch x := v.(type) {
		case *ssa.Convert:
			if conv == nil {
				conv, cfr = x, fr
			}
			v = x.X
			continue
		case *ssa.ChangeType:
			v = x.X
			continue
		case *ssa.Parameter:
			if arg, pf, ok := fr.Bind(x); ok {
				v, fr = arg, pf
				continue
			}
		case *ssa.UnOp, *ssa.Field:
			// a field of a descriptor struct value, a single-assignment cell
			if e, ef := codec.Resolve(v, fr); e != v {
				v, fr = e, ef
				continue
			}
		}
		break
	}
	if call, ok := c08IsBuiltin(v, "len"); ok {
		p, pf := codec.Resolve(call.Common().Args[0], fr)
		return p, pf, conv, cfr
	}
	return nil, nil, conv, cfr
}

// narrowing: the conversions of length and offset to their wire widths cannot
// truncate (proved by E1 from dominating guards; a conversion of a helper's
// parameter is proved at the call site, where the guard lives).
func (c *c08) narrowing(name, desc string, fn *ssa.Function, z *codec.Sym, pieces ...*codec.Piece) {
	construct := name + ": " + desc
	for i, p := range pieces {
		what := []string{"Len", "MaxLen", "BufferOffset"}[i]
		v, fr := p.Val, p.Frame
		var conv *ssa.Convert
		for d := 0; d < 16 && conv == nil; d++ {
			switch x := v.(type) {
			case *ssa.Convert:
				conv = x
			case *ssa.ChangeType:
				v = x.X
				continue
			case *ssa.Parameter:
				if arg, pf, ok := fr.Bind(x); ok {
					v, fr = arg, pf
					continue
				}
			case *ssa.UnOp, *ssa.Field:
				// the integer travels in a descriptor struct: the conversion happened
				// where the struct was built
				if e, ef := codec.Resolve(v, fr); e != v {
					v, fr = e, ef
					continue
				}
			}
			break
		}
		if conv == nil {
			continue // constant, or already of the wire type: nothing is narrowed here
		}
		if _, isK := c08ConstInt(conv); isK {
			continue
		}
		db, _ := conv.Type().Underlying().(*types.Basic)
		bits := c08Bits(db)
		max := new(big.Int).Sub(new(big.Int).Lsh(big.NewInt(1), uint(bits)), big.NewInt(1))
		// where to prove: at the conversion, or — when the converted value is a
		// helper parameter — before the call, on the argument
		var at ssa.Instruction = conv
		src := conv.X
		f2 := fr
		for d := 0; d < 8; d++ {
			prm, isP := src.(*ssa.Parameter)
			if !isP {
				break
			}
			arg, pf, ok := f2.Bind(prm)
			if !ok {
				break
			}
			at, src, f2 = f2.Call, arg, pf
		}
		ctx := c.w.Info(at.Parent()).CtxBefore(at)
		c.guardFacts(z, ctx, at)
		sf := ctx.Lin(src)
		proved := ctx.Prove(lin.LE(sf, lin.KB(max))) && ctx.Prove(lin.GE0(sf))
		if !proved {
			// The converted value lives in an inlined helper and/or in one iteration
			// of an unrolled loop, where E1 (which sees the helper alone, and the
			// loop body once for all iterations) knows nothing about it. Prove the
			// bound of the quantity this activation converts, at the outermost call
			// site: a form over values of the analysed function that are defined
			// before that point and outside the loop, so that the guards dominating
			// it are facts about them.
			var topAt ssa.Instruction = conv
			for f := fr; f != nil; f = f.Parent {
				if f.Iter == nil {
					topAt = f.Call
				}
			}
			ctx2 := c.w.Info(topAt.Parent()).CtxBefore(topAt)
			c.guardFacts(z, ctx2, topAt)
			if tf, ok := c08IterForm(z, ctx2, conv.X, fr, topAt); ok {
				if ctx2.Prove(lin.LE(tf, lin.KB(max))) && ctx2.Prove(lin.GE0(tf)) {
					proved = true
				} else {
					ctx, sf = ctx2, tf
				}
			}
		}
		if !proved {
			q := z.String(z.OfIn(conv.X, fr))
			// Completeness: the bound may be established by code that was not read —
			// the payload, its length or a table holding it is handed to a function or
			// closure that can reject it (returns bool / error or panics) and that is
			// not one of the validating helpers read above.
			if op := c08OpaqueTerm(z, z.OfIn(conv.X, fr)); op != "" {
				// the quantity itself was not resolved (read back from memory, a helper
				// result, a loop-carried value): nothing is known about its bound
				c.notDecided("R2.desc-narrow", construct, c.ipos(conv), fmt.Sprintf("%s.%s = uint%d(%s): %s is not resolved to lengths of payloads, so no bound could be looked for", desc, what, bits, q, op))
				return
			}
			if why := c.guardEscapes(z, conv, fr); why != "" {
				c.notDecided("R2.desc-narrow", construct, c.ipos(conv), fmt.Sprintf("%s.%s = uint%d(%s): no bound was proved, but %s, which may establish it", desc, what, bits, q, why))
				return
			}
			c.R.Add("R2.desc-narrow", construct, c.ipos(conv), report.Finding, fmt.Sprintf("%s.%s = uint%d(%s) is not guarded: a value above %s is silently truncated, so the descriptor no longer designates the bytes of its field (needs %s <= %s on every path to the conversion)", desc, what, bits, q, max, q, max),
				map[string]any{"facts": ctx.FactStrings(lin.LE(sf, lin.KB(max)), 12)})
			return
		}
	}
	c.R.OK("R2.desc-narrow", construct, c.pos(fn.Pos()), "uint16(len) and uint32(offset) proved in range by E1")
}

// guardEscapes: a quantity converted at conv (activation fr) — a payload, its
// length, a table it is stored in — flows, before the conversion, into code
// that could reject it and that the guard extraction did not read.
func (c *c08) guardEscapes(z *codec.Sym, conv *ssa.Convert, fr *codec.Frame) string {
	var before ssa.Instruction = conv
	for f := fr; f != nil; f = f.Parent {
		if f.Iter == nil && f.Call != nil {
			before = f.Call
		}
	}
	read := map[*ssa.Function]bool{}
	for _, g := range c.loopGuards {
		if g.Via != nil {
			read[g.Via.Common().StaticCallee()] = true
		}
	}
	opts := c08FlowOpts{lengths: true, before: before, validators: true, ignore: func(f *ssa.Function) bool { return read[f] }}
	form := z.OfIn(conv.X, fr)
	for _, t := range form.Terms() {
		v, _ := z.TermValue(t)
		if v == nil {
			continue
		}
		if _, isInstr := v.(ssa.Instruction); !isInstr {
			if _, isParam := v.(*ssa.Parameter); !isParam {
				continue
			}
		}
		if why := c.flowsOut(v, opts); why != "" {
			return why
		}
	}
	return ""
}

// guardFacts adds to ctx what the guards of the counted table loops that have
// run to their end before `at` established: in every iteration the test had
// the outcome that stays in the loop, so the relation holds for the table
// element (or other per-iteration quantity) of each iteration.
func (c *c08) guardFacts(z *codec.Sym, ctx *prove.Ctx, at ssa.Instruction) {
	for _, g := range c.loopGuards {
		if g.Exit.Parent() != at.Parent() || !g.Exit.Dominates(at.Block()) {
			continue
		}
		for _, fr := range g.Frames {
			x, ok1 := c08IterForm(z, ctx, g.Cond.X, fr, at)
			y, ok2 := c08IterForm(z, ctx, g.Cond.Y, fr, at)
			if os.Getenv("C08_DEBUG") != "" {
				fmt.Fprintln(os.Stderr, "guardFacts", g.Cond, g.Stay, ok1, ok2, z.String(z.OfIn(g.Cond.X, fr)))
			}
			if !ok1 || !ok2 {
				continue
			}
			op := g.Cond.Op
			if !g.Stay {
				switch op {
				case token.LSS:
					op = token.GEQ
				case token.LEQ:
					op = token.GTR
				case token.GTR:
					op = token.LEQ
				case token.GEQ:
					op = token.LSS
				case token.EQL:
					op = token.NEQ
				case token.NEQ:
					op = token.EQL
				}
			}
			switch op {
			case token.LSS:
				ctx.AddFact(lin.LT(x, y))
			case token.LEQ:
				ctx.AddFact(lin.LE(x, y))
			case token.GTR:
				ctx.AddFact(lin.GT(x, y))
			case token.GEQ:
				ctx.AddFact(lin.GE(x, y))
			case token.EQL:
				ctx.AddFact(lin.EQ(x, y)...)
			}
		}
	}
}

// c08IterForm: the value of src in iteration activation fr as an E1 form at
// `at`: src is evaluated symbolically (φs and table loads resolved per
// iteration) and every term of the result must be a value that is defined
// outside every unrolled loop and dominates `at`, so that E1's facts about it
// hold there. The evaluation looks through no narrowing conversion.
func c08IterForm(z *codec.Sym, ctx *prove.Ctx, src ssa.Value, fr *codec.Frame, at ssa.Instruction) (lin.Form, bool) {
	if c08HasNarrowing(src, fr, 0) {
		return lin.Form{}, false
	}
	f := z.OfIn(src, fr)
	out := lin.KB(f.C)
	for _, t := range f.Terms() {
		v, isLen := z.TermValue(t)
		switch x := v.(type) {
		case *ssa.Parameter:
			if x.Parent() != at.Parent() {
				return lin.Form{}, false
			}
		case ssa.Instruction:
			if x.Parent() != at.Parent() || !c08Before(x, at) || codec.InLoopOf(x.Block(), fr) {
				return lin.Form{}, false
			}
		default:
			return lin.Form{}, false
		}
		tf := ctx.Lin(v)
		if isLen {
			tf = ctx.LenOf(v)
		}
		out = out.Add(tf.Scale(f.Coef[t]))
	}
	return out, true
}

func c08Before(a, b ssa.Instruction) bool {
	if a.Block() == b.Block() {
		for _, in := range a.Block().Instrs {
			if in == a {
				return true
			}
			if in == b {
				return false
			}
		}
		return false
	}
	return a.Block().Dominates(b.Block())
}

// c08HasNarrowing: the integer expression v (followed through φs of unrolled
// loops, parameters and + −) contains a conversion to a narrower or
// differently-signed integer type.
func c08HasNarrowing(v ssa.Value, fr *codec.Frame, d int) bool {
	if d > 256 {
		return true
	}
	switch x := v.(type) {
	case *ssa.Convert:
		sb, ok1 := x.X.Type().Underlying().(*types.Basic)
		db, ok2 := x.Type().Underlying().(*types.Basic)
		if !ok1 || !ok2 || sb.Info()&types.IsInteger == 0 || db.Info()&types.IsInteger == 0 {
			return true
		}
		if c08Bits(db) < c08Bits(sb) || (sb.Info()&types.IsUnsigned == 0) != (db.Info()&types.IsUnsigned == 0) && c08Bits(db) <= c08Bits(sb) {
			return true
		}
		return c08HasNarrowing(x.X, fr, d+1)
	case *ssa.ChangeType:
		return c08HasNarrowing(x.X, fr, d+1)
	case *ssa.BinOp:
		if x.Op == token.ADD || x.Op == token.SUB {
			return c08HasNarrowing(x.X, fr, d+1) || c08HasNarrowing(x.Y, fr, d+1)
		}
		return false
	case *ssa.Call:
		// a running-offset helper evaluated symbolically (codec/cells.go): its body
		// must not narrow either
		if _, isB := x.Common().Value.(*ssa.Builtin); isB {
			return false
		}
		var f *ssa.Function
		if mc, ok := x.Common().Value.(*ssa.MakeClosure); ok {
			f, _ = mc.Fn.(*ssa.Function)
		} else {
			f = x.Common().StaticCallee()
		}
		if f == nil || f.Blocks == nil {
			return false
		}
		for _, b := range f.Blocks {
			for _, in := range b.Instrs {
				if cv, ok := in.(*ssa.Convert); ok {
					sb, ok1 := cv.X.Type().Underlying().(*types.Basic)
					db, ok2 := cv.Type().Underlying().(*types.Basic)
					if !ok1 || !ok2 || sb.Info()&types.IsInteger == 0 || db.Info()&types.IsInteger == 0 {
						continue
					}
					if c08Bits(db) < c08Bits(sb) || (sb.Info()&types.IsUnsigned == 0) != (db.Info()&types.IsUnsigned == 0) && c08Bits(db) <= c08Bits(sb) {
						return true
					}
				}
			}
		}
		return false
	case *ssa.Phi, *ssa.Parameter, *ssa.UnOp, *ssa.Field, *ssa.Index:
		if e, ef := codec.Resolve(v, fr); e != v {
			return c08HasNarrowing(e, ef, d+1)
		}
		// an element of an integer table (evaluated per iteration by codec/cells.go):
		// none of the values stored into the table may narrow
		if u, ok := v.(*ssa.UnOp); ok && u.Op == token.MUL {
			if ia, ok := u.X.(*ssa.IndexAddr); ok && ia.X.Referrers() != nil {
				for _, r := range *ia.X.Referrers() {
					ia2, ok := r.(*ssa.IndexAddr)
					if !ok || ia2.Referrers() == nil {
						continue
					}
					for _, rr := range *ia2.Referrers() {
						if st, ok := rr.(*ssa.Store); ok && st.Addr == ssa.Value(ia2) && c08ExprNarrows(st.Val, map[ssa.Value]bool{}, 0) {
							return true
						}
					}
				}
			}
		}
	}
	return false
}

// c08ExprNarrows: the integer expression v (through + − and every φ edge)
// contains a narrowing or sign-changing conversion.
func c08ExprNarrows(v ssa.Value, seen map[ssa.Value]bool, d int) bool {
	if seen[v] {
		return false
	}
	seen[v] = true
	if d > 64 {
		return true
	}
	switch x := v.(type) {
	case *ssa.Convert:
		sb, ok1 := x.X.Type().Underlying().(*types.Basic)
		db, ok2 := x.Type().Underlying().(*types.Basic)
		if !ok1 || !ok2 || sb.Info()&types.IsInteger == 0 || db.Info()&types.IsInteger == 0 {
			return true
		}
		if c08Bits(db) < c08Bits(sb) || (sb.Info()&types.IsUnsigned == 0) != (db.Info()&types.IsUnsigned == 0) && c08Bits(db) <= c08Bits(sb) {
			return true
		}
		return c08ExprNarrows(x.X, seen, d+1)
	case *ssa.ChangeType:
		return c08ExprNarrows(x.X, seen, d+1)
	case *ssa.BinOp:
		return c08ExprNarrows(x.X, seen, d+1) || c08ExprNarrows(x.Y, seen, d+1)
	case *ssa.Phi:
		for _, e := range x.Edges {
			if c08ExprNarrows(e, seen, d+1) {
				return true
			}
		}
	}
	return false
}

// versionPiece: the 8 bytes at the Version offset come from version.Version.Marshal
// (or are the 8 zero bytes MS-NLMP prescribes when VERSION is not negotiated).
func (c *c08) versionPiece(name string, p *codec.Piece) {
	construct := name + ": Version"
	marshal := c.P.Func(c08Version, "Version", "Marshal")
	var ok func(q *codec.Piece) bool
	ok = func(q *codec.Piece) bool {
		if (q.Kind == "nested" && marshal != nil && q.Callee == marshal) || q.Kind == "zero" {
			return true
		}
		// a wrapper whose whole result is the marshalled version
		return q.Kind == "nested" && len(q.Inner) == 1 && q.Inner[0].Width == q.Width && ok(q.Inner[0])
	}
	// opaque: content that was not read off (as opposed to content seen to be something else)
	var opaque func(q *codec.Piece) bool
	opaque = func(q *codec.Piece) bool {
		switch q.Kind {
		case "bytes", "global":
			return q.Const == nil
		case "nested":
			for _, in := range q.Inner {
				if opaque(in) {
					return true
				}
			}
			return len(q.Inner) == 0
		case "alt":
			for _, a := range q.Alts {
				for _, in := range a.Pieces {
					if opaque(in) {
						return true
					}
				}
			}
		}
		return false
	}
	switch {
	case p.Kind == "alt":
		for _, a := range p.Alts {
			if len(a.Pieces) == 1 && !ok(a.Pieces[0]) && opaque(a.Pieces[0]) {
				c.notDecided("R1.field", construct, c.ipos(p.At), "one alternative of the 8 version bytes is "+codec.RenderPieces(a.Pieces)+", whose content is not read off")
				return
			}
			if len(a.Pieces) != 1 || !ok(a.Pieces[0]) {
				c.R.Fail("R1.field", construct, c.ipos(p.At), "one alternative of the 8 version bytes is "+codec.RenderPieces(a.Pieces)+", expected version.Version.Marshal() or 8 zero bytes")
				return
			}
		}
		c.R.OK("R1.field", construct, c.ipos(p.At), "8 bytes: "+p.String())
	case ok(p):
		c.R.OK("R1.field", construct, c.ipos(p.At), "8 bytes: "+p.String())
	case opaque(p):
		c.notDecided("R1.field", construct, c.ipos(p.At), "the 8 version bytes are "+p.String()+", whose content is not read off")
	default:
		c.R.Fail("R1.field", construct, c.ipos(p.At), "the 8 version bytes are "+p.String()+", expected version.Version.Marshal() or 8 zero bytes")
	}
}

// versionLayout: VERSION (MS-NLMP 2.2.2.10) in both directions.
func (c *c08) versionLayout() {
	const rule = "R1.version-layout"
	type atom struct {
		field string
		off   int
		width int
		order string
	}
	spec := []atom{{"ProductMajorVersion", 0, 1, ""}, {"ProductMinorVersion", 1, 1, ""}, {"ProductBuild", 2, 2, "LE"}, {"Reserved", 4, 3, ""}, {"NTLMRevision", 7, 1, ""}}
	// encoder
	{
		construct := c08Version + ".Version.Marshal"
		fn := c.P.Func(c08Version, "Version", "Marshal")
		if fn == nil {
			c.R.Undecided(rule, construct, "-", "anchor function not found")
		} else {
			c.guard(rule, construct, c.pos(fn.Pos()), func() {
				st := codec.NewStreamer(fn, c.P.InModule)
				rets := st.Returns()
				if len(rets) != 1 {
					c.notDecided(rule, construct, c.pos(fn.Pos()), fmt.Sprintf("%d success returns; the layout is read off exactly one", len(rets)))
					return
				}
				ps := c08MergeBytePieces(st.Stream(rets[0]), fn)
				off := 0
				i := 0
				for _, p := range ps {
					if p.Kind == "unknown" || p.Width < 0 {
						c.notDecided(rule, construct, c.ipos(p.At), "layout not readable: "+codec.RenderPieces(ps)+" "+p.Why)
						return
					}
					if i >= len(spec) {
						break
					}
					a := spec[i]
					f := c08FieldOfValue(p, fn)
					if f == "" && p.Kind != "zero" && p.Kind != "const" {
						c.notDecided(rule, construct, c.ipos(p.At), fmt.Sprintf("offset %d holds %s, a value not traced to a field of the receiver", off, p.String()))
						return
					}
					if off != a.off || p.Width != a.width || f != a.field || (a.order != "" && p.Order != a.order) {
						c.R.Fail(rule, construct, c.ipos(p.At), fmt.Sprintf("offset %d holds %s of field %q; VERSION has %s (%d bytes %s) at %d", off, p.String(), f, a.field, a.width, a.order, a.off))
						return
					}
					off += p.Width
					i++
				}
				if w, _ := codec.ConstWidth(ps); i != len(spec) || w != 8 {
					c.R.Fail(rule, construct, c.pos(fn.Pos()), fmt.Sprintf("VERSION is 8 bytes / 5 fields; Marshal emits %s", codec.RenderPieces(ps)))
					return
				}
				c.R.OK(rule, construct, c.pos(fn.Pos()), codec.RenderPieces(ps))
			})
		}
	}
	// decoder
	{
		construct := c08Version + ".Version.Unmarshal"
		fn := c.P.Func(c08Version, "Version", "Unmarshal")
		if fn == nil {
			c.R.Undecided(rule, construct, "-", "anchor function not found")
			return
		}
		c.guard(rule, construct, c.pos(fn.Pos()), func() {
			e := codec.NewExt(c.w, fn)
			atoms := e.Decoded()
			if len(atoms) < len(spec) && len(fn.Params) >= 2 {
				// fewer fields than VERSION has: positively incomplete only if neither the
				// receiver nor the input is handed to code that was not followed
				why := c.flowsOut(fn.Params[0], c08FlowOpts{})
				if why == "" {
					why = c.flowsOut(fn.Params[1], c08FlowOpts{})
				}
				if why != "" {
					c.notDecided(rule, construct, c.pos(fn.Pos()), "decoder fills "+codec.Render(atoms)+" directly, and "+why)
					return
				}
			}
			if len(atoms) != len(spec) {
				c.R.Fail(rule, construct, c.pos(fn.Pos()), "decoder fills "+codec.Render(atoms)+"; VERSION has 5 fields")
				return
			}
			seen := map[string]bool{}
			for _, a := range atoms {
				var sp *atom
				for i := range spec {
					if spec[i].field == a.Field {
						sp = &spec[i]
					}
				}
				off := int64(-1)
				if a.OffForm != nil {
					off, _ = c08FormConst(*a.OffForm)
				}
				if sp == nil || seen[a.Field] || off != int64(sp.off) || a.Width != sp.width || (sp.order != "" && a.Order != sp.order) || a.Cond {
					c.R.Fail(rule, construct, c.pos(a.Pos), "decoder atom "+a.String()+" does not match the VERSION layout")
					return
				}
				seen[a.Field] = true
			}
			c.R.OK(rule, construct, c.pos(fn.Pos()), codec.Render(atoms))
		})
	}
}

// c08FieldOfValue names the receiver field a piece's value is loaded from
// (value receivers are spilled to a local by go/ssa; pointer receivers load
// through the parameter).
func c08FieldOfValue(p *codec.Piece, fn *ssa.Function) string {
	v := p.Val
	if p.Kind == "bytes" {
		v = p.Src
	}
	if v == nil {
		return ""
	}
	v = c08Strip(v)
	var addr ssa.Value
	switch x := v.(type) {
	case *ssa.UnOp:
		if x.Op == token.MUL {
			addr = x.X
		}
	case *ssa.Slice:
		addr = x.X
	case *ssa.FieldAddr:
		addr = x
	}
	fa, ok := addr.(*ssa.FieldAddr)
	if !ok {
		return ""
	}
	if !c08IsReceiver(fa.X, fn) {
		return ""
	}
	st, ok := c08Deref(fa.X.Type()).Underlying().(*types.Struct)
	if !ok {
		return ""
	}
	return st.Field(fa.Field).Name()
}

func c08Deref(t types.Type) types.Type {
	if p, ok := t.Underlying().(*types.Pointer); ok {
		return p.Elem()
	}
	return t
}

// c08IsReceiver: v is the receiver parameter or the local it is spilled to.
func c08IsReceiver(v ssa.Value, fn *ssa.Function) bool {
	if len(fn.Params) == 0 || fn.Signature.Recv() == nil {
		return false
	}
	if v == ssa.Value(fn.Params[0]) {
		return true
	}
	al, ok := v.(*ssa.Alloc)
	if !ok || al.Referrers() == nil {
		return false
	}
	n := 0
	isRecv := false
	for _, r := range *al.Referrers() {
		if st, ok := r.(*ssa.Store); ok && st.Addr == ssa.Value(al) {
			n++
			isRecv = st.Val == ssa.Value(fn.Params[0])
		}
	}
	return n == 1 && isRecv
}

// c08MergeBytePieces: single bytes written one by one are read as the field they
// come from — byte(f), byte(f>>8) … in rising or falling lane order is the
// integer f little- or big-endian; f[0], f[1], … f[n-1] of a byte-array field is
// that field's n bytes.
func c08MergeBytePieces(ps []*codec.Piece, fn *ssa.Function) []*codec.Piece {
	fieldOf := func(v ssa.Value) string { return c08FieldOfValue(&codec.Piece{Kind: "byte", Val: v}, fn) }
	elem := func(p *codec.Piece) (fa *ssa.FieldAddr, idx int64, ok bool) {
		if p.Kind != "byte" || p.Val == nil {
			return nil, 0, false
		}
		ld, isLd := c08Strip(p.Val).(*ssa.UnOp)
		if !isLd || ld.Op != token.MUL {
			return nil, 0, false
		}
		ia, isIA := ld.X.(*ssa.IndexAddr)
		if !isIA {
			return nil, 0, false
		}
		f, isFA := ia.X.(*ssa.FieldAddr)
		k, isK := ia.Index.(*ssa.Const)
		if !isFA || !isK || k.Value == nil || !c08IsReceiver(f.X, fn) {
			return nil, 0, false
		}
		n, exact := constant.Int64Val(k.Value)
		return f, n, exact
	}
	var out []*codec.Piece
	for i := 0; i < len(ps); {
		p := ps[i]
		if p.Kind == "byte" && p.Val != nil {
			if src, lane, n, ok := codec.ByteLane(p.Val); ok && n >= 2 && i+n <= len(ps) && fieldOf(src) != "" && (lane == 0 || lane == n-1) {
				f := fieldOf(src)
				asc := lane == 0
				good := true
				for j := 1; j < n; j++ {
					q := ps[i+j]
					if q.Kind != "byte" || q.Val == nil {
						good = false
						break
					}
					s2, l2, n2, ok2 := codec.ByteLane(q.Val)
					want := j
					if !asc {
						want = n - 1 - j
					}
					if !ok2 || n2 != n || l2 != want || fieldOf(s2) != f {
						good = false
						break
					}
				}
				if good {
					order := "LE"
					if !asc {
						order = "BE"
					}
					out = append(out, &codec.Piece{Kind: "int", Width: n, Order: order, Val: src, At: p.At})
					i += n
					continue
				}
			}
			if fa, idx, ok := elem(p); ok && idx == 0 {
				if arr, isArr := c08Deref(fa.Type()).Underlying().(*types.Array); isArr && i+int(arr.Len()) <= len(ps) {
					n := int(arr.Len())
					good := true
					for j := 1; j < n; j++ {
						f2, k2, ok2 := elem(ps[i+j])
						if !ok2 || k2 != int64(j) || f2.X != fa.X || f2.Field != fa.Field {
							good = false
							break
						}
					}
					if good {
						// stand-in: a load of the whole array field, which c08FieldOfValue resolves
						out = append(out, &codec.Piece{Kind: "bytes", Width: n, Src: fa, At: p.At})
						i += n
						continue
					}
				}
			}
		}
		out = append(out, p)
		i++
	}
	return out
}
