package rules

import (
	"fmt"
	"go/token"
	"go/types"
	"strings"

	"golang.org/x/tools/go/ssa"
)

// C17 extension `owner-gate` (added after an independently seeded change was
// missed): a structural necessary condition of "a name can be released or
// refreshed only by an address that owns it". In every method of the name
// server that takes an owner address and does not itself insert records
// (ReleaseName, RefreshName …), every mutation of the table — delete, map
// update, store to a record field — must be control-dependent on a positive
// ownership test: the true outcome of owner.Equal(x) / x.Equal(owner) /
// bytes.Equal with the owner parameter, directly or through a boolean that is
// true only under such an outcome.

func init() {
	ck := registry["C17"]
	if ck == nil {
		return
	}
	orig := ck.Run
	ck.Run = func(c *Ctx) {
		orig(c)
		c17OwnerGate(c)
		c.R.Explanation += " Extension `owner-gate`: in the methods that take an owner address and do not insert records, every mutation of the table is control-dependent on a positive comparison of a stored owner with that address (a necessary condition of release/refresh-by-owner-only; the full conflict matrix remains undecided)."
	}
}

func isIPType(t types.Type) bool {
	return types.TypeString(t, nil) == "net.IP"
}

// ownerTrue: "v is true only if an ownership comparison with `owner` succeeded".
func ownerTrue(v ssa.Value, owner *ssa.Parameter, seen map[ssa.Value]bool) bool {
	if seen[v] {
		return true // optimistic on cycles of φ: a loop-carried flag
	}
	seen[v] = true
	switch x := v.(type) {
	case *ssa.Call:
		f := x.Common().StaticCallee()
		if f == nil {
			return false
		}
		n := f.String()
		if n == "(net.IP).Equal" || n == "bytes.Equal" {
			for _, a := range x.Common().Args {
				if derivesFromParam(a, owner, 0) {
					return true
				}
			}
		}
	case *ssa.Phi:
		for i, e := range x.Edges {
			if k, ok := e.(*ssa.Const); ok && k.Value != nil {
				if k.Value.ExactString() == "false" {
					continue
				}
				// constant true: the incoming edge must itself be owner-gated
				if blockOwnerGated(x.Block().Preds[i], owner) {
					continue
				}
				return false
			}
			if !ownerTrue(e, owner, seen) {
				return false
			}
		}
		return true
	case *ssa.BinOp:
		if x.Op == token.LAND {
			return ownerTrue(x.X, owner, seen) || ownerTrue(x.Y, owner, seen)
		}
	}
	return false
}

func derivesFromParam(v ssa.Value, prm *ssa.Parameter, d int) bool {
	if d > 4 {
		return false
	}
	if v == ssa.Value(prm) {
		return true
	}
	switch x := v.(type) {
	case *ssa.ChangeType:
		return derivesFromParam(x.X, prm, d+1)
	case *ssa.Convert:
		return derivesFromParam(x.X, prm, d+1)
	case *ssa.Slice:
		return derivesFromParam(x.X, prm, d+1)
	case *ssa.Call:
		// owner.To4(), owner.To16()
		if f := x.Common().StaticCallee(); f != nil && strings.HasPrefix(f.String(), "(net.IP).To") {
			return derivesFromParam(x.Common().Args[0], prm, d+1)
		}
	}
	return false
}

// blockOwnerGated: some dominating branch edge into b establishes ownership.
func blockOwnerGated(b *ssa.BasicBlock, owner *ssa.Parameter) bool {
	for x := b; x != nil; x = x.Idom() {
		d := x.Idom()
		if d == nil {
			break
		}
		if len(x.Preds) != 1 || x.Preds[0] != d {
			continue
		}
		iff, ok := d.Instrs[len(d.Instrs)-1].(*ssa.If)
		if !ok {
			continue
		}
		onTrue := d.Succs[0] == x
		cond := iff.Cond
		neg := false
		for {
			if u, isNot := cond.(*ssa.UnOp); isNot && u.Op == token.NOT {
				neg = !neg
				cond = u.X
				continue
			}
			// x == false / x != true / x == true / x != false
			if bo, isB := cond.(*ssa.BinOp); isB && (bo.Op == token.EQL || bo.Op == token.NEQ) {
				other, k := bo.X, bo.Y
				if _, isK := k.(*ssa.Const); !isK {
					other, k = bo.Y, bo.X
				}
				if kc, isK := k.(*ssa.Const); isK && kc.Value != nil && (kc.Value.ExactString() == "true" || kc.Value.ExactString() == "false") {
					if (kc.Value.ExactString() == "false") == (bo.Op == token.EQL) {
						neg = !neg
					}
					cond = other
					continue
				}
			}
			break
		}
		if onTrue != neg && ownerTrue(cond, owner, map[ssa.Value]bool{}) {
			return true
		}
	}
	return false
}

func c17OwnerGate(c *Ctx) {
	p, r := c.P, c.R
	const rel = "network/netbios/nbtns"
	pk := p.Pkg(rel)
	if pk == nil {
		r.Undecided("owner-gate", "package", "", rel+" not found")
		return
	}
	tn, _ := pk.Types.Scope().Lookup("NetBIOSNameServer").(*types.TypeName)
	if tn == nil {
		r.Undecided("owner-gate", "NetBIOSNameServer", "", "type not found")
		return
	}
	ms := types.NewMethodSet(types.NewPointer(tn.Type()))
	nMethods := 0
	for i := 0; i < ms.Len(); i++ {
		fn := p.Func(rel, "NetBIOSNameServer", ms.At(i).Obj().Name())
		if fn == nil || fn.Blocks == nil {
			continue
		}
		var owner *ssa.Parameter
		for _, prm := range fn.Params[1:] {
			if isIPType(prm.Type()) {
				owner = prm
			}
		}
		if owner == nil {
			continue
		}
		// methods that insert records are registration, governed by the conflict matrix (not decided)
		inserts := false
		type mut struct {
			in   ssa.Instruction
			what string
		}
		var muts []mut
		for _, b := range fn.Blocks {
			for _, in := range b.Instrs {
				switch x := in.(type) {
				case *ssa.MapUpdate:
					inserts = true
					muts = append(muts, mut{x, "map update"})
				case *ssa.Store:
					if fa, ok := x.Addr.(*ssa.FieldAddr); ok {
						if nt, ok := derefType(fa.X.Type()).(*types.Named); ok && nt.Obj().Name() == "NameRecord" {
							st := nt.Underlying().(*types.Struct)
							muts = append(muts, mut{x, "store NameRecord." + st.Field(fa.Field).Name()})
						}
					}
				case *ssa.Call:
					if bi, ok := x.Call.Value.(*ssa.Builtin); ok && bi.Name() == "delete" {
						muts = append(muts, mut{x, "delete(names, …)"})
					}
				}
			}
		}
		if inserts {
			continue
		}
		nMethods++
		fname := p.FuncName(fn)
		ord := map[string]int{}
		for _, m := range muts {
			ord[m.what]++
			key := fmt.Sprintf("%s: %s #%d", fname, m.what, ord[m.what])
			if blockOwnerGated(m.in.Block(), owner) {
				r.OK("owner-gate", key, p.Rel(m.in.Pos()), "dominated by the positive outcome of an ownership comparison with "+owner.Name())
			} else {
				r.Fail("owner-gate", key, p.Rel(m.in.Pos()), "the table is modified on a path that never compared a stored owner with "+owner.Name()+": an address that does not own the name can change or remove it")
			}
		}
	}
	r.Floor("owner-gate", 4)
	r.Extra["owner_gated_methods"] = nMethods
}
