package rules

import (
	"fmt"
	"go/constant"
	"go/token"
	"go/types"
	"sort"
	"strings"

	"golang.org/x/tools/go/ssa"
)

// C17 extension `owner-gate` (added after an independently seeded change was
// missed): a structural necessary condition of "a name can be released or
// refreshed only by an address that owns it". From every method of the name
// server that takes an owner address and does not insert records
// (ReleaseName, RefreshName …), every mutation of the table that the method
// can reach — delete, map update, store to a record field or into the owners
// array, clear, maps.DeleteFunc; in its own body, in its function literals and
// in the unexported same-package helpers it calls (three levels) — must be
// control-dependent on a positive ownership test.
//
// What counts as an ownership test (all decided on go/ssa, no names of locals):
//
//   - the true outcome of owner.Equal(x) / x.Equal(owner), or of
//     bytes.Equal(x.To16(), owner.To16()); a raw bytes.Equal on net.IP values is
//     NOT one (the 4-byte and the 16-byte form of one address differ);
//   - a boolean that is true only under such an outcome: φ of flags, a && b, the
//     result of an in-module helper or function literal (hasOwner(owners, owner),
//     record.HasOwner(owner)) all of whose `return true` are themselves gated,
//     slices.ContainsFunc(owners, func(ip) bool { return ip.Equal(owner) });
//   - an index that is non-negative only under such an outcome:
//     slices.IndexFunc(owners, pred-with-owner), an in-module indexOf helper, or
//     an `idx := -1 … idx = i` accumulator — compared with a constant so that
//     the taken edge excludes every "not found" value (i < 0 / i >= 0 / i == -1 …).
//
// "owner" is the method's net.IP parameter, followed through the heap cell the
// SSA builder makes when a function literal captures it, conversions, To4/To16,
// and into helpers through the argument position it is passed in.
//
// The gate may be established where the mutation is, or at the call site /
// literal-creation site that leads to it (a helper that only removes, called
// after the caller verified ownership).

func init() {
	ck := registry["C17"]
	if ck == nil {
		return
	}
	orig := ck.Run
	ck.Run = func(c *Ctx) {
		orig(c)
		c17OwnerGate(c)
		c.R.Explanation += " Extension `owner-gate`: from the methods that take an owner address and do not insert records, every mutation of the table reached in the method, its function literals and its same-package helpers is control-dependent on a positive comparison of a stored owner with that address — directly, through a boolean/index helper or literal that is positive only under such a comparison (hasOwner, slices.IndexFunc/ContainsFunc), or at the call site leading to the mutation (a necessary condition of release/refresh-by-owner-only; the full conflict matrix remains undecided)."
	}
}

func isIPType(t types.Type) bool {
	return types.TypeString(t, nil) == "net.IP"
}

// c17CalleeName renders a static callee independent of generic instantiation:
// "slices.IndexFunc", "bytes.Equal", "(net.IP).Equal".
func c17CalleeName(f *ssa.Function) string {
	if f == nil {
		return ""
	}
	if o := f.Origin(); o != nil {
		f = o
	}
	obj := f.Object()
	if obj == nil || obj.Pkg() == nil {
		return f.String()
	}
	if sig, ok := obj.Type().(*types.Signature); ok && sig.Recv() != nil {
		return f.String()
	}
	return obj.Pkg().Path() + "." + obj.Name()
}

// ---------------------------------------------------------------------------
// the owner value inside one declared function and its literals

// c17Unit is a declared function together with its nested function literals.
type c17Unit struct {
	top    *ssa.Function
	fns    []*ssa.Function
	in     map[*ssa.Function]bool
	fvBind map[*ssa.FreeVar]ssa.Value
	stores map[ssa.Value][]*ssa.Store // cell (Alloc) → stores into it from anywhere in the unit
}

func c17TopOf(f *ssa.Function) *ssa.Function {
	for f.Parent() != nil {
		f = f.Parent()
	}
	return f
}

var c17Units = map[*ssa.Function]*c17Unit{}

func c17UnitOf(f *ssa.Function) *c17Unit {
	top := c17TopOf(f)
	if u := c17Units[top]; u != nil {
		return u
	}
	u := &c17Unit{top: top, in: map[*ssa.Function]bool{}, fvBind: map[*ssa.FreeVar]ssa.Value{}, stores: map[ssa.Value][]*ssa.Store{}}
	u.fns = withClosures(top)
	for _, g := range u.fns {
		u.in[g] = true
	}
	for _, g := range u.fns {
		for _, b := range g.Blocks {
			for _, in := range b.Instrs {
				if mc, ok := in.(*ssa.MakeClosure); ok {
					if cf, ok := mc.Fn.(*ssa.Function); ok {
						for i, fv := range cf.FreeVars {
							if i < len(mc.Bindings) {
								u.fvBind[fv] = mc.Bindings[i]
							}
						}
					}
				}
			}
		}
	}
	for _, g := range u.fns {
		for _, b := range g.Blocks {
			for _, in := range b.Instrs {
				if st, ok := in.(*ssa.Store); ok {
					base := u.resolve(st.Addr)
					if _, isAlloc := base.(*ssa.Alloc); isAlloc {
						u.stores[base] = append(u.stores[base], st)
					}
				}
			}
		}
	}
	c17Units[top] = u
	return u
}

func (u *c17Unit) resolve(v ssa.Value) ssa.Value {
	for i := 0; i < 8; i++ {
		fv, ok := v.(*ssa.FreeVar)
		if !ok {
			return v
		}
		b, ok := u.fvBind[fv]
		if !ok {
			return v
		}
		v = b
	}
	return v
}

// c17Own: which SSA values of a unit denote the owner address.
type c17Own struct {
	u     *c17Unit
	vals  map[ssa.Value]bool // values that are the owner address (parameter, by-value captures)
	cells map[ssa.Value]bool // heap cells (captured variables) that only ever hold the owner address
	// preds: function-valued parameters that are bound, at the call site analysed, to a
	// predicate which is true only for the owner (owner.Equal, func(ip) bool { return
	// ip.Equal(owner) }): calling one is an ownership test (removeFirst(owners, owner.Equal))
	preds map[ssa.Value]bool
}

// c17NewOwn seeds the owner set with parameters of the unit's top function (or
// of one of its literals) and closes it over captured-variable cells.
func c17NewOwn(f *ssa.Function, seeds []ssa.Value) *c17Own {
	o := &c17Own{u: c17UnitOf(f), vals: map[ssa.Value]bool{}, cells: map[ssa.Value]bool{}}
	for _, s := range seeds {
		o.vals[s] = true
	}
	for changed := true; changed; {
		changed = false
		for cell, sts := range o.u.stores {
			if o.cells[cell] || len(sts) == 0 || !isIPType(derefType(cell.Type())) {
				continue
			}
			all := true
			for _, st := range sts {
				if !o.derives(st.Val, 0) {
					all = false
				}
			}
			if all {
				o.cells[cell] = true
				changed = true
			}
		}
	}
	return o
}

func (o *c17Own) derives(v ssa.Value, d int) bool {
	if d > 6 {
		return false
	}
	v = o.u.resolve(v)
	if o.vals[v] {
		return true
	}
	switch x := v.(type) {
	case *ssa.UnOp:
		if x.Op == token.MUL {
			return o.cells[o.u.resolve(x.X)]
		}
	case *ssa.ChangeType:
		return o.derives(x.X, d+1)
	case *ssa.Convert:
		return o.derives(x.X, d+1)
	case *ssa.Slice:
		return o.derives(x.X, d+1)
	case *ssa.Call:
		// owner.To4(), owner.To16()
		if n := c17CalleeName(x.Common().StaticCallee()); n == "(net.IP).To4" || n == "(net.IP).To16" {
			return o.derives(x.Common().Args[0], d+1)
		}
	case *ssa.Phi:
		// if v4 := owner.To4(); v4 != nil { owner = v4 }
		if d > 2 {
			return false
		}
		for _, e := range x.Edges {
			if e == ssa.Value(x) {
				continue
			}
			if !o.derives(e, d+1) {
				return false
			}
		}
		return len(x.Edges) > 0
	}
	return false
}

// forCallee maps the owner into a declared in-module callee through the
// argument positions it is passed in; nil when the callee does not receive it.
func (o *c17Own) forCallee(c *ssa.CallCommon, callee *ssa.Function) *c17Own {
	if o.u.in[callee] {
		return o // a literal of this unit: same captured variables
	}
	var seeds []ssa.Value
	for k, a := range c.Args {
		if k < len(callee.Params) && isIPType(a.Type()) && o.derives(a, 0) {
			seeds = append(seeds, callee.Params[k])
		}
	}
	if len(seeds) == 0 {
		return nil
	}
	return c17NewOwn(callee, seeds)
}

// ---------------------------------------------------------------------------
// positive ownership tests

type c17OwnerTest struct {
	p interface{ InModule(*ssa.Function) bool }
	// unread: places where the decision may depend on the owner through code the test does
	// not model (a call through a function value that is not a known owner predicate, a
	// helper chain beyond the depth bound). While non-empty, "never compared" is not a
	// positive observation.
	unread []string
}

func (t *c17OwnerTest) noteUnread(f string, a ...any) {
	if len(t.unread) < 8 {
		t.unread = append(t.unread, fmt.Sprintf(f, a...))
	}
}

// forCallee maps the owner AND owner predicates into a declared callee.
func (t *c17OwnerTest) forCallee(o *c17Own, cc *ssa.CallCommon, callee *ssa.Function, depth int) *c17Own {
	if o == nil {
		return nil
	}
	co := o.forCallee(cc, callee)
	if co == o {
		return co
	}
	for k, a := range cc.Args {
		if k >= len(callee.Params) {
			break
		}
		if _, isFn := a.Type().Underlying().(*types.Signature); !isFn {
			continue
		}
		isPred := o.preds[o.u.resolve(a)] || t.predOwnerTrue(a, o, depth)
		if !isPred {
			continue
		}
		if co == nil {
			co = c17NewOwn(callee, nil)
		}
		if co.preds == nil {
			co.preds = map[ssa.Value]bool{}
		}
		co.preds[callee.Params[k]] = true
	}
	return co
}

const c17HelperDepth = 3

func c17BoolConst(v ssa.Value) (val, ok bool) {
	k, isK := v.(*ssa.Const)
	if !isK || k.Value == nil || k.Value.Kind() != constant.Bool {
		return false, false
	}
	return constant.BoolVal(k.Value), true
}

func c17IntConst(v ssa.Value) (int64, bool) {
	k, isK := v.(*ssa.Const)
	if !isK || k.Value == nil {
		return 0, false
	}
	iv := constant.ToInt(k.Value)
	if iv.Kind() != constant.Int {
		return 0, false
	}
	n, exact := constant.Int64Val(iv)
	return n, exact
}

// callTarget resolves the callee of a call and the result index a value selects.
func c17CallOf(v ssa.Value) (*ssa.Call, int) {
	switch x := v.(type) {
	case *ssa.Call:
		return x, 0
	case *ssa.Extract:
		if c, ok := x.Tuple.(*ssa.Call); ok {
			return c, x.Index
		}
	}
	return nil, 0
}

func (t *c17OwnerTest) declared(f *ssa.Function) bool {
	return f != nil && f.Blocks != nil && t.p.InModule(f)
}

// predOwnerTrue: the predicate passed as argument v (to slices.IndexFunc /
// ContainsFunc) is true only under a positive ownership test: a function
// literal of this unit, or the bound method value owner.Equal.
func (t *c17OwnerTest) predOwnerTrue(v ssa.Value, o *c17Own, depth int) bool {
	mc, ok := o.u.resolve(v).(*ssa.MakeClosure)
	if !ok {
		return false
	}
	pf, ok := mc.Fn.(*ssa.Function)
	if !ok {
		return false
	}
	if pf.Synthetic != "" {
		// owner.Equal as a method value: a bound-method wrapper of (net.IP).Equal closed over the owner
		if strings.HasPrefix(pf.Synthetic, "bound method wrapper") && strings.HasPrefix(pf.String(), "(net.IP).Equal") && len(mc.Bindings) == 1 {
			return o.derives(mc.Bindings[0], 0)
		}
		return false
	}
	if !o.u.in[pf] || pf.Blocks == nil || depth >= c17HelperDepth {
		return false
	}
	return t.returnsOwnerTrue(pf, 0, o, depth+1)
}

// ownerTrue: "v is true only if an ownership comparison with the owner succeeded".
func (t *c17OwnerTest) ownerTrue(v ssa.Value, o *c17Own, seen map[ssa.Value]bool, depth int) bool {
	if o == nil {
		return false
	}
	if seen[v] {
		return true // optimistic on cycles of φ: a loop-carried flag
	}
	seen[v] = true
	switch x := v.(type) {
	case *ssa.Phi:
		for i, e := range x.Edges {
			if val, isK := c17BoolConst(e); isK && !val {
				continue
			}
			// a value arriving over an owner-gated edge may be anything
			if t.blockGated(x.Block().Preds[i], o, depth) {
				continue
			}
			if _, isK := c17BoolConst(e); isK {
				return false
			}
			if !t.ownerTrue(e, o, seen, depth) {
				return false
			}
		}
		return true
	case *ssa.BinOp:
		if x.Op == token.LAND || x.Op == token.AND {
			return t.ownerTrue(x.X, o, seen, depth) || t.ownerTrue(x.Y, o, seen, depth)
		}
		return false
	}
	call, idx := c17CallOf(v)
	if call == nil {
		return false
	}
	cc := call.Common()
	f := cc.StaticCallee()
	if f == nil {
		if !cc.IsInvoke() {
			if o.preds[o.u.resolve(cc.Value)] {
				return true // match(v) with match bound to an owner predicate
			}
			if _, isB := cc.Value.(*ssa.Builtin); !isB {
				t.noteUnread("the result of a call through a function value decides a branch in %s", call.Parent().Name())
			}
		}
		return false
	}
	switch c17CalleeName(f) {
	case "(net.IP).Equal":
		for _, a := range cc.Args {
			if o.derives(a, 0) {
				return true
			}
		}
		return false
	case "bytes.Equal":
		// only on the canonical 16-byte forms of both addresses
		if len(cc.Args) != 2 {
			return false
		}
		own := false
		for _, a := range cc.Args {
			for {
				if ct, isCT := a.(*ssa.ChangeType); isCT {
					a = ct.X
				} else if cv, isCV := a.(*ssa.Convert); isCV {
					a = cv.X
				} else {
					break
				}
			}
			ac, ok := a.(*ssa.Call)
			if !ok || c17CalleeName(ac.Common().StaticCallee()) != "(net.IP).To16" {
				return false
			}
			if o.derives(ac.Common().Args[0], 0) {
				own = true
			}
		}
		return own
	case "slices.ContainsFunc":
		return len(cc.Args) == 2 && t.predOwnerTrue(cc.Args[1], o, depth)
	}
	if t.declared(f) && depth < c17HelperDepth {
		return t.returnsOwnerTrue(f, idx, t.forCallee(o, cc, f, depth), depth+1)
	}
	if t.declared(f) {
		t.noteUnread("helper chain deeper than %d calls at %s", c17HelperDepth, f.Name())
	}
	return false
}

// returnsOwnerTrue: result #idx of g is true only under a positive ownership test.
func (t *c17OwnerTest) returnsOwnerTrue(g *ssa.Function, idx int, o *c17Own, depth int) bool {
	if o == nil {
		return false
	}
	n := 0
	for _, b := range g.Blocks {
		ret, ok := b.Instrs[len(b.Instrs)-1].(*ssa.Return)
		if !ok {
			continue
		}
		if idx >= len(ret.Results) {
			return false
		}
		n++
		r := ret.Results[idx]
		if val, isK := c17BoolConst(r); isK && !val {
			continue
		}
		if t.blockGated(b, o, depth) {
			continue
		}
		if _, isK := c17BoolConst(r); isK {
			return false
		}
		if !t.ownerTrue(r, o, map[ssa.Value]bool{}, depth) {
			return false
		}
	}
	return n > 0
}

// ownerIndex: "v is non-negative only if an ownership comparison succeeded";
// negs are the values it takes otherwise.
func (t *c17OwnerTest) ownerIndex(v ssa.Value, o *c17Own, seen map[ssa.Value]bool, depth int) (negs map[int64]bool, ok bool) {
	if o == nil || seen[v] {
		return nil, seen[v]
	}
	seen[v] = true
	negs = map[int64]bool{}
	if b, isB := v.Type().Underlying().(*types.Basic); !isB || b.Info()&types.IsInteger == 0 {
		return nil, false
	}
	if phi, isPhi := v.(*ssa.Phi); isPhi {
		for i, e := range phi.Edges {
			if n, isK := c17IntConst(e); isK && n < 0 {
				negs[n] = true
				continue
			}
			if t.blockGated(phi.Block().Preds[i], o, depth) {
				continue
			}
			if _, isK := c17IntConst(e); isK {
				return nil, false
			}
			sub, ok := t.ownerIndex(e, o, seen, depth)
			if !ok {
				return nil, false
			}
			for n := range sub {
				negs[n] = true
			}
		}
		return negs, true
	}
	call, idx := c17CallOf(v)
	if call == nil {
		return nil, false
	}
	cc := call.Common()
	f := cc.StaticCallee()
	if f == nil || depth >= c17HelperDepth {
		return nil, false
	}
	if c17CalleeName(f) == "slices.IndexFunc" {
		if len(cc.Args) == 2 && idx == 0 && t.predOwnerTrue(cc.Args[1], o, depth) {
			return map[int64]bool{-1: true}, true
		}
		return nil, false
	}
	if !t.declared(f) {
		return nil, false
	}
	co := t.forCallee(o, cc, f, depth)
	if co == nil {
		return nil, false
	}
	nret := 0
	for _, b := range f.Blocks {
		ret, isRet := b.Instrs[len(b.Instrs)-1].(*ssa.Return)
		if !isRet {
			continue
		}
		if idx >= len(ret.Results) {
			return nil, false
		}
		nret++
		r := ret.Results[idx]
		if n, isK := c17IntConst(r); isK && n < 0 {
			negs[n] = true
			continue
		}
		if t.blockGated(b, co, depth+1) {
			continue
		}
		if _, isK := c17IntConst(r); isK {
			return nil, false
		}
		sub, ok := t.ownerIndex(r, co, map[ssa.Value]bool{}, depth+1)
		if !ok {
			return nil, false
		}
		for n := range sub {
			negs[n] = true
		}
	}
	return negs, nret > 0
}

// c17NormCond strips !x, x == false, x != true … ; neg reports an odd number of negations.
func c17NormCond(cond ssa.Value) (ssa.Value, bool) {
	neg := false
	for {
		if u, isNot := cond.(*ssa.UnOp); isNot && u.Op == token.NOT {
			neg = !neg
			cond = u.X
			continue
		}
		if bo, isB := cond.(*ssa.BinOp); isB && (bo.Op == token.EQL || bo.Op == token.NEQ) {
			other, k := bo.X, bo.Y
			if _, isK := c17BoolConst(k); !isK {
				other, k = bo.Y, bo.X
			}
			if kv, isK := c17BoolConst(k); isK {
				if !kv == (bo.Op == token.EQL) {
					neg = !neg
				}
				cond = other
				continue
			}
		}
		return cond, neg
	}
}

func c17CmpHolds(op token.Token, a, b int64) bool {
	switch op {
	case token.EQL:
		return a == b
	case token.NEQ:
		return a != b
	case token.LSS:
		return a < b
	case token.LEQ:
		return a <= b
	case token.GTR:
		return a > b
	case token.GEQ:
		return a >= b
	}
	return false
}

var c17Mirror = map[token.Token]token.Token{token.EQL: token.EQL, token.NEQ: token.NEQ, token.LSS: token.GTR, token.LEQ: token.GEQ, token.GTR: token.LSS, token.GEQ: token.LEQ}

// edgeEstablishes: taking the onTrue/false edge of `cond` proves ownership.
func (t *c17OwnerTest) edgeEstablishes(cond ssa.Value, onTrue bool, o *c17Own, depth int) bool {
	cond, neg := c17NormCond(cond)
	positive := onTrue != neg
	if positive && t.ownerTrue(cond, o, map[ssa.Value]bool{}, depth) {
		return true
	}
	bo, ok := cond.(*ssa.BinOp)
	if !ok {
		return false
	}
	if _, isCmp := c17Mirror[bo.Op]; !isCmp {
		return false
	}
	if t.lenChangedByOwnerFilter(bo, positive, o) {
		return true
	}
	x, kv := bo.X, bo.Y
	op := bo.Op
	if _, isK := c17IntConst(kv); !isK {
		x, kv = bo.Y, bo.X
		op = c17Mirror[bo.Op]
	}
	k, isK := c17IntConst(kv)
	if !isK {
		return false
	}
	negs, ok := t.ownerIndex(x, o, map[ssa.Value]bool{}, depth)
	if !ok {
		return false
	}
	// the edge is taken when (x op k) == positive; it must exclude every not-found value
	for n := range negs {
		if c17CmpHolds(op, n, k) == positive {
			return false
		}
	}
	return true
}

// lenChangedByOwnerFilter: the comparison relates len(record.Owners) before and after the one
// store `record.Owners = slices.DeleteFunc(record.Owners, owner-predicate)`, and the edge taken
// says the two differ: an entry equal to the requester was removed, so the requester was an owner.
func (t *c17OwnerTest) lenChangedByOwnerFilter(bo *ssa.BinOp, positive bool, o *c17Own) bool {
	differ := false
	switch bo.Op {
	case token.NEQ, token.LSS, token.GTR:
		differ = positive
	case token.EQL, token.GEQ, token.LEQ:
		differ = !positive
	}
	if !differ {
		return false
	}
	lenOf := func(v ssa.Value) (*ssa.UnOp, *ssa.FieldAddr) {
		call, ok := v.(*ssa.Call)
		if !ok {
			return nil, nil
		}
		if bi, isB := call.Call.Value.(*ssa.Builtin); !isB || bi.Name() != "len" || len(call.Call.Args) != 1 {
			return nil, nil
		}
		ld, ok := call.Call.Args[0].(*ssa.UnOp)
		if !ok || ld.Op != token.MUL {
			return nil, nil
		}
		fa, ok := ld.X.(*ssa.FieldAddr)
		if !ok {
			return nil, nil
		}
		if name, isRec := c17RecordField(fa); !isRec || name != "Owners" {
			return nil, nil
		}
		return ld, fa
	}
	l1, f1 := lenOf(bo.X)
	l2, f2 := lenOf(bo.Y)
	if l1 == nil || l2 == nil || f1.X != f2.X {
		return false
	}
	// exactly one store to that field in the function, an owner filter, between the two loads
	var stores []*ssa.Store
	for _, b := range bo.Parent().Blocks {
		for _, in := range b.Instrs {
			if st, ok := in.(*ssa.Store); ok {
				if fa, ok := st.Addr.(*ssa.FieldAddr); ok && fa.X == f1.X && fa.Field == f1.Field {
					stores = append(stores, st)
				}
			}
		}
	}
	if len(stores) != 1 || !t.storeIsOwnerFilter(stores[0], o) {
		return false
	}
	st := stores[0]
	before := func(a, b ssa.Instruction) bool {
		if a.Block() == b.Block() {
			for _, in := range a.Block().Instrs {
				if in == a {
					return true
				}
				if in == b {
					return false
				}
			}
		}
		return a.Block().Dominates(b.Block())
	}
	return (before(l1, st) && before(st, l2)) || (before(l2, st) && before(st, l1))
}

// blockGated: some dominating branch edge into b establishes ownership.
func (t *c17OwnerTest) blockGated(b *ssa.BasicBlock, o *c17Own, depth int) bool {
	if o == nil {
		return false
	}
	for x := b; x != nil; x = x.Idom() {
		d := x.Idom()
		if d == nil {
			break
		}
		if len(x.Preds) != 1 || x.Preds[0] != d {
			continue
		}
		iff, ok := d.Instrs[len(d.Instrs)-1].(*ssa.If)
		if !ok {
			continue
		}
		if d.Succs[0] == d.Succs[1] {
			continue
		}
		if t.edgeEstablishes(iff.Cond, d.Succs[0] == x, o, depth) {
			return true
		}
	}
	return false
}

// storeIsOwnerFilter: `record.Owners = slices.DeleteFunc(record.Owners, pred)` with a
// predicate that is true only for the owner: whatever the store changes, it only removes
// entries equal to the requester (and changes nothing when it is not a member).
func (t *c17OwnerTest) storeIsOwnerFilter(in ssa.Instruction, o *c17Own) bool {
	st, ok := in.(*ssa.Store)
	if !ok || o == nil {
		return false
	}
	fa, ok := st.Addr.(*ssa.FieldAddr)
	if !ok {
		return false
	}
	call, ok := st.Val.(*ssa.Call)
	if !ok || c17CalleeName(call.Call.StaticCallee()) != "slices.DeleteFunc" || len(call.Call.Args) != 2 {
		return false
	}
	ld, ok := call.Call.Args[0].(*ssa.UnOp)
	if !ok || ld.Op != token.MUL {
		return false
	}
	fa2, ok := ld.X.(*ssa.FieldAddr)
	if !ok || fa2.X != fa.X || fa2.Field != fa.Field {
		return false
	}
	return t.predOwnerTrue(call.Call.Args[1], o, 0)
}

// ---------------------------------------------------------------------------
// mutations of the table reached from an entry method

// c17Frame: one step of the way to a mutation — the block of the mutation itself,
// or of the call / literal creation that leads to it, with that function's context.
type c17Frame struct {
	fn  *ssa.Function
	b   *ssa.BasicBlock
	ctx any
}

type c17Reached struct {
	in     ssa.Instruction
	what   string
	via    string // helper chain, "" when in the entry's own body
	frames []c17Frame
}

type c17Walker struct {
	inModule  func(*ssa.Function) bool
	pkg       *ssa.Package
	calleeCtx func(cc *ssa.CallCommon, callee *ssa.Function, ctx any) any
	reached   map[*ssa.Function]bool
	muts      []c17Reached
	inserts   bool
	stack     map[*ssa.Function]bool
}

const c17WalkDepth = 3

func (w *c17Walker) walk(f *ssa.Function, ctx any, frames []c17Frame, via []string, depth int) {
	if f == nil || f.Blocks == nil || w.stack[f] {
		return
	}
	w.stack[f] = true
	defer delete(w.stack, f)
	w.reached[f] = true
	for _, b := range f.Blocks {
		here := append(append([]c17Frame{}, frames...), c17Frame{f, b, ctx})
		for _, in := range b.Instrs {
			if what, ok := c17IsMutation(in); ok {
				if _, isUpd := in.(*ssa.MapUpdate); isUpd {
					w.inserts = true
				}
				w.muts = append(w.muts, c17Reached{in: in, what: what, via: strings.Join(via, " → "), frames: here})
			}
			switch x := in.(type) {
			case *ssa.MakeClosure:
				if cf, ok := x.Fn.(*ssa.Function); ok {
					w.walk(cf, ctx, here, via, depth)
				}
			case ssa.CallInstruction:
				cc := x.Common()
				g := cc.StaticCallee()
				if g == nil || g.Blocks == nil || !w.inModule(g) || g.Parent() != nil {
					continue // literals are walked where they are created
				}
				if g.Pkg != w.pkg || depth >= c17WalkDepth {
					continue
				}
				w.walk(g, w.calleeCtx(cc, g, ctx), here, append(append([]string{}, via...), g.Name()), depth+1)
			}
		}
	}
}

func c17NewWalker(p interface{ InModule(*ssa.Function) bool }, pkg *ssa.Package, calleeCtx func(*ssa.CallCommon, *ssa.Function, any) any) *c17Walker {
	return &c17Walker{inModule: p.InModule, pkg: pkg, calleeCtx: calleeCtx, reached: map[*ssa.Function]bool{}, stack: map[*ssa.Function]bool{}}
}

func c17OwnerGate(c *Ctx) {
	p, r := c.P, c.R
	const rule = "owner-gate"
	const rel = "network/netbios/nbtns"
	pk := p.Pkg(rel)
	if pk == nil {
		r.Undecided(rule, "package", "", rel+" not found")
		return
	}
	tn, _ := pk.Types.Scope().Lookup("NetBIOSNameServer").(*types.TypeName)
	if tn == nil {
		r.Undecided(rule, "NetBIOSNameServer", "", "type not found")
		return
	}
	test := &c17OwnerTest{p: p}
	ownerParams := func(fn *ssa.Function) []ssa.Value {
		var out []ssa.Value
		for _, prm := range fn.Params[1:] {
			if isIPType(prm.Type()) {
				out = append(out, prm)
			}
		}
		return out
	}
	calleeCtx := func(cc *ssa.CallCommon, callee *ssa.Function, ctx any) any {
		o, _ := ctx.(*c17Own)
		if o == nil {
			return (*c17Own)(nil)
		}
		return test.forCallee(o, cc, callee, 0)
	}
	// entries: the exported owner-taking methods first, then every other owner-taking
	// method that no analysed entry reaches (so that no method escapes the rule)
	ms := types.NewMethodSet(types.NewPointer(tn.Type()))
	var exported, others []*ssa.Function
	for i := 0; i < ms.Len(); i++ {
		fn := p.Func(rel, "NetBIOSNameServer", ms.At(i).Obj().Name())
		if fn == nil || fn.Blocks == nil || len(ownerParams(fn)) == 0 {
			continue
		}
		if ms.At(i).Obj().Exported() {
			exported = append(exported, fn)
		} else {
			others = append(others, fn)
		}
	}
	reachedAll := map[*ssa.Function]bool{}
	nMethods := 0
	analysed := map[string]int{}
	judge := func(fn *ssa.Function) {
		test.unread = nil
		w := c17NewWalker(p, fn.Pkg, calleeCtx)
		own := c17NewOwn(fn, ownerParams(fn))
		w.walk(fn, own, nil, nil, 0)
		for g := range w.reached {
			reachedAll[g] = true
		}
		if w.inserts {
			// methods that insert records are registration, governed by the conflict matrix
			return
		}
		nMethods++
		fname := p.FuncName(fn)
		ord := map[string]int{}
		sort.SliceStable(w.muts, func(i, j int) bool { return w.muts[i].in.Pos() < w.muts[j].in.Pos() })
		for _, m := range w.muts {
			what := m.what
			if m.via != "" {
				what = "via " + m.via + ": " + what
			}
			ord[what]++
			key := fmt.Sprintf("%s: %s #%d", fname, what, ord[what])
			analysed[fn.Name()]++
			where := ""
			for _, fr := range m.frames {
				o, _ := fr.ctx.(*c17Own)
				if test.blockGated(fr.b, o, 0) {
					where = p.FuncName(fr.fn)
					break
				}
			}
			if where == "" && len(m.frames) > 0 {
				if o, _ := m.frames[len(m.frames)-1].ctx.(*c17Own); test.storeIsOwnerFilter(m.in, o) {
					r.OK(rule, key, p.Rel(m.in.Pos()), "the store is slices.DeleteFunc of the same field with a predicate that holds only for "+ownerParams(fn)[0].Name()+": it can only remove the requester's own entry")
					continue
				}
			}
			oname := fn.Params[1].Name()
			if ops := ownerParams(fn); len(ops) > 0 {
				oname = ops[0].Name()
			}
			if where != "" {
				r.OK(rule, key, p.Rel(m.in.Pos()), "dominated by the positive outcome of an ownership comparison with "+oname+" (established in "+where+")")
			} else if len(test.unread) > 0 {
				un := strings.Join(uniqStrings(test.unread), "; ")
				r.OK(rule, key, p.Rel(m.in.Pos()), "NOT DECIDED — no ownership comparison was recognised on the way to this modification, but the decision runs through code the rule does not read: "+un)
				r.Note("C17 owner-gate: %s NOT DECIDED — %s", key, un)
			} else {
				r.Fail(rule, key, p.Rel(m.in.Pos()), "the table is modified on a path that never compared a stored owner with "+oname+": an address that does not own the name can change or remove it")
			}
		}
		if len(w.muts) == 0 {
			// the release / refresh operations must still be recognised as modifying the table
			if fn.Name() == "ReleaseName" || fn.Name() == "RefreshName" {
				r.Undecided(rule, fname+": mutations of the table", p.Rel(fn.Pos()), "no modification of the table was recognised in or under this method: the rule no longer matches its shape")
			}
		}
	}
	for _, fn := range exported {
		judge(fn)
	}
	for _, fn := range others {
		if !reachedAll[fn] {
			judge(fn)
		}
	}
	// the two operations the property names must be among the judged methods
	for _, name := range []string{"ReleaseName", "RefreshName"} {
		if analysed[name] == 0 {
			if fn := p.Func(rel, "NetBIOSNameServer", name); fn != nil {
				r.Undecided(rule, p.FuncName(fn)+": judged as an owner-restricted operation", p.Rel(fn.Pos()), "the method takes no owner address, inserts records, or reaches no recognised modification: release/refresh-by-owner-only is not decided for it")
			}
		}
	}
	// one instance per owner-restricted operation at least (ReleaseName, RefreshName); the
	// number of mutation statements is an artefact of how the method is written
	r.Floor(rule, 2)
	r.Extra["owner_gated_methods"] = nMethods
	r.Extra["owner_gated_mutations_per_method"] = analysed
}
