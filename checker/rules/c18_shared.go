package rules

import (
	"fmt"
	"sort"
	"strings"

	"golang.org/x/tools/go/ssa"

	effects "manticheck/internal/srvfx"
)

// C18 extension `R1b-shared-object` (added after an independently seeded
// change was missed): the generalisation of NO-SHARED-BUFFER from receive
// buffers to any per-request object. In a loop that launches goroutines, a
// local object that is allocated OUTSIDE the loop and written INSIDE it (a
// field store on every iteration) must not be reachable by a goroutine started
// in the loop: the next iteration's write races with the handler still using
// it, so a late handler acts on another request's state.

func init() {
	ck := registry["C18"]
	if ck == nil {
		return
	}
	orig := ck.Run
	ck.Run = func(c *Ctx) {
		orig(c)
		c18SharedObject(c)
		c.R.Explanation += " Extension R1b SHARED-OBJECT: in every loop that starts goroutines, no local object allocated outside the loop and stored into inside it may reach a go statement of that loop (per-request state must be allocated per iteration)."
	}
}

func c18SharedObject(c *Ctx) {
	const rule = "R1b-shared-object"
	p, r := c.P, c.R
	pg := effects.NewProg(p)
	al := effects.NewAlias(pg)
	nLoops := 0
	for _, fn := range pg.Funcs {
		rp := relPkg(p, fn)
		if rp != c18Nbtns && rp != c18Llmnr {
			continue
		}
		loops := effects.Loops(fn)
		for li, L := range loops {
			// does the loop start goroutines — directly, or through a helper that does
			// (serveConn(conn): wg.Add(1); go s.handleConnection(conn))?
			var gos []ssa.Instruction
			viaHelper := map[ssa.Instruction]bool{}
			for b := range L.Blocks {
				for _, in := range b.Instrs {
					switch x := in.(type) {
					case *ssa.Go:
						gos = append(gos, x)
					case *ssa.Call:
						h := x.Call.StaticCallee()
						if h == nil || h.Blocks == nil || !p.InModule(h) || h == fn {
							continue
						}
						for _, hb := range h.Blocks {
							for _, hin := range hb.Instrs {
								if _, ok := hin.(*ssa.Go); ok && !viaHelper[x] {
									viaHelper[x] = true
									gos = append(gos, x)
								}
							}
						}
					}
				}
			}
			if len(gos) == 0 {
				continue
			}
			sort.Slice(gos, func(i, j int) bool { return gos[i].Pos() < gos[j].Pos() })
			nLoops++
			construct := fmt.Sprintf("%s: loop #%d starting goroutines", p.FuncName(fn), li+1)
			pos := p.Rel(gos[0].Pos())
			// local objects allocated outside the loop and written inside it
			written := map[ssa.Value][]string{}
			for b := range L.Blocks {
				for _, in := range b.Instrs {
					st, ok := in.(*ssa.Store)
					if !ok {
						continue
					}
					fa, ok := st.Addr.(*ssa.FieldAddr)
					if !ok {
						continue
					}
					for _, root := range effects.Roots(fa.X) {
						ri, isInstr := root.(ssa.Instruction)
						if !isInstr || L.Blocks[ri.Block()] {
							continue // parameters/receiver, or allocated per iteration
						}
						switch root.(type) {
						case *ssa.Alloc, *ssa.Call, *ssa.MakeInterface:
							written[root] = append(written[root], p.Rel(st.Pos()))
						}
					}
				}
			}
			if len(written) == 0 {
				r.OK(rule, construct, pos, "no local object allocated outside the loop is written inside it")
				continue
			}
			var bad []string
			for root, sites := range written {
				_, evs := al.Run(fn, []ssa.Value{root})
				for _, e := range evs {
					if e.Instr == nil || !L.Blocks[e.Instr.Block()] {
						continue
					}
					switch {
					case e.Kind == effects.EvGo:
						bad = append(bad, fmt.Sprintf("object %s (written at %s) reaches the go statement at %s", root.Name(), strings.Join(sites, ","), p.Rel(e.Instr.Pos())))
					case e.Kind == effects.EvEscape && viaHelper[e.Instr]:
						bad = append(bad, fmt.Sprintf("object %s (written at %s) reaches the goroutine started by the helper called at %s (%s)", root.Name(), strings.Join(sites, ","), p.Rel(e.Instr.Pos()), e.What))
					}
				}
			}
			if len(bad) == 0 {
				r.OK(rule, construct, pos, fmt.Sprintf("%d outside-allocated objects are written in the loop; none reaches a goroutine started in it", len(written)))
			} else {
				r.Fail(rule, construct, pos, "per-request state is shared between iterations: "+strings.Join(bad, "; ")+" — the next iteration overwrites it while the handler goroutine of the previous request still uses it")
			}
		}
	}
	r.Floor(rule, 3)
	r.Extra["R1b_loops_starting_goroutines"] = nLoops
}
