package rules

import (
	"fmt"
	"go/types"
	"math/big"
	"os"
	"sort"
	"strings"

	"golang.org/x/tools/go/ssa"

	"manticheck/internal/absint"
	"manticheck/internal/lanes"
)

// wire_roundtrip.go — FALL-BACK of C09/C10 R1/R2 when the structural layout of
// a message encoder or decoder could not be read completely (COMPLETENESS
// BEFORE VERDICT: the structural rules then say NOT DECIDED). Instead of
// giving up, the pair is interpreted over the bit-lane domain (internal/absint,
// nothing is executed, no data byte is ever chosen) on ONE representative
// shape — one entry in each of the four sections, RDATA of three different
// lengths, every integer field symbolic:
//
//	bytes := Encode(msg);  msg' := Decode(bytes)
//
// and three things are read off, whatever the code looks like (iterators,
// cursor types, closures, two-pass encoders, …):
//
//   - `roundtrip`: every field of msg' holds, bit for bit, the field of msg it
//     was encoded from (names are compared through the name codec, which is
//     replaced by an injective stand-in: its own rules decide it);
//   - `roundtrip` header: bytes 0..11 of the encoding are the six 16-bit words
//     of the RFC header in order, most significant byte first, the four count
//     words being the constants 1 (= len(section));
//   - `roundtrip` order: every multi-byte integer field occupies consecutive
//     bytes of the encoding, most significant first.
//
// A run that stops at something the interpreter does not model is reported
// NOT DECIDED; only a lane-level mismatch that was actually observed is a
// violation. The shape is one of infinitely many: this is a necessary
// condition, like every rule of this family.

const wRTRule = "roundtrip"

// wRTWanted: the fall-back runs when the structural comparison is incomplete
// (why != ""), or — for testing the fall-back itself on code the structural
// rules do read — when MANTICHECK_ROUNDTRIP is set.
func wRTWanted(why string) string {
	if why == "" && os.Getenv("MANTICHECK_ROUNDTRIP") != "" {
		return "requested with MANTICHECK_ROUNDTRIP"
	}
	return why
}

// wRTSpec describes one message type to the fall-back.
type wRTSpec struct {
	prop     string
	pkg      string
	msgType  string   // struct with the header and the four section slices
	hdrField string   // "" when the header is embedded (promoted fields)
	hdrType  string   // the header struct
	hdrWords []string // header fields in RFC order
	counts   []string // the four count fields (in hdrWords), section order
	secs     []string // the four section fields
	qType    string   // element type of section 0
	rrType   string   // element type of sections 1..3
	rdata    string   // byte-slice field of rrType
	rdlen    string   // its length field
	nameFld  string   // name field of the elements
	// encode / decode entry points
	encRecv, encName string
	decRecv, decName string
	decIsMethod      bool // decode is a method on *msgType taking the bytes
	// name codec stand-ins: functions whose calls are replaced
	nameEnc, nameDec [2]string // (recv, name)
	nameIsPtr        bool      // names are *T objects (NBNS) rather than strings (LLMNR)
}

func wNamed(c *Ctx, rel, name string) *types.Named {
	pk := c.P.Pkg(rel)
	if pk == nil {
		return nil
	}
	tn, ok := pk.Types.Scope().Lookup(name).(*types.TypeName)
	if !ok {
		return nil
	}
	n, _ := tn.Type().(*types.Named)
	return n
}

func wFieldIdx(t types.Type, name string) int {
	st, ok := t.Underlying().(*types.Struct)
	if !ok {
		return -1
	}
	for i := 0; i < st.NumFields(); i++ {
		if st.Field(i).Name() == name {
			return i
		}
	}
	return -1
}

// wRoundTrip runs the fall-back and reports under rule `roundtrip`.
func wRoundTrip(c *Ctx, sp wRTSpec, why string) {
	r, p := c.R, c.P
	cons := sp.msgType + ": decode(encode(m)) == m on the representative shape (lane interpretation)"
	_ = cons
	nd := func(format string, a ...any) {
		msg := fmt.Sprintf(format, a...)
		r.OK(wRTRule, cons, "", "NOT DECIDED — "+msg)
		r.Note("%s roundtrip fall-back: NOT DECIDED — %s", sp.prop, msg)
	}
	defer func() {
		if e := recover(); e != nil {
			nd("internal error in the lane interpretation: %v", e)
		}
	}()
	msgT, hdrT, qT, rrT := wNamed(c, sp.pkg, sp.msgType), wNamed(c, sp.pkg, sp.hdrType), wNamed(c, sp.pkg, sp.qType), wNamed(c, sp.pkg, sp.rrType)
	enc := p.Func(sp.pkg, sp.encRecv, sp.encName)
	dec := p.Func(sp.pkg, sp.decRecv, sp.decName)
	nEnc := p.Func(sp.pkg, sp.nameEnc[0], sp.nameEnc[1])
	nDec := p.Func(sp.pkg, sp.nameDec[0], sp.nameDec[1])
	if msgT == nil || hdrT == nil || qT == nil || rrT == nil || enc == nil || dec == nil || nEnc == nil || nDec == nil {
		nd("types or functions of the message codec do not resolve")
		return
	}
	pos := p.Rel(dec.Pos())
	in := absint.New(p.InModule)
	in.MaxSteps = 4_000_000
	in.MaxDepth = 12
	srcs := map[string]int{}
	msg := in.SymNode(msgT, "", srcs)
	hdr := msg
	if sp.hdrField != "" {
		hi := wFieldIdx(msgT, sp.hdrField)
		if hi < 0 {
			nd("header field does not resolve")
			return
		}
		hdr = msg.Kids[hi]
	} else {
		// embedded header: first field of the header's type
		found := false
		for i := 0; i < msgT.Underlying().(*types.Struct).NumFields(); i++ {
			if types.Identical(msgT.Underlying().(*types.Struct).Field(i).Type(), hdrT) {
				hdr, found = msg.Kids[i], true
			}
		}
		if !found {
			nd("embedded header does not resolve")
			return
		}
	}
	// names: tag k stands for the name of entry k
	tags := []string{}
	nameObjs := map[*absint.Node]int{}
	tagOf := func(k int) string { return fmt.Sprintf("name%d.example", k) }
	mkName := func(elem *absint.Node, elemT types.Type, k int) bool {
		ni := wFieldIdx(elemT, sp.nameFld)
		if ni < 0 {
			return false
		}
		tags = append(tags, tagOf(k))
		if !sp.nameIsPtr {
			elem.Kids[ni].Leaf = absint.LitStr(tagOf(k))
			return true
		}
		pt, ok := elem.Kids[ni].T.Underlying().(*types.Pointer)
		if !ok {
			return false
		}
		obj := in.SymNode(pt.Elem(), fmt.Sprintf("name%d", k), map[string]int{})
		// give every string field of the name object a literal value
		if st, isSt := pt.Elem().Underlying().(*types.Struct); isSt {
			for i := 0; i < st.NumFields(); i++ {
				if b, isB := st.Field(i).Type().Underlying().(*types.Basic); isB && b.Info()&types.IsString != 0 {
					obj.Kids[i].Leaf = absint.LitStr("")
				}
			}
			if fi := wFieldIdx(pt.Elem(), "Name"); fi >= 0 {
				obj.Kids[fi].Leaf = absint.LitStr(fmt.Sprintf("HOST%d", k))
			}
		}
		nameObjs[obj] = k
		elem.Kids[ni].Leaf = absint.Ptr{N: obj}
		return true
	}
	// entries per section: pairwise different, so that exchanged count words show
	nEntries := []int{2, 1, 3, 4}
	rdLenOf := func(si, j int) int { return (2*si + 3*j) % 6 }
	type entryKey struct{ si, j int }
	rdIDs := map[entryKey]int{}
	nameIdx := map[entryKey]int{}
	nNames := 0
	for si, sec := range sp.secs {
		fi := wFieldIdx(msgT, sec)
		if fi < 0 {
			nd("section %s does not resolve", sec)
			return
		}
		et := types.Type(qT)
		if si > 0 {
			et = rrT
		}
		arr := &absint.Node{T: types.NewArray(et, int64(nEntries[si]))}
		for j := 0; j < nEntries[si]; j++ {
			elem := in.SymNode(et, fmt.Sprintf("%s[%d]", sec, j), srcs)
			nameIdx[entryKey{si, j}] = nNames
			if !mkName(elem, et, nNames) {
				nd("name field of %s does not resolve", sec)
				return
			}
			nNames++
			if si > 0 {
				di, li := wFieldIdx(rrT, sp.rdata), wFieldIdx(rrT, sp.rdlen)
				if di < 0 || li < 0 {
					nd("RDATA fields do not resolve")
					return
				}
				n := rdLenOf(si, j)
				rd, id := in.SymBytes(fmt.Sprintf("%s[%d].%s", sec, j, sp.rdata), n)
				rdIDs[entryKey{si, j}] = id
				elem.Kids[di].Leaf = absint.Slice{Arr: rd, Lo: 0, Hi: n, Cap: n}
				w, _, _ := lanes.IntWidth(elem.Kids[li].T)
				elem.Kids[li].Leaf = absint.Int{V: lanes.ConstVec(big.NewInt(int64(n)), w)}
				delete(srcs, fmt.Sprintf("%s[%d].%s", sec, j, sp.rdlen))
			}
			arr.Kids = append(arr.Kids, elem)
		}
		msg.Kids[fi].Leaf = absint.Slice{Arr: arr, Lo: 0, Hi: nEntries[si], Cap: nEntries[si]}
	}
	// the name codec is replaced by an injective stand-in
	encoded := func(k int) string {
		s := fmt.Sprintf("N%02d", k)
		return s + strings.Repeat("A", 32-len(s))
	}
	nilErr := absint.Iface{}
	misaligned := func(n int) absint.Value {
		e := absint.Iface{V: absint.ErrV{Why: "no name starts here (the decoder is not aligned with what the encoder wrote)"}}
		out := absint.Tuple{}
		for i := 0; i < n-1; i++ {
			out = append(out, absint.OpaqueOf(nDec.Signature.Results().At(i).Type(), "result of a failed name decoder"))
		}
		return append(out, e)
	}
	// how often the stand-ins were actually used: a message codec that produces
	// or consumes its names some other way (a shared append-style helper, an
	// inlined loop) is not covered by the stand-in, and a failure of the real
	// name code to understand the stand-in's bytes says nothing about the codec
	nEncCalls, nDecCalls := 0, 0
	in.Hook = func(in *absint.Interp, call *ssa.CallCommon, callee *ssa.Function, args []absint.Value) (absint.Value, bool) {
		switch callee {
		case nEnc:
			nEncCalls++
		case nDec:
			nDecCalls++
		}
		switch callee {
		case nEnc:
			if len(args) < 1 {
				return nil, false
			}
			if sp.nameIsPtr {
				ptr, ok := args[0].(absint.Ptr)
				if !ok || ptr.N == nil {
					return nil, false
				}
				k, ok := nameObjs[ptr.N]
				if !ok {
					return nil, false
				}
				return absint.Tuple{absint.LitStr(encoded(k)), nilErr}, true
			}
			s, ok := args[0].(*absint.Str)
			if !ok {
				return nil, false
			}
			lit, isLit := s.Literal()
			for k, t := range tags {
				if isLit && t == lit {
					e := encoded(k)
					arr := &absint.Node{T: types.NewArray(types.Typ[types.Uint8], int64(len(e))), Kids: make([]*absint.Node, len(e))}
					for i := range arr.Kids {
						arr.Kids[i] = &absint.Node{T: types.Typ[types.Uint8], Leaf: absint.Int{V: lanes.ConstVec(big.NewInt(int64(e[i])), 8)}}
					}
					return absint.Tuple{absint.Slice{Arr: arr, Lo: 0, Hi: len(e), Cap: len(e)}, nilErr}, true
				}
			}
			return nil, false
		case nDec:
			if sp.nameIsPtr {
				s, ok := args[0].(*absint.Str)
				if !ok {
					return nil, false
				}
				lit, isLit := s.Literal()
				for k := range tags {
					if isLit && lit == encoded(k) {
						pt := nDec.Signature.Results().At(0).Type().Underlying().(*types.Pointer)
						obj := in.SymNode(pt.Elem(), "decoded", map[string]int{})
						if st, isSt := pt.Elem().Underlying().(*types.Struct); isSt {
							for i := 0; i < st.NumFields(); i++ {
								if b, isB := st.Field(i).Type().Underlying().(*types.Basic); isB && b.Info()&types.IsString != 0 {
									obj.Kids[i].Leaf = absint.LitStr("")
								}
							}
							if fi := wFieldIdx(pt.Elem(), "Name"); fi >= 0 {
								obj.Kids[fi].Leaf = absint.LitStr(fmt.Sprintf("HOST%d", k))
							}
						}
						return absint.Tuple{absint.Ptr{N: obj}, nilErr}, true
					}
				}
				return misaligned(2), true
			}
			// (data, offset) -> (name, newOffset, err): the stand-in occupies 32 bytes
			if len(args) < 2 {
				return nil, false
			}
			sl, ok1 := args[0].(absint.Slice)
			off, ok2 := args[1].(absint.Int)
			if !ok1 || !ok2 {
				return nil, false
			}
			ov, isK := off.V.ConstVal()
			if !isK || !ov.IsInt64() {
				return nil, false
			}
			o := int(ov.Int64())
			if sl.Nil || o < 0 || sl.Lo+o+32 > sl.Hi {
				return misaligned(3), true
			}
			var b []byte
			for i := 0; i < 32; i++ {
				iv, ok := sl.Arr.Kids[sl.Lo+o+i].Leaf.(absint.Int)
				kk, isK := iv.V.ConstVal()
				if !ok || !isK {
					return misaligned(3), true
				}
				b = append(b, byte(kk.Int64()))
			}
			for k, t := range tags {
				if string(b) == encoded(k) {
					return absint.Tuple{absint.LitStr(t), absint.Int{V: lanes.ConstVec(big.NewInt(int64(o+32)), 64)}, nilErr}, true
				}
			}
			return misaligned(3), true
		}
		return nil, false
	}
	// ---- encode
	var encArgs []absint.Value
	if enc.Signature.Recv() != nil {
		encArgs = append(encArgs, absint.Ptr{N: msg})
	} else {
		encArgs = append(encArgs, absint.Agg{N: msg})
	}
	blob, err := in.Call(enc, encArgs...)
	if err != nil {
		nd("%s: abstract interpretation stopped: %s", sp.encName, err.Error())
		return
	}
	var bs absint.Slice
	switch y := blob.(type) {
	case absint.Tuple:
		if len(y) != 2 {
			nd("%s does not return (bytes, error)", sp.encName)
			return
		}
		if isNil, known := c13IfaceNil(y[1]); !known || !isNil {
			r.Fail(wRTRule, cons, p.Rel(enc.Pos()), sp.encName+" returns an error for a message with one entry per section")
			return
		}
		bs, _ = y[0].(absint.Slice)
	case absint.Slice:
		bs = y
	}
	if bs.Arr == nil || bs.Nil {
		nd("%s does not return a byte slice of known content", sp.encName)
		return
	}
	out := &absint.Node{T: types.NewArray(types.Typ[types.Uint8], int64(bs.Len()))}
	for i := bs.Lo; i < bs.Hi; i++ {
		out.Kids = append(out.Kids, &absint.Node{T: types.Typ[types.Uint8], Leaf: bs.Arr.Kids[i].Leaf})
	}
	name := func(b lanes.Bit) string { return fmt.Sprintf("%s.%d", in.SrcName(b.S), b.B+8*0) }
	byteAt := func(i int) lanes.Vec {
		if i < 0 || i >= len(out.Kids) {
			return nil
		}
		iv, _ := out.Kids[i].Leaf.(absint.Int)
		return iv.V
	}
	// ---- header: six words in order, big-endian; counts are the constant 1
	isCount := map[string]bool{}
	for _, cf := range sp.counts {
		isCount[cf] = true
	}
	for wi, f := range sp.hdrWords {
		key := fmt.Sprintf("%s: header word %d of the encoding is %s, big-endian", sp.encName, wi, f)
		hi, lo := byteAt(2*wi), byteAt(2*wi+1)
		if hi == nil || lo == nil {
			r.Fail(wRTRule, key, p.Rel(enc.Pos()), fmt.Sprintf("the encoding has only %d bytes", len(out.Kids)))
			continue
		}
		if isCount[f] {
			want := 0
			for ci, cf := range sp.counts {
				if cf == f {
					want = nEntries[ci]
				}
			}
			kh, ok1 := hi.ConstVal()
			kl, ok2 := lo.ConstVal()
			if ok1 && ok2 && kh.Sign() == 0 && kl.Int64() == int64(want) {
				r.OK(wRTRule, key, p.Rel(enc.Pos()), fmt.Sprintf("00 %02x = len(section)", want))
			} else {
				r.Fail(wRTRule, key, p.Rel(enc.Pos()), fmt.Sprintf("bytes %d..%d are %s %s; the section holds %d entries, so the count word must be 00 %02x", 2*wi, 2*wi+1, hi.String(name), lo.String(name), want, want))
			}
			continue
		}
		fi := wFieldIdx(hdrT, f)
		id, okS := srcs[pathJoin(sp.hdrField, f)]
		if fi < 0 || !okS {
			nd("header field %s does not resolve", f)
			continue
		}
		wantHi, wantLo := c13SrcBits(id, 0, 8, 8), c13SrcBits(id, 0, 0, 8)
		if hi.Equal(wantHi) && lo.Equal(wantLo) {
			r.OK(wRTRule, key, p.Rel(enc.Pos()), "bits 15..8 then bits 7..0")
		} else {
			r.Fail(wRTRule, key, p.Rel(enc.Pos()), fmt.Sprintf("bytes %d..%d of the encoding are %s %s, expected %s bits 15..8 then 7..0", 2*wi, 2*wi+1, hi.String(name), lo.String(name), f))
		}
	}
	// ---- byte order of every multi-byte field of the entries
	var paths []string
	for pth := range srcs {
		paths = append(paths, pth)
	}
	sort.Strings(paths)
	for _, pth := range paths {
		if !strings.Contains(pth, "].") {
			continue
		}
		id := srcs[pth]
		// width: find the leaf
		w := 0
		for i := 0; i < len(out.Kids) && w == 0; i++ {
			for _, b := range byteAt(i) {
				if b.K == lanes.Src && b.S == id {
					w = -1
				}
			}
		}
		// the width of the field is the highest bit seen + 1, rounded to bytes
		maxBit := -1
		first := -1
		for i := 0; i < len(out.Kids); i++ {
			for _, b := range byteAt(i) {
				if b.K == lanes.Src && b.S == id {
					if b.B > maxBit {
						maxBit = b.B
					}
					if first < 0 {
						first = i
					}
				}
			}
		}
		key := fmt.Sprintf("%s: %s is emitted most significant byte first", sp.encName, pth)
		if first < 0 {
			r.Fail(wRTRule, key, p.Rel(enc.Pos()), "no byte of the encoding carries "+pth)
			continue
		}
		nb := (maxBit + 8) / 8
		if nb < 2 {
			continue
		}
		okOrd := true
		for k := 0; k < nb; k++ {
			if !byteAt(first + k).Equal(c13SrcBits(id, 0, 8*(nb-1-k), 8)) {
				okOrd = false
			}
		}
		if okOrd {
			r.OK(wRTRule, key, p.Rel(enc.Pos()), fmt.Sprintf("%d consecutive bytes at offset %d", nb, first))
		} else {
			var got []string
			for k := 0; k < nb; k++ {
				got = append(got, byteAt(first+k).String(name))
			}
			r.Fail(wRTRule, key, p.Rel(enc.Pos()), fmt.Sprintf("the %d bytes from offset %d are %s: not the field's bytes in network order", nb, first, strings.Join(got, " ")))
		}
	}
	// ---- decode
	back := in.SymNode(msgT, "stale", map[string]int{})
	wireSl := absint.Slice{Arr: out, Lo: 0, Hi: len(out.Kids), Cap: len(out.Kids)}
	var res absint.Value
	if sp.decIsMethod {
		res, err = in.Call(dec, absint.Ptr{N: back}, wireSl)
	} else {
		res, err = in.Call(dec, wireSl)
	}
	if err != nil {
		nd("%s: abstract interpretation stopped: %s", sp.decName, err.Error())
		return
	}
	tup, _ := res.(absint.Tuple)
	if len(tup) < 2 {
		nd("%s does not return (…, error)", sp.decName)
		return
	}
	if isNil, known := c13IfaceNil(tup[len(tup)-1]); (!known || !isNil) && (nEncCalls == 0) != (nDecCalls == 0) {
		nd("%s returns an error, but only one side goes through the name codec's entry points (%s called %d times, %s %d times): the names on the wire were not produced / consumed by the stand-in, so the error says nothing about the message codec", sp.decName, sp.nameEnc[1], nEncCalls, sp.nameDec[1], nDecCalls)
		return
	}
	if isNil, known := c13IfaceNil(tup[len(tup)-1]); !known || !isNil {
		r.Fail(wRTRule, cons, pos, fmt.Sprintf("%s returns an error for the %d bytes %s produced", sp.decName, len(out.Kids), sp.encName))
		return
	}
	if !sp.decIsMethod {
		switch y := tup[0].(type) {
		case absint.Ptr:
			back = y.N
		case absint.Agg:
			back = y.N
		}
		if back == nil {
			nd("%s does not return a message object", sp.decName)
			return
		}
	}
	var bad []string
	backHdr := back
	if sp.hdrField != "" {
		backHdr = back.Kids[wFieldIdx(msgT, sp.hdrField)]
	} else {
		for i := 0; i < msgT.Underlying().(*types.Struct).NumFields(); i++ {
			if types.Identical(msgT.Underlying().(*types.Struct).Field(i).Type(), hdrT) {
				backHdr = back.Kids[i]
			}
		}
	}
	cmp := func(what string, got, want *absint.Node) {
		gv, ok1 := got.Leaf.(absint.Int)
		wv, ok2 := want.Leaf.(absint.Int)
		if !ok1 || !ok2 || !gv.V.Equal(wv.V) {
			g := "?"
			if ok1 {
				g = gv.V.String(name)
			}
			bad = append(bad, fmt.Sprintf("%s comes back as %s", what, g))
		}
	}
	for _, f := range sp.hdrWords {
		fi := wFieldIdx(hdrT, f)
		if isCount[f] {
			// the encoder may have rewritten the count in the subject: compare with 1
			want := 0
			for ci, cf := range sp.counts {
				if cf == f {
					want = nEntries[ci]
				}
			}
			gv, ok := backHdr.Kids[fi].Leaf.(absint.Int)
			k, isK := gv.V.ConstVal()
			if !ok || !isK || k.Int64() != int64(want) {
				bad = append(bad, fmt.Sprintf("header count %s comes back as %s, not %d", f, gv.V.String(name), want))
			}
			continue
		}
		cmp("header "+f, backHdr.Kids[fi], hdr.Kids[fi])
	}
	for si, sec := range sp.secs {
		fi := wFieldIdx(msgT, sec)
		sl, _ := back.Kids[fi].Leaf.(absint.Slice)
		if sl.Nil || sl.Arr == nil || sl.Len() != nEntries[si] {
			n := 0
			if sl.Arr != nil && !sl.Nil {
				n = sl.Len()
			}
			bad = append(bad, fmt.Sprintf("section %s comes back with %d entries instead of %d", sec, n, nEntries[si]))
			continue
		}
		et := types.Type(qT)
		if si > 0 {
			et = rrT
		}
		orig, _ := msg.Kids[fi].Leaf.(absint.Slice)
		st := et.Underlying().(*types.Struct)
		for j := 0; j < nEntries[si]; j++ {
			got := sl.Arr.Kids[sl.Lo+j]
			want := orig.Arr.Kids[j]
			ni := nameIdx[entryKey{si, j}]
			for k := 0; k < st.NumFields(); k++ {
				fn := st.Field(k).Name()
				what := fmt.Sprintf("%s[%d].%s", sec, j, fn)
				switch {
				case fn == sp.nameFld:
					gotTag := ""
					if sp.nameIsPtr {
						if ptr, ok := got.Kids[k].Leaf.(absint.Ptr); ok && ptr.N != nil {
							if nfi := wFieldIdx(ptr.N.T, "Name"); nfi >= 0 {
								if s, ok := ptr.N.Kids[nfi].Leaf.(*absint.Str); ok {
									gotTag, _ = s.Literal()
								}
							}
						}
						if gotTag != fmt.Sprintf("HOST%d", ni) {
							bad = append(bad, fmt.Sprintf("%s comes back as %q, the name of another entry or none", what, gotTag))
						}
					} else {
						if s, ok := got.Kids[k].Leaf.(*absint.Str); ok {
							gotTag, _ = s.Literal()
						}
						if gotTag != tagOf(ni) {
							bad = append(bad, fmt.Sprintf("%s comes back as %q, expected %q", what, gotTag, tagOf(ni)))
						}
					}
				case si > 0 && fn == sp.rdata:
					gs, _ := got.Kids[k].Leaf.(absint.Slice)
					n := 0
					if !gs.Nil && gs.Arr != nil {
						n = gs.Len()
					}
					if n != rdLenOf(si, j) {
						bad = append(bad, fmt.Sprintf("%s comes back with %d bytes instead of %d", what, n, rdLenOf(si, j)))
						continue
					}
					for b := 0; b < n; b++ {
						iv, _ := gs.Arr.Kids[gs.Lo+b].Leaf.(absint.Int)
						if !iv.V.Equal(lanes.SrcByte(rdIDs[entryKey{si, j}], b)) {
							bad = append(bad, fmt.Sprintf("%s[%d] comes back as %s", what, b, iv.V.String(name)))
							break
						}
					}
				default:
					if _, isInt := want.Kids[k].Leaf.(absint.Int); isInt {
						cmp(what, got.Kids[k], want.Kids[k])
					}
				}
			}
		}
	}
	if len(bad) == 0 {
		r.OK(wRTRule, cons, pos, fmt.Sprintf("%d-byte message with 2/1/3/4 entries; the header words, and the name, every integer field and the RDATA of every entry return bit for bit (structural comparison was not possible: %s)", len(out.Kids), why))
	} else {
		r.Fail(wRTRule, cons, pos, strings.Join(c13Head(bad, 6), "; "))
	}
}

func pathJoin(a, b string) string {
	if a == "" {
		return b
	}
	return a + "." + b
}
