package rules

import (
	"fmt"
	"strings"

	"golang.org/x/tools/go/ssa"
)

// C17 extension `stale-lookup` (added after an independently seeded change — a
// read-locked "fast path" in RegisterName that looks the name up, releases the
// lock, takes the write lock and then acts on the earlier result — was missed:
// every access is under the mutex, so the lockset rules are satisfied): the
// result of a table lookup made in one critical section must not be used after
// the lock has been released and taken again; the table may have changed in
// between (check-then-act), so two callers can both be told they own a unique
// name. Decided on the CFG: a path lookup → Unlock/RUnlock → Lock/RLock → use.
func init() {
	ck := registry["C17"]
	if ck == nil {
		return
	}
	orig := ck.Run
	ck.Run = func(c *Ctx) {
		orig(c)
		c17StaleLookup(c)
		c.R.Explanation += " Extension STALE-LOOKUP: in the functions of network/netbios/nbtns no value obtained from a map lookup in one critical section is used after the lock was released and acquired again (no path lookup → Unlock → Lock → use)."
	}
}

func c17StaleLookup(c *Ctx) {
	const rule = "stale-lookup"
	p, r := c.P, c.R
	n := 0
	for _, fn := range p.SrcFuncs() {
		if !strings.HasSuffix(relPkg(p, fn), "network/netbios/nbtns") || fn.Blocks == nil {
			continue
		}
		var acquires, releases []ssa.Instruction
		var lookups []*ssa.Lookup
		for _, b := range fn.Blocks {
			for _, in := range b.Instrs {
				switch x := in.(type) {
				case *ssa.Call:
					if key, kind := c18LockKey(x.Common()); key != "" {
						if kind == "Lock" || kind == "RLock" {
							acquires = append(acquires, x)
						} else {
							releases = append(releases, x)
						}
					}
				case *ssa.Lookup:
					if _, isMap := x.X.Type().Underlying().(interface{ Key() interface{} }); isMap || strings.HasPrefix(x.X.Type().Underlying().String(), "map[") {
						lookups = append(lookups, x)
					}
				}
			}
		}
		if len(lookups) == 0 || len(acquires) == 0 {
			continue
		}
		for li, lk := range lookups {
			n++
			construct := fmt.Sprintf("%s: table lookup #%d is used within its critical section", p.FuncName(fn), li+1)
			// values derived from the lookup (the record, the ok flag, comparisons of them)
			derived := map[ssa.Value]bool{lk: true}
			for changed := true; changed; {
				changed = false
				for _, b := range fn.Blocks {
					for _, in := range b.Instrs {
						v, isV := in.(ssa.Value)
						if !isV || derived[v] {
							continue
						}
						switch x := in.(type) {
						case *ssa.Extract:
							if derived[x.Tuple] {
								derived[v], changed = true, true
							}
						case *ssa.Phi:
							for _, e := range x.Edges {
								if derived[e] {
									derived[v], changed = true, true
								}
							}
						case *ssa.UnOp:
							if derived[x.X] {
								derived[v], changed = true, true
							}
						case *ssa.BinOp:
							if derived[x.X] || derived[x.Y] {
								derived[v], changed = true, true
							}
						case *ssa.FieldAddr:
							if derived[x.X] {
								derived[v], changed = true, true
							}
						}
					}
				}
			}
			bad := ""
			for _, b := range fn.Blocks {
				for _, in := range b.Instrs {
					if bad != "" {
						break
					}
					uses := false
					for _, op := range in.Operands(nil) {
						if *op != nil && derived[*op] {
							uses = true
						}
					}
					if v, isV := in.(ssa.Value); isV && derived[v] {
						continue // a derivation step, judged at its own uses
					}
					if !uses {
						continue
					}
					for _, rel := range releases {
						if !instrReaches(lk, rel) {
							continue
						}
						for _, acq := range acquires {
							if instrReaches(rel, acq) && instrReaches(acq, in) && !loopOnly(lk, rel, acq, in) {
								bad = fmt.Sprintf("the result of the lookup at %s is used at %s after the lock was released at %s and taken again at %s: the table may have changed in between (check-then-act)", p.Rel(lk.Pos()), p.Rel(in.Pos()), p.Rel(rel.Pos()), p.Rel(acq.Pos()))
							}
						}
					}
				}
			}
			if bad != "" {
				r.Fail(rule, construct, p.Rel(lk.Pos()), bad)
			} else {
				r.OK(rule, construct, p.Rel(lk.Pos()), "no path lookup → release → acquire → use")
			}
		}
	}
	r.Extra["stale_lookup_sites"] = n
}

// loopOnly: the chain lookup → release → acquire → use exists only by going
// round a loop back to the lookup itself (each iteration looks up afresh).
func loopOnly(lk, rel, acq, use ssa.Instruction) bool {
	return instrReaches(acq, lk) && instrReaches(lk, use) && lk.Block().Dominates(use.Block()) && acq.Block() != lk.Block() && !acq.Block().Dominates(use.Block())
}
