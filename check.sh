#!/bin/bash
# usage: check.sh <property> <quick|thorough>
# Decides one property from /repo's current working tree. Exit 0 = held,
# 1 = VIOLATION printed, 2 = the checker itself is broken.
set -uo pipefail
cd "$(dirname "$0")"
. ./env.sh
prop=${1:?property}; tier=${2:-quick}
REPO=${VERIF_REPO:-/repo}
mkdir -p bin evidence out
# rebuild the checker if any source is newer than the binary
if [ ! -x bin/manticheck ] || [ -n "$(find checker -newer bin/manticheck -name '*.go' -print -quit)" ]; then
  (cd checker && go build -o ../bin/manticheck ./cmd/manticheck) || { echo "checker broken: build failed"; exit 2; }
fi
export VERIF_TIER=$tier
./bin/manticheck check --property "$prop" --tier "$tier" --repo "$REPO" --verif "$(pwd)"
rc=$?
if [ "$tier" = thorough ] && [ $rc -eq 0 ] && [ -f "selftest/$prop.json" ]; then
  # thorough tier: validate the checker itself in both directions on single-edit variants of the
  # current tree (breaking variants must be reported, benign refactors must stay silent). A failure
  # here means the checker is broken (exit 2), not that the repository violates the property.
  out=$(VERIF_REPO="$REPO" python3 selftest/run.py --property "$prop" --jobs 8 2>&1); src=$?
  echo "$out" | tail -1
  python3 - "$prop" "$src" <<PYEOF
import json,sys,re
prop,src=sys.argv[1],int(sys.argv[2])
p=f"evidence/{prop}.json"
ev=json.load(open(p))
lines="""$out""".splitlines()
ev["coverage"]["selftest"]={"summary":lines[-1] if lines else "", "exit":src,
  "variants":[l.strip()[:160] for l in lines if re.match(r"^(pass|FAIL|skipped)",l)]}
json.dump(ev,open(p,"w"),indent=1)
PYEOF
  if [ $src -ne 0 ]; then echo "checker broken: self-test of $prop failed"; echo "$out" | grep -A3 '^FAIL' | head -40; exit 2; fi
fi
exit $rc
