#!/bin/bash
# usage: check.sh <property> <quick|thorough>
# Decides one property from /repo's current working tree. Exit 0 = held,
# 1 = VIOLATION printed, 2 = the checker itself is broken.
set -uo pipefail
cd "$(dirname "$0")"
. ./env.sh
prop=${1:?property}; tier=${2:-quick}
REPO=${VERIF_REPO:-/repo}
mkdir -p bin evidence out
# rebuild the checker if any source is newer than the binary
if [ ! -x bin/manticheck ] || [ -n "$(find checker -newer bin/manticheck -name '*.go' -print -quit)" ]; then
  (cd checker && go build -o ../bin/manticheck ./cmd/manticheck) || { echo "checker broken: build failed"; exit 2; }
fi
export VERIF_TIER=$tier
exec ./bin/manticheck check --property "$prop" --tier "$tier" --repo "$REPO" --verif "$(pwd)"
