#!/usr/bin/env python3
"""Self-test of the checkers on single-edit variants of real repo files.

Each variant is `file: old -> new`, applied in memory through a go build
overlay (the repo is never touched). A breaking variant (expect=fire) must make
the named property's check exit 1 with a report that mentions `mention`; a
benign variant (expect=silent) must leave it at exit 0.

usage: run.py [--property Cxx] [--jobs N]
"""
import json, os, subprocess, sys, tempfile, concurrent.futures, glob, shutil

VERIF = os.path.dirname(os.path.dirname(os.path.abspath(__file__)))
REPO = os.environ.get("VERIF_REPO", "/repo")

def load_variants(prop=None):
    out = []
    for f in sorted(glob.glob(os.path.join(VERIF, "selftest", "C*.json"))):
        for v in json.load(open(f)):
            if prop is None or v["property"] == prop:
                out.append(v)
    return out

def run_variant(v):
    tmp = tempfile.mkdtemp(prefix="vst_")
    try:
        repl = {}
        # optional base: an independently authored behaviour-preserving patch kept
        # under /verif/benign (applied first; `edits` then work on the patched text)
        if v.get("patch"):
            import re
            pd = os.path.join(VERIF, v["patch"])
            files = re.findall(r'^\+\+\+ b/(\S+)', open(pd).read(), re.M)
            tree = os.path.join(tmp, "tree")
            for f in files:
                dst = os.path.join(tree, f)
                os.makedirs(os.path.dirname(dst), exist_ok=True)
                if os.path.exists(os.path.join(REPO, f)):
                    shutil.copy(os.path.join(REPO, f), dst)
            pr = subprocess.run(["patch", "-p1", "-s", "-d", tree, "-i", pd], capture_output=True, text=True)
            if pr.returncode != 0:
                return (v, "skipped", "base patch does not apply: " + pr.stdout[-200:])
            for f in files:
                if f.endswith(".go"):
                    repl[os.path.join(REPO, f)] = open(os.path.join(tree, f)).read()
        for e in v.get("edits", []):
            path = os.path.join(REPO, e["file"])
            src = repl.get(path) or open(path).read()
            if src.count(e["old"]) != 1:
                return (v, "skipped", f"snippet occurs {src.count(e['old'])} times in {e['file']}")
            repl[path] = src.replace(e["old"], e["new"])
        ov = {"Replace": {}}
        for i, (path, src) in enumerate(repl.items()):
            p = os.path.join(tmp, f"f{i}.go")
            open(p, "w").write(src)
            ov["Replace"][path] = p
        ovp = os.path.join(tmp, "overlay.json")
        json.dump(ov, open(ovp, "w"))
        vdir = os.path.join(tmp, "verif")
        os.makedirs(vdir)
        shutil.copy(os.path.join(VERIF, "known-findings.txt"), vdir)
        env = dict(os.environ)
        env["GOFLAGS"] = "-mod=mod"
        r = subprocess.run([os.path.join(VERIF, "bin", "manticheck"), "check", "--property", v["property"],
                            "--tier", "quick", "--repo", REPO, "--verif", vdir, "--overlay", ovp],
                           capture_output=True, text=True, env=env)
        out = r.stdout + r.stderr
        if v["expect"] == "fire":
            ok = r.returncode == 1 and "VIOLATION property=" + v["property"] in out and (v.get("mention", "") in out)
        else:
            ok = r.returncode == 0
        return (v, "pass" if ok else "FAIL", "" if ok else f"exit={r.returncode}\n" + "\n".join(out.splitlines()[-12:]))
    finally:
        shutil.rmtree(tmp, ignore_errors=True)

def main():
    prop = None
    jobs = 6
    a = sys.argv[1:]
    while a:
        if a[0] == "--property": prop = a[1]; a = a[2:]
        elif a[0] == "--jobs": jobs = int(a[1]); a = a[2:]
        else: a = a[1:]
    vs = load_variants(prop)
    res = []
    with concurrent.futures.ThreadPoolExecutor(max_workers=jobs) as ex:
        for v, st, msg in ex.map(run_variant, vs):
            print(f"{st:7s} {v['property']} {v['expect']:6s} {v['name']}")
            if msg: print("        " + msg.replace("\n", "\n        "))
            res.append(st)
    bad = res.count("FAIL")
    print(f"selftest: {len(res)} variants, {res.count('pass')} pass, {bad} FAIL, {res.count('skipped')} skipped")
    sys.exit(2 if bad else 0)

main()
