#!/bin/bash
# Builds the checker from files on disk only (module cache, offline).
set -euo pipefail
cd "$(dirname "$0")"
. ./env.sh
mkdir -p bin evidence out
(cd checker && go build -o ../bin/manticheck ./cmd/manticheck)
echo "built bin/manticheck with $(go version)"
