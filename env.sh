# toolchain environment shared by setup.sh and check.sh
export PATH=/opt/veriftools/go1.26.8/bin:$PATH
export GOTOOLCHAIN=local GOFLAGS=-mod=mod GOPROXY=off GOWORK=off
unset GOSUMDB
